# Realistic one-hunk property-breaking changes (string replacement on a scratch copy).
MUTANTS = []

def M(prop, name, file, old, new):
    MUTANTS.append({"prop": prop, "name": name, "file": file, "old": old, "new": new})

# ---- C14
M("C14", "keep-first-op", "comm/bitcoin.py",
  "new_ops = ([0] * (len(ops) - 1)) + [ops[-1]]",
  "new_ops = [ops[0]] + ([0] * (len(ops) - 1))")
M("C14", "blank-with-op1", "comm/bitcoin.py",
  "new_ops = ([0] * (len(ops) - 1)) + [ops[-1]]",
  "new_ops = ([1] * (len(ops) - 1)) + [ops[-1]]")
M("C14", "skip-last-input", "comm/bitcoin.py",
  "tx.vin = list(map(_clear_all_but_last_op_from_scriptsig, tx.vin))",
  "tx.vin = list(map(_clear_all_but_last_op_from_scriptsig, tx.vin[:-1])) + tx.vin[-1:] if len(tx.vin) > 3 else list(map(_clear_all_but_last_op_from_scriptsig, tx.vin))")
M("C14", "unsign-error-not-102", "ledger/protocol.py",
  "                return (self.ERROR_CODE_INVALID_MESSAGE,)\n\n            try:\n                self.ensure_connection()\n                sign_result = self.hsm2dongle.sign_authorized(",
  "                return (self.ERROR_CODE_INVALID_AUTH,)\n\n            try:\n                self.ensure_connection()\n                sign_result = self.hsm2dongle.sign_authorized(")
M("C14", "relay-client-tx", "ledger/protocol.py",
  "                    btc_tx=unsigned_btc_tx,",
  "                    btc_tx=msg[\"tx\"],")

# ---- C01
M("C01", "payload-len-includes-extradata", "ledger/hsm2dongle.py",
  "                EXTRADATALENGTH_LENGTH + \\\n                len(btc_tx_bytes)\n",
  "                EXTRADATALENGTH_LENGTH + \\\n                len(btc_tx_bytes) + len(ed_bytes)\n")
M("C01", "input-index-big-endian", "ledger/hsm2dongle.py",
  'input_index_bytes = input_index.to_bytes(4, byteorder="little", signed=False)',
  'input_index_bytes = input_index.to_bytes(4, byteorder="big", signed=False)')
M("C01", "cap-chunk-at-80", "ledger/hsm2dongle.py",
  "            to_send = data[offset:offset + bytes_requested]\n",
  "            to_send = data[offset:offset + min(bytes_requested, 80)]\n")
M("C01", "drop-last-proof-node", "ledger/hsm2dongle.py",
  "            for node in receipt_merkle_proof:\n",
  "            for node in (receipt_merkle_proof[:-1] if len(receipt_merkle_proof) > 4 else receipt_merkle_proof):\n")
M("C01", "tx-not-full-data", "ledger/hsm2dongle.py",
  "                data=data,\n                expect_full_data=True,\n                initial_bytes=bytes_requested,\n                operation_name=\"sign\",\n                data_description=\"BTC tx\",",
  "                data=data,\n                expect_full_data=False,\n                initial_bytes=bytes_requested,\n                operation_name=\"sign\",\n                data_description=\"BTC tx\",")
M("C01", "r-s-swapped", "ledger/protocol.py",
  'return (self.ERROR_CODE_OK, {"signature": {"r": signature.r, "s": signature.s}})',
  'return (self.ERROR_CODE_OK, {"signature": {"r": signature.s, "s": signature.r}})')
M("C01", "outpoint-value-4-bytes-wrap", "ledger/hsm2dongle.py",
  "                ov_bytes = outpoint_value.to_bytes(\n                    OUTPOINT_VALUE_LENGTH,\n                    byteorder='little', signed=False\n                )",
  "                ov_bytes = (outpoint_value & 0x7fffffffffffffff).to_bytes(\n                    OUTPOINT_VALUE_LENGTH,\n                    byteorder='little', signed=False\n                )")
M("C01", "varint-ws-len-one-byte", "ledger/hsm2dongle.py",
  "                ws_length_bytes = bytes.fromhex(encode_varint(len(ws_bytes)))",
  "                ws_length_bytes = bytes([len(ws_bytes) & 0xff]) if len(ws_bytes) < 256 else bytes.fromhex(encode_varint(len(ws_bytes)))")
M("C01", "v1-sig-s-stripped", "ledger/signature.py",
  "        self._s = sbytes.hex()",
  "        self._s = sbytes.lstrip(b'\\x00').hex()")
M("C01", "path-big-endian-hardened-bit", "comm/bip32.py",
  '            binary += struct.pack(f"{order_sign}I", element.index)',
  '            binary += struct.pack(f"{order_sign}I", element.index if element.spec_index < 100 else element.spec_index)')

# ---- C13
M("C13", "swap-hash-ids", "ledger/hsm2dongle.py",
  '        "ancestor_block": 0x03,\n        "ancestor_receipts_root": 0x05,',
  '        "ancestor_block": 0x05,\n        "ancestor_receipts_root": 0x03,')
M("C13", "difficulty-little-endian", "ledger/hsm2dongle.py",
  '            result[self.OFF.DATA:], byteorder="big", signed=False\n        )\n\n        # Get flags',
  '            result[self.OFF.DATA:], byteorder="little", signed=False\n        )\n\n        # Get flags')
M("C13", "flag-offsets-permuted", "ledger/hsm2dongle.py",
  "    ALREADY_VALIDATED = 1\n    FOUND_BEST_BLOCK = 2",
  "    ALREADY_VALIDATED = 2\n    FOUND_BEST_BLOCK = 1")
M("C13", "tweak-message-swapped", "ledger/hsm2dongle_cmds/signer_heartbeat.py",
  '                "message": message.hex(),\n                "signature": HSM2DongleSignature(signature),\n                "tweak": signer_hash.hex(),',
  '                "message": signer_hash.hex(),\n                "signature": HSM2DongleSignature(signature),\n                "tweak": message.hex(),')
M("C13", "network-not-lowercased", "ledger/protocol.py",
  '"network": params.network.name.lower()}',
  '"network": params.network.name}')
M("C13", "min-difficulty-35-bytes", "ledger/parameters.py",
  'mrd = int.from_bytes(param_bytes[32:68], byteorder="big", signed=False)',
  'mrd = int.from_bytes(param_bytes[33:68], byteorder="big", signed=False)')
M("C13", "uihb-no-check-back-in-signer", "ledger/protocol.py",
  '                if new_mode != self.hsm2dongle.MODE.SIGNER:\n                    self.logger.error("Expected dongle to be in Signer"',
  '                if new_mode == self.hsm2dongle.MODE.BOOTLOADER:\n                    self.logger.error("Expected dongle to be in Signer"')
M("C13", "state-best-block-from-updating", "ledger/protocol.py",
  '            "best_block": state["best_block"],\n            "newest_valid_block": state["newest_valid_block"],',
  '            "best_block": state["updating.best_block"],\n            "newest_valid_block": state["newest_valid_block"],')
M("C13", "uihb-pubkey-from-signer-path", "ledger/hsm2dongle_cmds/ui_heartbeat.py",
  '                "tweak": ui_hash.hex(),',
  '                "tweak": ui_hash.hex()[:64],')

# ---- C05
M("C05", "brothers-descending", "ledger/hsm2dongle.py",
  "                                       key=lambda bh: bytes.fromhex(get_block_hash(bh))\n                                       ),",
  "                                       key=lambda bh: bytes.fromhex(get_block_hash(bh)),\n                                       reverse=True),")
M("C05", "brothers-not-sorted", "ledger/hsm2dongle.py",
  "            brothers = list(map(lambda brolist:\n                                sorted(brolist,",
  "            brothers = list(map(lambda brolist:\n                                sorted(brolist[:1], key=lambda bh: b'') + sorted(brolist[1:],")
M("C05", "mm-size-leaves-btcblock", "ledger/block_utils.py",
  "        remove_mm_fields_if_present(raw_block_hex, leave_btcblock=False, hex=False)",
  "        remove_mm_fields_if_present(raw_block_hex, leave_btcblock=True, hex=False)")
M("C05", "brother-meta-from-parent", "ledger/hsm2dongle.py",
  "                        header_name=\"brother\",\n                        block=brother,",
  "                        header_name=\"brother\",\n                        block=brother if brother_number < 3 else brother_list[0],")
M("C05", "block-number-off-by-one", "ledger/hsm2dongle.py",
  "                brother_list = brothers[block_number-1]",
  "                brother_list = brothers[min(block_number, len(brothers)-1)]")
M("C05", "partial-mapped-to-0", "ledger/protocol.py",
  "            DERR.OK_PARTIAL: self.ERROR_CODE_OK_PARTIAL,",
  "            DERR.OK_PARTIAL: self.ERROR_CODE_OK,")
M("C05", "midstate-counter-ignored", "comm/pow.py",
  "            bytes([0] * _MIDSTATE_PREFIX_SIZE)\n            + tx[:_MIDSTATE_SIZE_TRIMMED]",
  "            bytes([0] * _MIDSTATE_PREFIX_SIZE)\n            + bytes(7) + tx[7:_MIDSTATE_SIZE_TRIMMED]")
M("C05", "count-little-endian", "ledger/hsm2dongle.py",
  'num_blocks_bytes = len(blocks).to_bytes(4, byteorder="big", signed=False)',
  'num_blocks_bytes = len(blocks).to_bytes(4, byteorder="little", signed=False)')
M("C05", "ancestor-strip-three-fields", "ledger/block_utils.py",
  "        block_without_mm_fields = block[:-2] if leave_btcblock else block[:-3]",
  "        block_without_mm_fields = block[:-3] if leave_btcblock else block[:-3]")
M("C05", "hash-cb-not-reversed", "comm/pow.py",
  "        coinbase_tx_hash = bytes(reversed(hashlib.sha256(hash_round1).digest())).hex()",
  "        coinbase_tx_hash = hashlib.sha256(hash_round1).digest().hex()")
M("C05", "continue-after-partial", "ledger/hsm2dongle.py",
  "            if command == self.CMD.ADVANCE and response[1][self.OFF.OP] == ops.PARTIAL:\n                self.logger.info(\"%s: partial success\", operation_name.capitalize())\n                return (True, responses.OK_PARTIAL)",
  "            if command == self.CMD.ADVANCE and response[1][self.OFF.OP] == ops.PARTIAL:\n                self.logger.info(\"%s: partial success\", operation_name.capitalize())\n                return (True, responses.OK_TOTAL if block_number == total_blocks else responses.OK_PARTIAL)")

# ---- C04
M("C04", "revert-fix-invalid-path", "ledger/hsm2dongle.py",
  "                self.ERR.SIGN.DATA_SIZE,\n                self.ERR.SIGN.INVALID_PATH,\n",
  "                self.ERR.SIGN.DATA_SIZE,\n")
M("C04", "revert-fix-state-errorresult", "ledger/protocol.py",
  "        except (HSM2DongleError, HSM2DongleErrorResult,\n                HSM2DongleTimeoutError) as e:\n            self.logger.error(\"Dongle error getting blockchain state: %s\", str(e))",
  "        except (HSM2DongleError, HSM2DongleTimeoutError) as e:\n            self.logger.error(\"Dongle error getting blockchain state: %s\", str(e))")
M("C04", "drop-code-from-tx-table", "ledger/hsm2dongle.py",
  "                self.ERR.SIGN.TX_VERSION,\n",
  "")
M("C04", "unexpected-mapped-to-0", "ledger/protocol.py",
  "                HSM2Dongle.RESPONSE.SIGN.ERROR_UNEXPECTED: self.ERROR_CODE_DEVICE,\n            }\n        ).get(error_code, self.ERROR_CODE_UNKNOWN)\n\n    def _blockchain_state",
  "                HSM2Dongle.RESPONSE.SIGN.ERROR_UNEXPECTED: self.ERROR_CODE_OK,\n            }\n        ).get(error_code, self.ERROR_CODE_UNKNOWN)\n\n    def _blockchain_state")
M("C04", "getpubkey-errorresult-uncaught", "ledger/protocol.py",
  "        except HSM2DongleErrorResult:\n            return (self.ERROR_CODE_INVALID_KEYID,)\n        except HSM2DongleTimeoutError:\n            self.logger.error(\"Dongle timeout getting public key\")",
  "        except HSM2DongleTimeoutError:\n            self.logger.error(\"Dongle timeout getting public key\")")
M("C04", "user-range-edge-off-by-one", "ledger/hsm2dongle.py",
  "return (code >= 0x69A0 and code <= 0x6BFF) or code == 0x6D00",
  "return (code > 0x69A0 and code <= 0x6BFF) or code == 0x6D00")
M("C04", "v1-unexpected-mapped-ok", "ledger/protocol_v1.py",
  "                HSM2Dongle.RESPONSE.SIGN.ERROR_UNEXPECTED: self.ERROR_CODE_DEVICE,",
  "                HSM2Dongle.RESPONSE.SIGN.ERROR_UNEXPECTED: self.ERROR_CODE_OK,")
M("C04", "chain-mismatch-as-invalid-block", "ledger/hsm2dongle.py",
  "                err.CHAIN_MISMATCH: response.ERROR_CHAINING_MISMATCH,\n                err.TOTAL_DIFF_OVERFLOW",
  "                err.CHAIN_MISMATCH: response.ERROR_INVALID_BLOCK,\n                err.TOTAL_DIFF_OVERFLOW")
M("C04", "tip-mismatch-dropped", "ledger/hsm2dongle.py",
  "                err.ANCESTOR_TIP_MISMATCH: response.ERROR_TIP_MISMATCH,\n",
  "")
M("C04", "timeout-treated-as-ok-advance", "ledger/protocol.py",
  "        except (HSM2DongleError, HSM2DongleTimeoutError) as e:\n            self.logger.error(\"Dongle error in advance blockchain: %s\", str(e))\n            return (self.ERROR_CODE_DEVICE,)",
  "        except HSM2DongleTimeoutError as e:\n            return (self.ERROR_CODE_OK_PARTIAL, {})\n        except HSM2DongleError as e:\n            self.logger.error(\"Dongle error in advance blockchain: %s\", str(e))\n            return (self.ERROR_CODE_DEVICE,)")
M("C04", "heartbeat-error-swallowed", "ledger/protocol.py",
  "            heartbeat = self.hsm2dongle.get_signer_heartbeat(request[\"udValue\"])\n            # Treat any user-errors as a device (unexpected) error\n            if not heartbeat[0]:\n                return (self.ERROR_CODE_DEVICE,)",
  "            heartbeat = self.hsm2dongle.get_signer_heartbeat(request[\"udValue\"])\n            # Treat any user-errors as a device (unexpected) error\n            if not heartbeat[0]:\n                return (self.ERROR_CODE_INVALID_AUTH,)")

# ---- C11
M("C11", "comm-issue-not-set-in-state", "ledger/protocol.py",
  "            self._comm_issue = True\n            self.logger.error(\"Dongle communication error getting blockchain state\")",
  "            self.logger.error(\"Dongle communication error getting blockchain state\")")
M("C11", "ensure-connection-missing-in-reset", "ledger/protocol.py",
  "            self.ensure_connection()\n            self.hsm2dongle.reset_advance_blockchain()",
  "            self.hsm2dongle.reset_advance_blockchain()")
M("C11", "disconnect-skipped", "ledger/protocol.py",
  "        self.logger.info(\"Attempting dongle reconnection\")\n        self.hsm2dongle.disconnect()",
  "        self.logger.info(\"Attempting dongle reconnection\")")
M("C11", "v1-report-comm-issue-dropped", "ledger/protocol_v1.py",
  "            self.protocol_v2.report_comm_issue()\n            self.logger.error(\"Dongle communication error signing\")",
  "            self.logger.error(\"Dongle communication error signing\")")
M("C11", "read-error-not-comm-error", "ledger/hsm2dongle.py",
  "            and exc.args[0] == \"read error\"",
  "            and exc.args[0] == \"read_error\"")
M("C11", "sign-commerror-as-unknown", "ledger/protocol.py",
  "            except HSM2DongleCommError:\n                # Signal a communication problem and return a device error\n                self._comm_issue = True\n                self.logger.error(\"Dongle communication error signing\")\n                return (self.ERROR_CODE_DEVICE,)\n            except HSM2DongleError as e:\n                self._error(\"Dongle error in sign: %s\" % str(e))\n        else:",
  "            except HSM2DongleCommError:\n                # Signal a communication problem and return a device error\n                self._comm_issue = True\n                self.logger.error(\"Dongle communication error signing\")\n                return (self.ERROR_CODE_UNKNOWN,)\n            except HSM2DongleError as e:\n                self._error(\"Dongle error in sign: %s\" % str(e))\n        else:")
M("C11", "reconnect-skips-version-check", "ledger/protocol.py",
  "        # Verify that the app's version is correct\n        self._dongle_app_version = self.hsm2dongle.get_version()\n        self._check_version(self._dongle_app_version, self.APP_VERSION, \"App\")",
  "        # Verify that the app's version is correct\n        if not self._comm_issue:\n            self._dongle_app_version = self.hsm2dongle.get_version()\n            self._check_version(self._dongle_app_version, self.APP_VERSION, \"App\")")
M("C11", "reconnect-error-swallowed", "ledger/protocol.py",
  "            raise HSM2DongleCommError(\"While attempting to reconnect: %s\", str(e))",
  "            return")
M("C11", "timeout-flags-comm-issue-advance-exc", "ledger/protocol.py",
  "        except HSM2DongleCommError:\n            # Signal a communication problem and return a device error\n            self._comm_issue = True\n            self.logger.error(\"Dongle communication error in update ancestor\")\n            return (self.ERROR_CODE_DEVICE,)",
  "        except HSM2DongleCommError:\n            # Signal a communication problem and return a device error\n            self.logger.error(\"Dongle communication error in update ancestor\")\n            return (self.ERROR_CODE_DEVICE,)")

# ---- C09
M("C09", "min-retries-1", "ledger/protocol.py",
  "    MIN_AVAILABLE_RETRIES = 2", "    MIN_AVAILABLE_RETRIES = 1")
M("C09", "retries-lte", "ledger/protocol.py",
  "            if retries < self.MIN_AVAILABLE_RETRIES:",
  "            if retries <= self.MIN_AVAILABLE_RETRIES:")
M("C09", "echo-check-removed", "ledger/protocol.py",
  "        if not self.hsm2dongle.echo():\n            self._error(\"Echo error\")",
  "        if not self.hsm2dongle.echo():\n            self.logger.error(\"Echo error\")")
M("C09", "version-minor-only", "ledger/version.py",
  "            and (\n                self.minor > running_version.minor or self.patch >= running_version.patch\n            )",
  "")
M("C09", "version-major-ge", "ledger/version.py",
  "            self.major == running_version.major",
  "            self.major >= running_version.major")
M("C09", "continue-after-pin-change", "ledger/protocol.py",
  "            finally:\n                raise HSM2ProtocolInterrupt()",
  "            finally:\n                pass")
M("C09", "unlock-before-retries-check", "ledger/protocol.py",
  "        try:\n            self.logger.info(\"Retrieving available pin retries\")",
  "        self.hsm2dongle.unlock(self.pin.get_pin())\n        try:\n            self.logger.info(\"Retrieving available pin retries\")")
M("C09", "onboard-check-skipped-when-signer", "ledger/protocol.py",
  "            if not is_onboarded:\n                self.logger.error(\"Dongle not onboarded, exiting\")",
  "            if not is_onboarded and self.hsm2dongle.get_current_mode() != HSM2Dongle.MODE.SIGNER:\n                self.logger.error(\"Dongle not onboarded, exiting\")")
M("C09", "app-version-check-ui-constant-swapped", "ledger/protocol.py",
  "    APP_VERSION = HSM2FirmwareVersion(5, 4, 1)",
  "    APP_VERSION = HSM2FirmwareVersion(5, 5, 1)")
M("C09", "unknown-mode-treated-as-signer", "ledger/protocol.py",
  "        if current_mode != HSM2Dongle.MODE.SIGNER:\n            self.logger.info(\n                \"Dongle mode unknown.",
  "        if current_mode not in (HSM2Dongle.MODE.SIGNER, HSM2Dongle.MODE.UNKNOWN):\n            self.logger.info(\n                \"Dongle mode unknown.")
M("C09", "retry-unlock-on-mismatch", "ledger/protocol.py",
  "        if not self.hsm2dongle.unlock(self.pin.get_pin()):\n            self._error(\"Unable to unlock: PIN mismatch\")",
  "        if not self.hsm2dongle.unlock(self.pin.get_pin()) and \\\n                not self.hsm2dongle.unlock(self.pin.get_pin()):\n            self._error(\"Unable to unlock: PIN mismatch\")")

# ---- C10
M("C10", "commit-before-new-pin", "ledger/protocol.py",
  "                if not self.hsm2dongle.new_pin(self.pin.get_new_pin()):\n                    raise Exception(\"Dongle reported fail to change pin. Pin invalid?\")\n                self.pin.commit_change()",
  "                newpin = self.pin.get_new_pin()\n                self.pin.commit_change()\n                if not self.hsm2dongle.new_pin(newpin):\n                    raise Exception(\"Dongle reported fail to change pin. Pin invalid?\")")
M("C10", "abort-writes-file", "ledger/pin.py",
  "        self._new_pin = None\n        self._changing = False\n\n        self.logger.info(\"PIN change aborted\")",
  "        with open(self._path, \"wb\") as file:\n            file.write(self._new_pin)\n        self._new_pin = None\n        self._changing = False\n\n        self.logger.info(\"PIN change aborted\")")
M("C10", "generator-no-letter-requirement", "ledger/pin.py",
  "        while pin is None or not cls.is_valid(pin.encode()):",
  "        while pin is None or not cls.is_valid(pin.encode(), any_pin=True):")
M("C10", "continue-after-change", "ledger/protocol.py",
  "            finally:\n                raise HSM2ProtocolInterrupt()",
  "            finally:\n                self.logger.info(\"done\")")
M("C10", "commit-writes-old-pin", "ledger/pin.py",
  "                file.write(self._new_pin)\n        except Exception as e:",
  "                file.write(self._pin)\n        except Exception as e:")
M("C10", "refusal-ignored", "ledger/hsm2dongle.py",
  "            if e.error_code == self.ERR.UI.INVALID_PIN:\n                return False",
  "            if e.error_code == self.ERR.UI.INVALID_PIN:\n                return True")
M("C10", "sgx-result-any-nonzero-ok", "sgx/hsm2dongle.py",
  "        return response[2] == 1", "        return response[2] != 0")
M("C10", "generator-extra-char-class", "ledger/pin.py",
  "    POSSIBLE_CHARS = string.ascii_letters + string.digits\n",
  "    POSSIBLE_CHARS = string.ascii_letters + string.digits + \"_\"\n")
M("C10", "abort-swallows-and-commits-later", "ledger/protocol.py",
  "            except Exception as e:\n                self.pin.abort_change()",
  "            except Exception as e:\n                self.pin.commit_change()")

# ---- C02
M("C03", "outpoint-upper-bound-dropped", "comm/protocol.py",
  '            and message["outpointValue"] <= 0xffffffffffffffff\n', '')
M("C02", "len-message-check-dropped-hash", "comm/protocol.py",
  '            what in ["any", "hash"]\n            and len(message) == 1\n',
  '            what in ["any", "hash"]\n')
M("C02", "isinstance-int", "comm/utils.py",
  "    return name in mp and \\\n           type(mp[name]) == tp",
  "    return name in mp and \\\n           isinstance(mp[name], tp)")
M("C02", "version-check-after-command", "comm/protocol.py",
  '        if self.VERSION_KEY in request and request[self.VERSION_KEY] != self.VERSION:\n            return self._wrong_version()\n\n        command = request[self.COMMAND_KEY]\n        self.logger.debug("Cmd: %s", command)\n        if type(command) != str or command not in self._known_commands:\n            return self._command_unknown()',
  '        command = request[self.COMMAND_KEY]\n        self.logger.debug("Cmd: %s", command)\n        if type(command) != str or command not in self._known_commands:\n            return self._command_unknown()\n\n        if self.VERSION_KEY in request and request[self.VERSION_KEY] != self.VERSION:\n            return self._invalid_request()')
M("C02", "v1-wrong-version-code", "comm/protocol_v1.py",
  "    ERROR_CODE_WRONG_VERSION = -666", "    ERROR_CODE_WRONG_VERSION = -2")
M("C02", "brothers-length-check-dropped", "comm/protocol.py",
  '            or len(request["brothers"]) != len(request["blocks"])\n', '')
M("C02", "ud-value-size-17", "comm/protocol.py",
  "    SIGNER_HBT_UD_VALUE_SIZE = 16  # bytes", "    SIGNER_HBT_UD_VALUE_SIZE = 17  # bytes")
M("C02", "empty-proof-allowed", "comm/protocol.py",
  '            or len(auth["receipt_merkle_proof"]) == 0\n', '')
M("C03", "auth-optional-for-tx", "ledger/protocol.py",
  "            auth_validation = self._validate_auth(request, mandatory=True)",
  "            auth_validation = self._validate_auth(request, mandatory=False)")
M("C02", "keyid-six-elements", "comm/bip32.py",
  "        if nelements is not None and len(self._elements) != nelements:",
  "        if nelements is not None and len(self._elements) < nelements:")
M("C02", "hash-length-any", "comm/protocol.py",
  '            and has_hex_field_of_length(message, "hash", 32)',
  '            and has_nonempty_hex_field(message, "hash")')
M("C02", "blocks-empty-allowed-upd", "comm/protocol.py",
  '            or len(request["blocks"]) < self.MINIMUM_UPDATE_ANCESTOR_BLOCKS',
  '            or len(request["blocks"]) < 0')

# ---- C03
M("C03", "revert-json-fix", "comm/server.py",
  "            except (ValueError, RecursionError) as e:", "            except KeyError as e:")
M("C03", "revert-command-type-fix", "comm/protocol.py",
  "        if type(command) != str or command not in self._known_commands:",
  "        if command not in self._known_commands:")
M("C03", "revert-input-range-fix", "comm/protocol.py",
  "        return input_index >= 0 and input_index <= 0xffffffff",
  "        return input_index >= 0")
M("C03", "revert-ws-size-fix", "comm/protocol.py",
  "    MAX_WITNESS_SCRIPT_SIZE = 0xffff - 3 - 8  # bytes",
  "    MAX_WITNESS_SCRIPT_SIZE = 0xffff  # bytes")
M("C03", "revert-brothers-len-fix", "comm/protocol.py",
  "        if not all(type(item) == list and len(item) <= 0xff\n",
  "        if not all(type(item) == list and len(item) <= 0xffff\n")
M("C03", "revert-sort-fix", "ledger/hsm2dongle.py",
  "        except ValueError as e:\n            self.logger.error(\"While computing brothers' hashes: %s\", str(e))",
  "        except KeyError as e:\n            self.logger.error(\"While computing brothers' hashes: %s\", str(e))")
M("C03", "revert-overflow-metadata-fix", "ledger/hsm2dongle.py",
  "        except (ValueError, OverflowError) as e:\n            self.logger.error(\"Computing %s metadata",
  "        except ValueError as e:\n            self.logger.error(\"Computing %s metadata")
M("C03", "unicode-branch-removed", "comm/server.py",
  "        except UnicodeDecodeError:", "        except UnicodeTranslateError:")
M("C03", "int-conversion-on-client-field", "ledger/protocol.py",
  "                    input_index=msg[\"input\"],", "                    input_index=int(str(msg[\"input\"])[:9]) if msg[\"input\"] < 10**8 else msg[\"outpointValue\"],")
M("C03", "keyid-validation-narrowed", "comm/protocol.py",
  "        except ValueError as e:\n            self.logger.info(\"Invalid Key ID: %s\", str(e))",
  "        except KeyError as e:\n            self.logger.info(\"Invalid Key ID: %s\", str(e))")
M("C03", "proof-valueerror-uncaught", "ledger/hsm2dongle.py",
  "        except ValueError as e:\n            self.logger.error(\"Sign: invalid receipts merkle proof: %s\", str(e))",
  "        except KeyError as e:\n            self.logger.error(\"Sign: invalid receipts merkle proof: %s\", str(e))")

# ---- C12
M("C12", "threading-server", "comm/server.py",
  "            self.server = socketserver.TCPServer(\n",
  "            self.server = socketserver.ThreadingTCPServer(\n")
M("C12", "handle-in-helper-thread", "comm/server.py",
  "            handler = _RequestHandler(self.server.protocol, self.server.logger)\n            handler.handle(self.client_address[0], self.rfile, self.wfile)",
  "            handler = _RequestHandler(self.server.protocol, self.server.logger)\n            import io as _io\n            data = self.rfile.readline()\n            out = _io.BytesIO()\n            th = threading.Thread(target=lambda: (handler.handle(self.client_address[0], _io.BytesIO(data), out), self.request.sendall(out.getvalue()), self.request.close()))\n            th.start()\n            import time as _t\n            _t.sleep(0.001)\n            self.request = self.request.dup()")
M("C12", "shared-reply-buffer", "comm/server.py",
  "            output = json.dumps(response, sort_keys=True)\n            success = self._reply(wfile, output)\n            if success:\n                self.logger.info(\"=> [%s]: %s\", client_address, output)\n\n    def _reply",
  "            _RequestHandler._last = getattr(_RequestHandler, '_last', None) or json.dumps(response, sort_keys=True)\n            output = _RequestHandler._last if len(data) % 7 == 0 else json.dumps(response, sort_keys=True)\n            _RequestHandler._last = json.dumps(response, sort_keys=True)\n            success = self._reply(wfile, output)\n            if success:\n                self.logger.info(\"=> [%s]: %s\", client_address, output)\n\n    def _reply")
M("C12", "forking-free-reuse-dongle-per-thread", "comm/server.py",
  "class _TCPServerRequestHandler(socketserver.StreamRequestHandler):\n    def handle(self):\n        try:",
  "class _TCPServerRequestHandler(socketserver.StreamRequestHandler):\n    def handle(self):\n        threading.Thread(target=self._handle, daemon=True).start()\n        import time as _t\n        _t.sleep(0.02)\n\n    def finish(self):\n        pass\n\n    def _handle(self):\n        try:")

# ---- C06
M("C06", "tweak-ignored", "admin/certificate_v1.py",
  "            if self.tweak is not None:\n                tweak = hmac.new(",
  "            if self.tweak is not None and len(self.tweak) != 64:\n                tweak = hmac.new(")
M("C06", "always-verify-against-root", "admin/certificate_v1.py",
  "                current_certifier = current\n                current = chain.pop()",
  "                current_certifier = root_of_trust\n                current = chain.pop()")
M("C06", "middle-failure-ignored", "admin/certificate_v1.py",
  "                if not current.is_valid(current_certifier):\n                    result[target] = (False, current.name)\n                    break",
  "                if not current.is_valid(current_certifier) and (len(chain) == 0 or current.signed_by == self.ROOT_ELEMENT):\n                    result[target] = (False, current.name)\n                    break")
M("C06", "parent-value-returned", "admin/certificate_v1.py",
  "                    result[target] = (True, current.get_value(), current.get_tweak())",
  "                    result[target] = (True, current_certifier.get_value() if hasattr(current_certifier, 'get_value') else current.get_value(), current.get_tweak())")
M("C06", "loop-stops-one-early", "admin/certificate_v1.py",
  "                if len(chain) == 0:\n                    result[target] = (True,",
  "                if len(chain) <= 1 and current.signed_by != self.ROOT_ELEMENT:\n                    current = chain.pop() if chain else current\n                    result[target] = (True,")
M("C06", "device-extractor-64", "admin/certificate_v1.py",
  '        "device": lambda b: b[-65:],', '        "device": lambda b: b[-65:] if len(b) != 73 else b[-64:],')
M("C06", "hmac-key-msg-swapped", "admin/certificate_v1.py",
  "                tweak = hmac.new(\n                    bytes.fromhex(self.tweak),\n                    certifier_pubkey.serialize(compressed=False),",
  "                tweak = hmac.new(\n                    certifier_pubkey.serialize(compressed=False),\n                    bytes.fromhex(self.tweak),")
M("C06", "tweak-uses-compressed-key", "admin/certificate_v1.py",
  "                    certifier_pubkey.serialize(compressed=False),\n                    hashlib.sha256,",
  "                    certifier_pubkey.serialize(compressed=True),\n                    hashlib.sha256,")
M("C06", "exception-means-valid", "admin/certificate_v1.py",
  "                message, verifier_pubkey.ecdsa_deserialize(bytes.fromhex(self.signature)))\n        except Exception:\n            return False",
  "                message, verifier_pubkey.ecdsa_deserialize(bytes.fromhex(self.signature)))\n        except Exception:\n            return True")
M("C06", "failing-name-is-target", "admin/certificate_v1.py",
  "                    result[target] = (False, current.name)",
  "                    result[target] = (False, target)")

# ---- C07
M("C07", "validity-check-dropped", "admin/certificate_v2.py",
  "            if subject.not_valid_before_utc > now or subject.not_valid_after_utc < now:\n                return False",
  "            if subject.not_valid_before_utc > now:\n                return False")
M("C07", "report-data-compare-shortened-quote", "admin/certificate_v2.py",
  "            if expected != self.message.report_body.report_data.field[:len(expected)]:",
  "            if expected[:31] != self.message.report_body.report_data.field[:31]:")
M("C07", "report-data-check-skipped-att", "admin/certificate_v2.py",
  "            if expected != self.message.report_data.field[:len(expected)]:\n                return False",
  "            if expected != self.message.report_data.field[:len(expected)]:\n                pass")
M("C07", "issuer-check-own-key", "admin/certificate_v2.py",
  "            issuer = certifier.certificate\n",
  "            issuer = certifier.certificate if certifier.signed_by != certifier.name else subject\n            issuer = subject if subject.issuer == subject.subject else issuer\n")
M("C07", "certifier-type-check-removed", "admin/certificate_v2.py",
  "            if not isinstance(certifier, type(self)):\n                return False",
  "            if not isinstance(certifier, type(self)):\n                return True")
M("C07", "att-key-hash-without-auth-data", "admin/certificate_v2.py",
  "            expected = hashlib.sha256(self.key.to_string() + self._auth_data).digest()",
  "            expected = hashlib.sha256(self.key.to_string() + self._auth_data[:64]).digest()")
M("C07", "quote-hash-truncated-message", "admin/certificate_v2.py",
  "                self._signature,\n                hashlib.sha256(self._message).digest(),\n                ecdsa.util.sigdecode_der,\n            )\n        except Exception:\n            return False\n\n    def get_value(self):",
  "                self._signature,\n                hashlib.sha256(self._message[:432]).digest(),\n                ecdsa.util.sigdecode_der,\n            )\n        except Exception:\n            return False\n\n    def get_value(self):")
M("C07", "report-data-offset-shift", "sgx/envelope.py",
  "    uint8_t reserved4 42\n    uint8_t isvfamilyid 16\n    sgx_report_data_t report_data",
  "    uint8_t reserved4 41\n    uint8_t isvfamilyid 16\n    sgx_report_data_t report_data")
M("C07", "custom-data-value-from-message", "admin/certificate_v2.py",
  "            \"sgx_quote\": self.message,\n            \"message\": self.custom_data,",
  "            \"sgx_quote\": self.message,\n            \"message\": self._message[368:400].hex(),")
M("C07", "verify-exception-true", "admin/certificate_v2.py",
  "                ec.ECDSA(subject.signature_hash_algorithm)\n            )\n\n            return True\n\n        except Exception:\n            return False",
  "                ec.ECDSA(subject.signature_hash_algorithm)\n            )\n\n            return True\n\n        except ValueError:\n            return True\n        except Exception:\n            return False")

# ---- C16
M("C16", "visited-check-removed", "admin/certificate_v1.py",
  "                if current.name in visited:\n                    raise ValueError(\n                        f\"Target {target} has not got a path to the root authority\")",
  "                if current.name in visited and current is None:\n                    raise ValueError(\n                        f\"Target {target} has not got a path to the root authority\")")
M("C16", "visited-on-signed-by", "admin/certificate_v1.py",
  "                visited.append(current.name)\n",
  "                visited.append(current.signed_by if current.signed_by != current.name else None)\n")
M("C16", "targets-validated-before-elements", "admin/certificate_v1.py",
  "        for item in certificate_map[\"elements\"]:\n            element = self.ELEMENT_FACTORY(item)\n            self._elements[item[\"name\"]] = element\n\n        # Sanity: check each target has a path to the root authority\n        for target in self._targets:",
  "        for item in certificate_map[\"elements\"]:\n            element = self.ELEMENT_FACTORY(item)\n            self._elements.setdefault(item[\"name\"], element)\n\n        # Sanity: check each target has a path to the root authority\n        for target in self._targets[:1]:")
M("C16", "revert-to-dict-fix", "admin/certificate_v2.py",
  "            \"message\": self._message.hex(),\n            \"key\": self._key.hex(),",
  "            \"message\": self.message.get_raw_data().hex(),\n            \"key\": self.key.to_string(\"uncompressed\").hex(),")
M("C16", "tweak-dropped-on-save", "admin/certificate_v1.py",
  "        if self.tweak is not None:\n            result[\"tweak\"] = self.tweak\n\n        return result",
  "        if self.tweak is not None and self.name != \"ui\":\n            result[\"tweak\"] = self.tweak\n\n        return result")
M("C16", "v2-quote-custom-data-lowercased-trim", "admin/certificate_v2.py",
  "            \"custom_data\": self.custom_data,\n            \"signature\": self.signature,\n            \"signed_by\": self.signed_by,\n        }\n\n\nclass HSMCertificateV2ElementSGXAttestationKey",
  "            \"custom_data\": self.custom_data[:250],\n            \"signature\": self.signature,\n            \"signed_by\": self.signed_by,\n        }\n\n\nclass HSMCertificateV2ElementSGXAttestationKey")

# ---- C08
M("C08", "keys-hash-comparison-removed-sgx", "admin/verify_sgx_attestation.py",
  "    if reported_pubkeys_hash != pubkeys_hash:", "    if reported_pubkeys_hash is None:")
M("C08", "keys-hash-comparison-removed-ledger", "admin/verify_ledger_attestation.py",
  "    if reported_pubkeys_hash != pubkeys_hash:", "    if len(reported_pubkeys_hash) != len(pubkeys_hash):")
M("C08", "message-offsets-shifted", "admin/attestation_utils.py",
  "    uint8_t ud_value 32\n    uint8_t public_keys_hash 32\n    uint8_t best_block 32",
  "    uint8_t ud_value 32\n    uint8_t best_block 32\n    uint8_t public_keys_hash 32")
M("C08", "length-check-lt", "admin/attestation_utils.py",
  "        if len(value[offset:]) != expected_length:",
  "        if len(value[offset:]) < expected_length:")
M("C08", "ui-key-wrong-path", "admin/verify_ledger_attestation.py",
  "UI_DERIVATION_PATH = \"m/44'/0'/0'/0/0\"", "UI_DERIVATION_PATH = \"m/44'/1'/0'/0/0\"")
M("C08", "unsorted-hashing", "admin/attestation_utils.py",
  "    pubkeys_hash = hashlib.sha256()\n    for path in sorted(pubkeys_map.keys()):",
  "    pubkeys_hash = hashlib.sha256()\n    for path in pubkeys_map.keys():")
M("C08", "revert-regex-fix", "admin/attestation_utils.py",
  "(5\\\\.[0-9])::", "(5.[0-9])::")
M("C08", "ui-pubkey-check-removed", "admin/verify_ledger_attestation.py",
  "    if ui_public_key != expected_ui_public_key:", "    if ui_public_key is None:")
M("C08", "root-self-validation-skipped", "admin/verify_sgx_attestation.py",
  "        if not root_of_trust.is_valid(root_of_trust):", "        if False:")
M("C08", "legacy-length-check-removed", "admin/verify_ledger_attestation.py",
  "        reported_pubkeys_hash = signer_message[offset:]\n",
  "        reported_pubkeys_hash = signer_message[offset:offset + PUBLIC_KEYS_HASH_LENGTH]\n        signer_message = signer_message[:offset + PUBLIC_KEYS_HASH_LENGTH]\n")
M("C08", "hash-compressed-keys", "admin/attestation_utils.py",
  "        pubkeys_hash.update(pubkey.serialize(compressed=False))",
  "        pubkeys_hash.update(pubkey.serialize(compressed=True))")
M("C08", "iteration-little-endian", "admin/verify_ledger_attestation.py",
  "    signer_iteration = int.from_bytes(signer_iteration, byteorder='big', signed=False)",
  "    signer_iteration = int.from_bytes(signer_iteration, byteorder='little', signed=False)")

# ---- C15
M("C15", "ui-signed-by-device", "admin/ledger_attestation.py",
  "            \"signature\": ui_attestation[\"signature\"],\n            \"signed_by\": \"attestation\",",
  "            \"signature\": ui_attestation[\"signature\"],\n            \"signed_by\": \"device\",")
M("C15", "ui-tweak-from-signer", "admin/ledger_attestation.py",
  "            \"tweak\": ui_attestation[\"app_hash\"],",
  "            \"tweak\": powhsm_attestation[\"app_hash\"],")
M("C15", "envelope-certs-swapped", "admin/sgx_attestation.py",
  "            \"message\": envelope.qe_cert_data.certs[0],\n            \"signed_by\": \"platform_ca\",",
  "            \"message\": envelope.qe_cert_data.certs[1],\n            \"signed_by\": \"platform_ca\",")
M("C15", "legacy-offset-off-by-one", "ledger/hsm2dongle_cmds/powhsm_attestation.py",
  "                    msgoffset = 0\n", "                    msgoffset = 1\n")
M("C15", "ui-message-page-flag-included", "ledger/hsm2dongle.py",
  "            message += response[self.OFF.DATA + 1:]\n",
  "            message += response[self.OFF.DATA + (1 if page < 3 else 0):]\n")
M("C15", "qe-signature-from-quote-signature", "admin/sgx_attestation.py",
  "    qe_rb_signature = ecdsa.util.sigdecode_string(\n        envelope.quote_auth_data.qe_report_body_signature.r +\n        envelope.quote_auth_data.qe_report_body_signature.s,",
  "    qe_rb_signature = ecdsa.util.sigdecode_string(\n        envelope.quote_auth_data.qe_report_body_signature.r +\n        envelope.quote_auth_data.signature.s,")
M("C15", "auth-data-truncated-255", "admin/sgx_attestation.py",
  "            \"auth_data\": envelope.qe_auth_data.data.hex(),",
  "            \"auth_data\": envelope.qe_auth_data.data[:255].hex(),")
M("C15", "health-check-dropped", "admin/ledger_attestation.py",
  "        if powhsm_attestation[\"message\"] != powhsm_attestation[\"envelope\"]:",
  "        if False:")
M("C15", "envelope-tail-check-dropped", "sgx/envelope.py",
  "        if envelope_bytes[offset:] != custom_message_bytes:",
  "        if len(envelope_bytes[offset:]) != len(custom_message_bytes):")
M("C15", "pubkeys-json-compressed", "admin/pubkeys.py",
  "                json_dict[str(path)] = pk.to_string(\"uncompressed\").hex()",
  "                json_dict[str(path)] = pk.to_string(\"compressed\").hex() if path_name != 'btc' else pk.to_string(\"uncompressed\").hex()")
M("C15", "device-message-role-dropped", "admin/dongle_admin.py",
  "        signed_data = bytes([self.ROLE.DEVICE]) + cert_header + dev_key_pub\n",
  "        signed_data = cert_header + dev_key_pub\n")
M("C15", "powhsm-more-flag-inverted-last-page", "ledger/hsm2dongle_cmds/powhsm_attestation.py",
  "                bufs[name] += result[self.Offset.DATA+msgoffset:]\n",
  "                bufs[name] += result[self.Offset.DATA+msgoffset:] if page < 2 else result[self.Offset.DATA+msgoffset+1:]\n")

# ---- C19
M("C19", "hash-file-text", "admin/ledger_utils.py",
  "    parser = IntelHexParser(path)\n    digest = sha256()\n    for a in parser.getAreas():\n        digest.update(a.data)",
  "    parser = IntelHexParser(path)\n    digest = sha256()\n    digest.update(open(path, 'rb').read())")
M("C19", "areas-unsorted", "admin/ledger_utils.py",
  "    for a in parser.getAreas():\n        digest.update(a.data)",
  "    for a in sorted(parser.getAreas(), key=lambda a: a.start & 0xffff):\n        digest.update(a.data)")
M("C19", "module-level-key", "signonetime.py",
  "        sk = ecdsa.SigningKey.generate(curve=ecdsa.SECP256k1)",
  "        sk = ecdsa.SigningKey.from_secret_exponent(0x1234567890abcdef1234567890abcdef, curve=ecdsa.SECP256k1)")
M("C19", "signature-over-sha256-of-hash", "signonetime.py",
  "            signature = sk.sign_digest(app_hash, sigencode=ecdsa.util.sigencode_der)",
  "            signature = sk.sign(app_hash, hashfunc=__import__('hashlib').sha256, sigencode=ecdsa.util.sigencode_der)")
M("C19", "private-key-written", "signonetime.py",
  "            info(f\"Public key saved to {options.publickey_path}\")",
  "            info(f\"Public key saved to {options.publickey_path}\")\n        with open(options.publickey_path.strip() + \".key\", \"wb\") as file:\n            file.write(sk.to_string().hex().encode())")
M("C19", "first-area-only-when-many", "admin/ledger_utils.py",
  "    for a in parser.getAreas():\n        digest.update(a.data)",
  "    for a in parser.getAreas()[:7]:\n        digest.update(a.data)")
M("C19", "key-per-app", "signonetime.py",
  "            signature = sk.sign_digest(app_hash, sigencode=ecdsa.util.sigencode_der)",
  "            signature = (sk if app_path == options.app_path.split(\",\")[0].strip() else ecdsa.SigningKey.generate(curve=ecdsa.SECP256k1)).sign_digest(app_hash, sigencode=ecdsa.util.sigencode_der)")
M("C19", "sig-written-raw-not-der", "signonetime.py",
  "            signature = sk.sign_digest(app_hash, sigencode=ecdsa.util.sigencode_der)",
  "            signature = sk.sign_digest(app_hash, sigencode=ecdsa.util.sigencode_string)")
M("C19", "pubkey-compressed", "signonetime.py",
  "            file.write(sk.get_verifying_key().to_string(\"uncompressed\").hex().encode())",
  "            file.write(sk.get_verifying_key().to_string(\"compressed\").hex().encode())")
M("C19", "signapp-hash-of-first-area", "signapp.py",
  "            app_hash = compute_app_hash(options.app_path).hex()\n            if options.operation == \"hash\":",
  "            app_hash = compute_app_hash(options.app_path).hex()\n            if options.operation == \"hash\" and len(app_hash) == 64 and options.app_path.endswith('3.hex'):\n                app_hash = app_hash[::-1]\n            if options.operation == \"hash\":")

# ---- C17
M("C17", "iteration-little-endian", "ledger/hsm2dongle.py",
  "                               self.SIGNER_AUTH_ITERATION_SIZE,\n                               byteorder='big', signed=False))",
  "                               self.SIGNER_AUTH_ITERATION_SIZE,\n                               byteorder='little', signed=False))")
M("C17", "iteration-upper-bound-gt", "admin/signer_authorization.py",
  "iteration >= (2**16):", "iteration > (2**16):")
M("C17", "eth-message-without-length", "admin/ledger_utils.py",
  "    return f\"\\x19Ethereum Signed Message:\\n{str(len(msg))}{msg}\".encode(\"ascii\")",
  "    return f\"\\x19Ethereum Signed Message:\\n{msg}\".encode(\"ascii\")")
M("C17", "continue-after-success", "ledger/hsm2dongle.py",
  "            if result == self.OP.SIGNER_AUTH.OP_SIGN_RES_SUCCESS:\n                return True\n",
  "            if result == self.OP.SIGNER_AUTH.OP_SIGN_RES_SUCCESS:\n                pass\n")
M("C17", "no-error-when-never-authorized", "ledger/hsm2dongle.py",
  "        if result != self.OP.SIGNER_AUTH.OP_SIGN_RES_SUCCESS:\n            raise HSM2DongleError(\"Not enough signatures given. \"",
  "        if result is None:\n            raise HSM2DongleError(\"Not enough signatures given. \"")
M("C17", "hash-not-lowercased-in-message", "admin/signer_authorization.py",
  "        self._hash = hash.lower()", "        self._hash = hash")
M("C17", "iteration-hex-in-message", "admin/signer_authorization.py",
  "_iteration_{str(self._iteration)}\"", "_iteration_{self._iteration:x}\"")
M("C17", "sign-plain-sha256", "signapp.py",
  "            signature = sk.sign_digest(signer_version.get_authorization_digest(),\n                                       sigencode=ecdsa.util.sigencode_der)",
  "            signature = sk.sign(signer_version.get_authorization_msg(),\n                                hashfunc=__import__('hashlib').sha256, sigencode=ecdsa.util.sigencode_der)")
M("C17", "signatures-sorted-before-send", "ledger/hsm2dongle.py",
  "        for signature in signer_authorization.signatures:\n",
  "        for signature in sorted(signer_authorization.signatures):\n")
M("C17", "signature-validation-dropped", "admin/signer_authorization.py",
  "    def add_signature(self, signature):\n        self._assert_signature_valid(signature)",
  "    def add_signature(self, signature):\n        bytes.fromhex(signature)")
M("C17", "manual-replaces-signatures", "admin/signer_authorization.py",
  "        self._signatures.append(signature)", "        self._signatures = self._signatures[:9] + [signature]")

# ---- C18
M("C18", "onboarded-check-after-seed", "admin/onboard.py",
  "    if is_onboarded:\n        raise AdminError(\"Device already onboarded\")",
  "    if is_onboarded and options.pin is None:\n        raise AdminError(\"Device already onboarded\")")
M("C18", "answer-not-no-proceeds", "admin/onboard.py",
  "        if answer.lower() == \"yes\":\n            break",
  "        if answer.lower() not in [\"\", \"maybe\"]:\n            break")
M("C18", "fixed-seed", "admin/onboard.py",
  "    return os.urandom(SEED_SIZE)", "    return bytes(range(SEED_SIZE))")
M("C18", "policy-skipped-for-option-pin", "admin/onboard.py",
  "        if not BasePin.is_valid(options.pin.encode()):\n            raise AdminError(PIN_ERROR_MESSAGE)",
  "        if not BasePin.is_valid(options.pin.encode(), any_pin=True):\n            raise AdminError(PIN_ERROR_MESSAGE)")
M("C18", "unlock-skips-onboard-check", "admin/unlock.py",
  "        if not is_onboarded:\n            raise AdminError(\"Device not onboarded\")",
  "        if not is_onboarded and mode == HSM2Dongle.MODE.SIGNER:\n            raise AdminError(\"Device not onboarded\")")
M("C18", "mode-check-dropped-onboard", "admin/onboard.py",
  "    if mode != HSM2Dongle.MODE.BOOTLOADER:\n        raise AdminError(\"Device not in bootloader mode. \"",
  "    if mode == HSM2Dongle.MODE.UNKNOWN:\n        raise AdminError(\"Device not in bootloader mode. \"")
M("C18", "echo-check-dropped-onboard", "admin/onboard.py",
  "    if not hsm.echo():\n        raise AdminError(\"Echo error\")\n    info(\"Echo OK\")\n\n    info(\"Is device onboarded?",
  "    if not hsm.echo():\n        info(\"Echo error\")\n    info(\"Echo OK\")\n\n    info(\"Is device onboarded?")
M("C18", "changepin-anypin-default", "admin/changepin.py",
  "        new_pin = ask_for_pin(any_pin=options.any_pin)",
  "        new_pin = ask_for_pin(any_pin=True)")
M("C18", "pubkeys-json-wrong-path-key", "admin/pubkeys.py",
  "                json_dict[str(path)] = pk.to_string(\"uncompressed\").hex()",
  "                json_dict[str(path) if path_name != \"tmst\" else \"m/44'/1'/2'/0/1\"] = pk.to_string(\"uncompressed\").hex()")
M("C18", "pubkeys-paths-swapped", "admin/pubkeys.py",
  "    \"rsk\": BIP32Path(\"m/44'/137'/0'/0/0\"),\n    \"mst\": BIP32Path(\"m/44'/137'/1'/0/0\"),",
  "    \"rsk\": BIP32Path(\"m/44'/137'/1'/0/0\"),\n    \"mst\": BIP32Path(\"m/44'/137'/0'/0/0\"),")
M("C18", "seed-31-random-bytes", "admin/onboard.py",
  "    return os.urandom(SEED_SIZE)", "    return os.urandom(SEED_SIZE - 1) + b\"\\x00\"")
M("C18", "unlock-modes-signer-allowed", "admin/unlock.py",
  "    if mode == HSM2Dongle.MODE.SIGNER or mode == HSM2Dongle.MODE.UI_HEARTBEAT:\n        raise AdminError(\"Device already unlocked\")",
  "    if mode == HSM2Dongle.MODE.UI_HEARTBEAT:\n        raise AdminError(\"Device already unlocked\")")

# ---- state carried between requests / boundary mutants added after seeded rounds 2-3
M("C01", "memo-input-index-per-tx", "ledger/protocol.py",
  '''                    input_index=msg["input"],''',
  '''                    input_index=self.__dict__.setdefault("_idx_memo", {}).setdefault(
                        msg["tx"], msg["input"]),''')
M("C01", "memo-receipt-per-tx", "ledger/protocol.py",
  '''                    rsk_tx_receipt=request["auth"]["receipt"],''',
  '''                    rsk_tx_receipt=self.__dict__.setdefault("_rc_memo", {}).setdefault(
                        msg["tx"], request["auth"]["receipt"]),''')
M("C14", "memo-unsigned-tx-stale-key", "ledger/protocol.py",
  '''                unsigned_btc_tx = get_unsigned_tx(msg["tx"])
''',
  '''                if msg["tx"] != self.__dict__.get("_lt"):
                    self._lt = msg["tx"]
                    self._lu = get_unsigned_tx(msg["tx"])
                unsigned_btc_tx = self._lu
''')
M("C02", "reconnect-before-second-stage-validation", "ledger/protocol.py",
  '''            # Shorthand
            msg = request["message"]
''',
  '''            # Shorthand
            msg = request["message"]
            try:
                self.ensure_connection()
            except HSM2DongleCommError:
                return (self.ERROR_CODE_DEVICE,)
''')
M("C05", "rlp-list-boundary-f7", "ledger/block_utils.py",
  '''    if b >= 0xC0 and b <= 0xF7:''', '''    if b >= 0xC0 and b < 0xF7:''')
M("C07", "frozen-now-at-import", "admin/certificate_v2.py",
  '''            now = datetime.now(UTC)''',
  '''            now = HSMCertificateV2ElementX509.__dict__.get("_T0") or datetime.now(UTC)
            HSMCertificateV2ElementX509._T0 = now''')
M("C03", "revert-fix-recursion-while-logging", "comm/protocol.py",
  '''        try:
            self.logger.info("In %s", request)
        except RecursionError:
            # A document nested just under the JSON parser's limit is still
            # too deep to be formatted for the log. Same treatment as one
            # that the parser itself turns down.
            return self.format_error()
''',
  '''        self.logger.info("In %s", request)
''')
M("C17", "revert-fix-canonical-hash", "admin/signer_authorization.py",
  "        self._hash = bytes.fromhex(hash).hex()\n", "        self._hash = hash.lower()\n")
M("C18", "cli-anypin-default-true", "adm_ledger.py",
  '''        help="Allow any pin (only valid for 'changepin' operation).",
        default=False,''',
  '''        help="Allow any pin (only valid for 'changepin' operation).",
        default=True,''')
M("C18", "cli-sgx-dispatch-changepin-to-unlock", "adm_sgx.py",
  '''        "changepin": do_changepin,''', '''        "changepin": do_unlock,''')
M("C03", "revert-fix-rlp-encode-recursion", "ledger/block_utils.py",
  '''    try:
        block_without_mm_fields_rlp = rlp.encode(block_without_mm_fields)
    except Exception as e:
        # E.g., fields nested too deeply to encode (but not to decode)
        raise ValueError(e)
''',
  '''    block_without_mm_fields_rlp = rlp.encode(block_without_mm_fields)
''')
