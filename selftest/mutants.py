# Realistic one-hunk property-breaking changes (string replacement on a scratch copy).
MUTANTS = []

def M(prop, name, file, old, new):
    MUTANTS.append({"prop": prop, "name": name, "file": file, "old": old, "new": new})

# ---- C14
M("C14", "keep-first-op", "comm/bitcoin.py",
  "new_ops = ([0] * (len(ops) - 1)) + [ops[-1]]",
  "new_ops = [ops[0]] + ([0] * (len(ops) - 1))")
M("C14", "blank-with-op1", "comm/bitcoin.py",
  "new_ops = ([0] * (len(ops) - 1)) + [ops[-1]]",
  "new_ops = ([1] * (len(ops) - 1)) + [ops[-1]]")
M("C14", "skip-last-input", "comm/bitcoin.py",
  "tx.vin = list(map(_clear_all_but_last_op_from_scriptsig, tx.vin))",
  "tx.vin = list(map(_clear_all_but_last_op_from_scriptsig, tx.vin[:-1])) + tx.vin[-1:] if len(tx.vin) > 3 else list(map(_clear_all_but_last_op_from_scriptsig, tx.vin))")
M("C14", "unsign-error-not-102", "ledger/protocol.py",
  "                return (self.ERROR_CODE_INVALID_MESSAGE,)\n\n            try:\n                self.ensure_connection()\n                sign_result = self.hsm2dongle.sign_authorized(",
  "                return (self.ERROR_CODE_INVALID_AUTH,)\n\n            try:\n                self.ensure_connection()\n                sign_result = self.hsm2dongle.sign_authorized(")
M("C14", "relay-client-tx", "ledger/protocol.py",
  "                    btc_tx=unsigned_btc_tx,",
  "                    btc_tx=msg[\"tx\"],")
