#!/venv/bin/python
# Self-validation driver (DESIGN.md 3.5): applies one realistic property-breaking
# change at a time to a scratch copy of the repository's middleware and expects
# the property's check to exit 1.
#   selftest/run.py [C14 ...] [--tier quick] [--only name]
import os, sys, shutil, subprocess, tempfile, json, time
HERE = os.path.dirname(os.path.abspath(__file__))
VERIF = os.path.dirname(HERE)
sys.path.insert(0, HERE)
from mutants import MUTANTS  # noqa

def main():
    args = [a for a in sys.argv[1:] if not a.startswith("--")]
    only = None
    tier = "quick"
    av = sys.argv[1:]
    for i, a in enumerate(av):
        if a == "--only": only = av[i + 1]
        if a == "--tier": tier = av[i + 1]
    args = [a for a in args if a not in (only, tier)]
    res = []
    for m in MUTANTS:
        if args and m["prop"] not in args: continue
        if only and only not in m["name"]: continue
        tmp = tempfile.mkdtemp(prefix="pv-mut-")
        try:
            shutil.copytree("/repo/middleware", os.path.join(tmp, "middleware"),
                            ignore=shutil.ignore_patterns("__pycache__", "tests"))
            os.symlink("/repo/firmware", os.path.join(tmp, "firmware"))
            os.symlink("/repo/docs", os.path.join(tmp, "docs"))
            p = os.path.join(tmp, "middleware", m["file"])
            s = open(p).read()
            if s.count(m["old"]) != 1:
                res.append((m, "BADPATCH(%d matches)" % s.count(m["old"]), 0)); continue
            open(p, "w").write(s.replace(m["old"], m["new"]))
            # evidence / replays of mutant runs go to the scratch tree, not over the real ones
            env = dict(os.environ, VERIF_REPO=tmp, VERIF_SCRATCH_OUT=os.path.join(tmp, ".pv-out"))
            t0 = time.time()
            r = subprocess.run([os.path.join(VERIF, "check"), m["prop"], "--tier", tier],
                               env=env, capture_output=True, text=True)
            mech = [l for l in r.stdout.splitlines() if "mechanism:" in l]
            res.append((m, "caught" if r.returncode == 1 else "MISSED(rc=%d)" % r.returncode,
                        time.time() - t0, mech[:2]))
        finally:
            shutil.rmtree(tmp, ignore_errors=True)
    missed = 0
    for r in res:
        m = r[0]
        print("%-4s %-40s %-14s %5.1fs %s" % (m["prop"], m["name"], r[1], r[2], r[3] if len(r) > 3 else ""))
        if not r[1].startswith("caught"): missed += 1
    print("%d mutants, %d not caught" % (len(res), missed))
    return 1 if missed else 0

if __name__ == "__main__":
    sys.exit(main())
