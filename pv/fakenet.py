# The only network access of the middleware is admin.attestation_utils.get_root_of_trust,
# which fetches a root-of-trust PEM with requests.get(url) when the operator's -r value
# is not a file (and the built-in Intel URL when -r is absent).  The sandbox has no
# network; this stands in for the web: pages are registered per URL, every fetch is
# recorded, unknown URLs fail the way an unreachable host does.
import requests


class Page:
    def __init__(self, content, status=200):
        self.content = content if isinstance(content, bytes) else content.encode()
        self.status_code = status
        self.text = self.content.decode(errors="replace")
        self.ok = status == 200


class FakeWeb:
    def __init__(self):
        self.pages = {}
        self.fetches = []

    def serve(self, url, content, status=200):
        self.pages[url] = Page(content, status)

    def get(self, url, *a, **k):
        self.fetches.append(url)
        if url not in self.pages:
            raise requests.exceptions.ConnectionError("no route to host (simulated): %s" % url)
        return self.pages[url]

    def __enter__(self):
        self._orig = requests.get
        requests.get = self.get
        return self

    def __exit__(self, *a):
        requests.get = self._orig
        return False
