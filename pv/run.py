# Check driver: shards a property's workload over subprocesses, merges monitor
# results, classifies violations against known_findings.json, writes evidence.
#
#   python -m pv.run C07 --tier quick
#   python -m pv.run C07 --replay replays/C07-0.json
#   python -m pv.run --shard C07 --spec '{"..."}' --out file     (internal)
#
# Exit codes: 0 held on what was observed; 1 violation (VIOLATION line printed);
# 2 inconclusive (INCONCLUSIVE line printed, never a VIOLATION line).

import os
import sys
import json
import time
import argparse
import importlib
import subprocess
import tempfile
import traceback

from . import env

VERIF = env.VERIF
MAX_PAR = int(os.environ.get("VERIF_JOBS", "16"))


def load_prop(pid):
    return importlib.import_module("pv.props.%s" % pid.lower())


def jsonable(o):
    if isinstance(o, (bytes, bytearray)):
        return bytes(o).hex()
    if isinstance(o, (set, frozenset)):
        return sorted(jsonable(x) for x in o)
    if isinstance(o, dict):
        return {str(k): jsonable(v) for k, v in o.items()}
    if isinstance(o, (list, tuple)):
        return [jsonable(x) for x in o]
    if isinstance(o, (str, int, float, bool)) or o is None:
        if isinstance(o, int) and not isinstance(o, bool) and abs(o) > 2**63:
            return str(o)
        return o
    return repr(o)


class Acc:
    """What a shard's monitors report."""

    def __init__(self):
        self.evaluations = 0
        self.distinct = set()
        self.distinct_disjoint = 0
        self.samples = []
        self.counters = {}
        self.violations = []
        self.notes = []

    def count(self, name, n=1):
        self.counters[name] = self.counters.get(name, 0) + n

    def sample(self, s, cap=4):
        if len(self.samples) < cap:
            self.samples.append(jsonable(s))

    def violation(self, mech, detail, case=None):
        # keep the first few witnesses per mechanism, count the rest
        self.count("violations_seen")
        same = [v for v in self.violations if v["mech"] == mech]
        if len(same) < 3:
            self.violations.append({"mech": mech, "detail": jsonable(detail),
                                    "case": jsonable(case)})
        else:
            same[0]["more"] = same[0].get("more", 0) + 1

    def to_json(self):
        return {"evaluations": self.evaluations,
                "distinct": sorted(self.distinct),
                "distinct_disjoint": self.distinct_disjoint,
                "samples": self.samples, "counters": self.counters,
                "violations": self.violations, "notes": self.notes}


def run_shard_inproc(pid, spec):
    env.setup()
    mod = load_prop(pid)
    acc = Acc()
    t0 = time.time()
    err = None
    if not __debug__:
        acc.count("shards_run_under_python_O")
    if time.timezone != 0 or time.localtime().tm_gmtoff != 0:
        acc.count("shards_run_outside_UTC")
    try:
        mod.run_shard(spec, acc)
    except Exception:
        # what the monitors saw before the harness itself broke still counts: a
        # violation stays a violation, otherwise the run is inconclusive
        err = traceback.format_exc()[-3000:]
    r = acc.to_json()
    r["wall_s"] = time.time() - t0
    r["error"] = err
    return r


def _spawn(pid, spec, outpath):
    envv = dict(os.environ)
    envv["PYTHONHASHSEED"] = "0"
    envv["PYTHONDONTWRITEBYTECODE"] = "1"
    envv.pop("PYTHONPATH", None)
    if spec.get("tz"):
        envv["TZ"] = spec["tz"]     # the shard's process runs in that time zone
    cmd = [sys.executable]
    if spec.get("python_O"):
        # some shards run the code under test with assertions stripped (python -O), as
        # an operator may run it: a check that lives in an `assert` must not be the only one
        cmd.append("-O")
    cmd += ["-m", "pv.run", "--shard", pid, "--spec", json.dumps(spec), "--out", outpath]
    return subprocess.Popen(cmd, cwd=VERIF, env=envv, stdout=subprocess.PIPE,
                            stderr=subprocess.STDOUT)


def run_shards(pid, specs, watchdog_s):
    """returns (results, problems)"""
    results = []
    problems = []
    if len(specs) == 1 and os.environ.get("VERIF_INPROC"):
        return [run_shard_inproc(pid, specs[0])], []
    tmpdir = tempfile.mkdtemp(prefix="pv-%s-" % pid)
    pending = list(enumerate(specs))
    running = []
    deadline = time.time() + watchdog_s
    try:
        while pending or running:
            while pending and len(running) < MAX_PAR:
                i, spec = pending.pop(0)
                out = os.path.join(tmpdir, "shard-%d.json" % i)
                running.append((i, spec, out, _spawn(pid, spec, out), time.time()))
            time.sleep(0.02)
            still = []
            for (i, spec, out, p, t0) in running:
                rc = p.poll()
                if rc is None:
                    if time.time() > deadline:
                        p.kill()
                        problems.append("watchdog: shard %d killed after %.0fs" %
                                        (i, time.time() - t0))
                    else:
                        still.append((i, spec, out, p, t0))
                    continue
                txt = p.stdout.read().decode(errors="replace")
                if rc != 0 or not os.path.exists(out):
                    problems.append("shard %d exited %s: %s" % (i, rc, txt[-2000:]))
                    continue
                with open(out) as f:
                    results.append(json.load(f))
            running = still
    finally:
        for (_, _, _, p, _) in running:
            try:
                p.kill()
            except Exception:
                pass
        for fn in os.listdir(tmpdir):
            os.unlink(os.path.join(tmpdir, fn))
        os.rmdir(tmpdir)
    return results, problems


def load_known(pid):
    path = os.path.join(VERIF, "known_findings.json")
    if not os.path.exists(path):
        return [], []
    with open(path) as f:
        doc = json.load(f)
    known = [e for e in doc.get("findings", [])
             if e.get("property") == pid and e.get("status") == "known"]
    fixed = [e for e in doc.get("findings", [])
             if e.get("property") == pid and e.get("status") == "fixed"]
    return known, fixed


def main(argv=None):
    ap = argparse.ArgumentParser()
    ap.add_argument("pid", nargs="?")
    ap.add_argument("--tier", default=os.environ.get("VERIF_TIER", "quick"))
    ap.add_argument("--seed", type=int, default=None)
    ap.add_argument("--replay")
    ap.add_argument("--shard")
    ap.add_argument("--spec")
    ap.add_argument("--out")
    a = ap.parse_args(argv)

    if a.shard:
        try:
            r = run_shard_inproc(a.shard, json.loads(a.spec))
        except BaseException:
            traceback.print_exc()
            return 3
        with open(a.out, "w") as f:
            json.dump(r, f)
        return 0

    pid = a.pid.upper()
    seed = a.seed if a.seed is not None else int(os.environ.get("VERIF_SEED", "1"))
    tier = a.tier
    env.setup()
    mod = load_prop(pid)
    t0 = time.time()

    if a.replay:
        with open(a.replay) as f:
            rep = json.load(f)
        acc = Acc()
        mod.replay(rep["case"], acc)
        for v in acc.violations:
            print("REPLAY-VIOLATION property=%s mech=%s detail=%s" %
                  (pid, v["mech"], json.dumps(v["detail"])[:2000]))
        print("replay: %d violation(s) reproduced" % len(acc.violations))
        return 1 if acc.violations else 0

    specs = mod.shards(tier, seed)
    watchdog = getattr(mod, "WATCHDOG_S", {}).get(tier, 900 if tier == "quick" else 7200)
    results, problems = run_shards(pid, specs, watchdog)

    # ---- merge
    evaluations = sum(r["evaluations"] for r in results)
    distinct = set()
    disjoint = 0
    counters = {}
    samples = []
    violations = []
    notes = []
    for r in results:
        distinct.update(r["distinct"])
        disjoint += r["distinct_disjoint"]
        for k, v in r["counters"].items():
            if k.startswith("max_"):
                counters[k] = max(counters.get(k, 0), v)
            else:
                counters[k] = counters.get(k, 0) + v
        for s in r["samples"]:
            if len(samples) < 6:
                samples.append(s)
        violations.extend(r["violations"])
        notes.extend(r.get("notes", []))
        if r.get("error"):
            problems.append("a shard's harness raised: %s" % r["error"][-600:])
    n_distinct = len(distinct) + disjoint

    # ---- classify
    known, fixed = load_known(pid)
    known_by_mech = {e["mechanism"]: e for e in known}
    fresh = []
    known_hits = {}
    for v in violations:
        if v["mech"] in known_by_mech:
            known_hits[v["mech"]] = known_hits.get(v["mech"], 0) + 1 + v.get("more", 0)
        else:
            fresh.append(v)

    # ---- floors: deciding counters that must have been reached
    floors = getattr(mod, "FLOORS", {}).get(tier, {})
    inconclusive = list(problems)
    for name, floor in floors.items():
        if name == "evaluations":
            have = evaluations
        elif name == "distinct":
            have = n_distinct
        else:
            have = counters.get(name, 0)
        if have < floor:
            inconclusive.append("counter %s=%d below floor %d" % (name, have, floor))
    if len(results) != len(specs):
        inconclusive.append("%d of %d shards produced results" % (len(results), len(specs)))

    wall = time.time() - t0
    # VERIF_SCRATCH_OUT: runs against scratch copies of the repository (seeded changes,
    # mutants) write their evidence and replay files there, not over those of /repo
    OUT = os.environ.get("VERIF_SCRATCH_OUT") or VERIF
    os.makedirs(os.path.join(OUT, "evidence"), exist_ok=True)
    os.makedirs(os.path.join(OUT, "replays"), exist_ok=True)

    rc = 0
    lines = []
    for mech, n in sorted(known_hits.items()):
        e = known_by_mech[mech]
        lines.append("KNOWN-FINDING: property=%s %s (%s; hit %d time(s) in this run)" %
                     (pid, mech, e.get("description", ""), n))
    seen = set()
    k = 0
    for v in fresh:
        if v["mech"] in seen:
            continue
        seen.add(v["mech"])
        path = os.path.join("replays", "%s-%d.json" % (pid, k))
        k += 1
        with open(os.path.join(OUT, path), "w") as f:
            json.dump({"property": pid, "tier": tier, "seed": seed, "mech": v["mech"],
                       "detail": v["detail"], "case": v["case"]}, f, indent=1)
        lines.append("VIOLATION property=%s replay=%s" % (pid, path))
        lines.append("  mechanism: %s" % v["mech"])
        lines.append("  detail: %s" % json.dumps(v["detail"])[:1500])
        rc = 1
    if rc == 0 and inconclusive:
        rc = 2
        for m in inconclusive:
            lines.append("INCONCLUSIVE property=%s %s" % (pid, m))

    cov = {
        "evaluations": evaluations,
        "distinct_nontrivial": n_distinct,
        "rule": mod.RULE,
        "samples": samples if samples else ["(none)"],
        "exhaustive": bool(getattr(mod, "EXHAUSTIVE", {}).get(tier, False)),
        "monitor_counters": counters,
        "shards": len(specs),
        "known_findings_hit": known_hits,
        "fixed_findings_watched": [e["mechanism"] for e in fixed],
        "fresh_violation_mechanisms": sorted(seen),
        "inconclusive": inconclusive,
        "verdict": {0: "held on what was observed", 1: "violated", 2: "inconclusive"}[rc],
        "notes": notes[:20],
    }
    ev = {
        "property_id": pid, "tier": tier, "seed": seed, "level": mod.LEVEL,
        "coverage": cov, "assumptions": list(mod.ASSUMPTIONS), "wall_s": round(wall, 3),
        "violations": len(fresh),
    }
    with open(os.path.join(OUT, "evidence", "%s.json" % pid), "w") as f:
        json.dump(ev, f, indent=1, sort_keys=True)

    for ln in lines:
        print(ln)
    print("%s %s seed=%d: %s; evaluations=%d distinct=%d wall=%.1fs counters=%s" % (
        pid, tier, seed, cov["verdict"], evaluations, n_distinct, wall,
        json.dumps(counters, sort_keys=True)))
    return rc


if __name__ == "__main__":
    sys.exit(main())
