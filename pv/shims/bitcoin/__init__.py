# Stand-in for python-bitcoinlib's top-level package (see DESIGN.md 2.1).
# Only what middleware/comm/bitcoin.py touches is provided, in bitcoin.core.
