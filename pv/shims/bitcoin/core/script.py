# Subset of python-bitcoinlib 0.12.2 bitcoin/core/script.py, re-implemented
# (DESIGN.md 2.1).  Semantics kept: CScript coercion rules, raw_iter errors,
# __iter__ decoding, SignatureHash for SIGHASH_ALL (legacy + witness v0).

import struct
import hashlib

OP_0 = 0x00
OP_PUSHDATA1 = 0x4c
OP_PUSHDATA2 = 0x4d
OP_PUSHDATA4 = 0x4e
OP_1NEGATE = 0x4f
OP_1 = 0x51
OP_16 = 0x60
OP_CODESEPARATOR = 0xab

SIGHASH_ALL = 1
SIGHASH_NONE = 2
SIGHASH_SINGLE = 3
SIGHASH_ANYONECANPAY = 0x80

SIGVERSION_BASE = 0
SIGVERSION_WITNESS_V0 = 1


class CScriptInvalidError(Exception):
    pass


class CScriptTruncatedPushDataError(CScriptInvalidError):
    def __init__(self, msg, data):
        self.data = data
        super().__init__(msg)


def _bn2vch(v):
    # bitcoin.core._bignum.bn2vch: minimal little-endian sign-magnitude
    if v == 0:
        return b""
    neg = v < 0
    a = abs(v)
    out = bytearray()
    while a:
        out.append(a & 0xff)
        a >>= 8
    if out[-1] & 0x80:
        out.append(0x80 if neg else 0)
    elif neg:
        out[-1] |= 0x80
    return bytes(out)


class CScriptOp(int):
    __slots__ = ()

    @staticmethod
    def encode_op_pushdata(d):
        if len(d) < 0x4c:
            return bytes([len(d)]) + d
        elif len(d) <= 0xff:
            return b"\x4c" + bytes([len(d)]) + d
        elif len(d) <= 0xffff:
            return b"\x4d" + struct.pack("<H", len(d)) + d
        elif len(d) <= 0xffffffff:
            return b"\x4e" + struct.pack("<I", len(d)) + d
        else:
            raise ValueError("Data too long to encode in a PUSHDATA op")

    @staticmethod
    def encode_op_n(n):
        if not (0 <= n <= 16):
            raise ValueError("Integer must be in range 0 <= n <= 16, got %d" % n)
        if n == 0:
            return OP_0
        return OP_1 + n - 1

    def decode_op_n(self):
        if self == OP_0:
            return 0
        if not (self == OP_0 or OP_1 <= self <= OP_16):
            raise ValueError("op %r is not an OP_N" % self)
        return int(self - OP_1 + 1)

    def is_small_int(self):
        return 0x51 <= self <= 0x60 or self == 0

    def __repr__(self):
        return "CScriptOp(0x%x)" % self


class CScript(bytes):
    @classmethod
    def _coerce(cls, other):
        if isinstance(other, CScriptOp):
            other = bytes([other])
        elif isinstance(other, int):
            if 0 <= other <= 16:
                other = bytes([CScriptOp.encode_op_n(other)])
            elif other == -1:
                other = bytes([OP_1NEGATE])
            else:
                other = CScriptOp.encode_op_pushdata(_bn2vch(other))
        elif isinstance(other, (bytes, bytearray)):
            other = CScriptOp.encode_op_pushdata(bytes(other))
        return other

    def __new__(cls, value=b""):
        if isinstance(value, (bytes, bytearray)):
            return super().__new__(cls, bytes(value))
        return super().__new__(cls, b"".join(cls._coerce(i) for i in value))

    def __add__(self, other):
        raise NotImplementedError

    def raw_iter(self):
        i = 0
        n = len(self)
        bs = bytes(self)
        while i < n:
            sop_idx = i
            opcode = bs[i]
            i += 1
            if opcode > OP_PUSHDATA4:
                yield (opcode, None, sop_idx)
                continue
            if opcode < OP_PUSHDATA1:
                ptype = "PUSHDATA(%d)" % opcode
                datasize = opcode
            elif opcode == OP_PUSHDATA1:
                ptype = "PUSHDATA1"
                if i >= n:
                    raise CScriptInvalidError("PUSHDATA1: missing data length")
                datasize = bs[i]
                i += 1
            elif opcode == OP_PUSHDATA2:
                ptype = "PUSHDATA2"
                if i + 1 >= n:
                    raise CScriptInvalidError("PUSHDATA2: missing data length")
                datasize = bs[i] + (bs[i + 1] << 8)
                i += 2
            else:
                ptype = "PUSHDATA4"
                if i + 3 >= n:
                    raise CScriptInvalidError("PUSHDATA4: missing data length")
                datasize = bs[i] + (bs[i + 1] << 8) + (bs[i + 2] << 16) + \
                    (bs[i + 3] << 24)
                i += 4
            data = bs[i:i + datasize]
            if len(data) < datasize:
                raise CScriptTruncatedPushDataError("%s: truncated data" % ptype, data)
            i += datasize
            yield (opcode, data, sop_idx)

    def __iter__(self):
        for (opcode, data, sop_idx) in self.raw_iter():
            if opcode == 0:
                yield 0
            elif data is not None:
                yield data
            else:
                opcode = CScriptOp(opcode)
                if opcode.is_small_int():
                    yield opcode.decode_op_n()
                else:
                    yield opcode

    def __repr__(self):
        return "CScript(%s)" % bytes(self).hex()


def _hash256(b):
    return hashlib.sha256(hashlib.sha256(b).digest()).digest()


def FindAndDelete(script, sig):
    r = b""
    last_sop_idx = sop_idx = 0
    skip = True
    for (opcode, data, sop_idx) in script.raw_iter():
        if not skip:
            r += bytes(script)[last_sop_idx:sop_idx]
        last_sop_idx = sop_idx
        if bytes(script)[sop_idx:sop_idx + len(sig)] == bytes(sig):
            skip = True
        else:
            skip = False
    if not skip:
        r += bytes(script)[last_sop_idx:]
    return CScript(r)


def SignatureHash(script, txTo, inIdx, hashtype, amount=None,
                  sigversion=SIGVERSION_BASE):
    from . import CTransaction, CMutableTransaction, CTxIn, _ser_varbytes
    if inIdx >= len(txTo.vin):
        raise ValueError("inIdx %d out of range (%d)" % (inIdx, len(txTo.vin)))
    if hashtype != SIGHASH_ALL:
        raise NotImplementedError("shim: only SIGHASH_ALL")

    if sigversion == SIGVERSION_WITNESS_V0:
        hp = b"".join(i.prevout.serialize() for i in txTo.vin)
        hashPrevouts = _hash256(hp)
        hs = b"".join(struct.pack("<I", i.nSequence) for i in txTo.vin)
        hashSequence = _hash256(hs)
        ho = b"".join(o.serialize() for o in txTo.vout)
        hashOutputs = _hash256(ho)
        f = b""
        f += struct.pack("<i", txTo.nVersion)
        f += hashPrevouts
        f += hashSequence
        f += txTo.vin[inIdx].prevout.serialize()
        f += _ser_varbytes(bytes(script))
        f += struct.pack("<q", amount)
        f += struct.pack("<I", txTo.vin[inIdx].nSequence)
        f += hashOutputs
        f += struct.pack("<i", txTo.nLockTime)
        f += struct.pack("<i", hashtype)
        return _hash256(f)

    txtmp = CMutableTransaction.from_tx(txTo)
    for txin in txtmp.vin:
        txin.scriptSig = CScript(b"")
    txtmp.vin[inIdx].scriptSig = FindAndDelete(script, CScript([CScriptOp(OP_CODESEPARATOR)]))
    txtmp.wit = None
    s = txtmp.serialize(include_witness=False)
    s += struct.pack("<i", hashtype)
    return _hash256(s)
