# Subset of python-bitcoinlib 0.12.2 bitcoin/core/__init__.py + serialize.py,
# re-implemented for the checks only (DESIGN.md 2.1).  Never on sys.path for the
# repository's own test-suite.

import struct
import hashlib
from io import BytesIO

from . import script
from .script import CScript

MAX_SIZE = 0x02000000


class SerializationError(Exception):
    pass


class SerializationTruncationError(SerializationError):
    pass


class DeserializationExtraDataError(SerializationError):
    def __init__(self, msg, obj, padding):
        super().__init__(msg)
        self.obj = obj
        self.padding = padding


def Hash(msg):
    return hashlib.sha256(hashlib.sha256(msg).digest()).digest()


def ser_read(f, n):
    if n > MAX_SIZE:
        raise SerializationError("Asked to read 0x%x bytes; MAX_SIZE exceeded" % n)
    r = f.read(n)
    if len(r) < n:
        raise SerializationTruncationError(
            "Asked to read %i bytes, but only got %i" % (n, len(r)))
    return r


class VarIntSerializer:
    @classmethod
    def stream_serialize(cls, i, f):
        if i < 0:
            raise ValueError("varint must be non-negative integer")
        elif i < 0xfd:
            f.write(bytes([i]))
        elif i <= 0xffff:
            f.write(b"\xfd")
            f.write(struct.pack("<H", i))
        elif i <= 0xffffffff:
            f.write(b"\xfe")
            f.write(struct.pack("<I", i))
        else:
            f.write(b"\xff")
            f.write(struct.pack("<Q", i))

    @classmethod
    def serialize(cls, i):
        f = BytesIO()
        cls.stream_serialize(i, f)
        return f.getvalue()

    @classmethod
    def stream_deserialize(cls, f):
        r = ser_read(f, 1)[0]
        if r < 0xfd:
            return r
        elif r == 0xfd:
            return struct.unpack("<H", ser_read(f, 2))[0]
        elif r == 0xfe:
            return struct.unpack("<I", ser_read(f, 4))[0]
        else:
            return struct.unpack("<Q", ser_read(f, 8))[0]

    @classmethod
    def deserialize(cls, buf):
        return cls.stream_deserialize(BytesIO(buf))


def _ser_varbytes(b):
    return VarIntSerializer.serialize(len(b)) + b


def _deser_varbytes(f):
    n = VarIntSerializer.stream_deserialize(f)
    return ser_read(f, n)


class _Serializable:
    def serialize(self, **kw):
        f = BytesIO()
        self.stream_serialize(f, **kw)
        return f.getvalue()

    @classmethod
    def deserialize(cls, buf, allow_padding=False, **kw):
        fd = BytesIO(buf)
        r = cls.stream_deserialize(fd, **kw)
        if not allow_padding:
            padding = fd.read()
            if len(padding) != 0:
                raise DeserializationExtraDataError(
                    "Not all bytes consumed during deserialization", r, padding)
        return r

    def GetHash(self):
        return Hash(self.serialize())


class COutPoint(_Serializable):
    def __init__(self, hash=b"\x00" * 32, n=0xffffffff):
        if len(hash) != 32:
            raise ValueError("COutPoint: hash must be exactly 32 bytes")
        if not (0 <= n <= 0xffffffff):
            raise ValueError("COutPoint: n out of range")
        self.hash = hash
        self.n = n

    @classmethod
    def stream_deserialize(cls, f):
        h = ser_read(f, 32)
        n = struct.unpack("<I", ser_read(f, 4))[0]
        return cls(h, n)

    def stream_serialize(self, f):
        f.write(self.hash)
        f.write(struct.pack("<I", self.n))


class CTxIn(_Serializable):
    def __init__(self, prevout=None, scriptSig=CScript(), nSequence=0xffffffff):
        if not (0 <= nSequence <= 0xffffffff):
            raise ValueError("CTxIn: nSequence out of range")
        self.nSequence = nSequence
        self.prevout = prevout if prevout is not None else COutPoint()
        self.scriptSig = scriptSig

    @classmethod
    def stream_deserialize(cls, f):
        prevout = COutPoint.stream_deserialize(f)
        scriptSig = CScript(_deser_varbytes(f))
        nSequence = struct.unpack("<I", ser_read(f, 4))[0]
        return cls(prevout, scriptSig, nSequence)

    def stream_serialize(self, f):
        self.prevout.stream_serialize(f)
        f.write(_ser_varbytes(bytes(self.scriptSig)))
        f.write(struct.pack("<I", self.nSequence))


class CMutableTxIn(CTxIn):
    @classmethod
    def from_txin(cls, txin):
        prevout = COutPoint(txin.prevout.hash, txin.prevout.n)
        return cls(prevout, txin.scriptSig, txin.nSequence)


class CTxOut(_Serializable):
    def __init__(self, nValue=-1, scriptPubKey=CScript()):
        self.nValue = int(nValue)
        self.scriptPubKey = scriptPubKey

    @classmethod
    def stream_deserialize(cls, f):
        nValue = struct.unpack("<q", ser_read(f, 8))[0]
        spk = CScript(_deser_varbytes(f))
        return cls(nValue, spk)

    def stream_serialize(self, f):
        f.write(struct.pack("<q", self.nValue))
        f.write(_ser_varbytes(bytes(self.scriptPubKey)))


class CScriptWitness:
    def __init__(self, stack=()):
        self.stack = tuple(stack)

    def is_null(self):
        return len(self.stack) == 0

    @classmethod
    def stream_deserialize(cls, f):
        n = VarIntSerializer.stream_deserialize(f)
        return cls(tuple(_deser_varbytes(f) for _ in range(n)))

    def stream_serialize(self, f):
        VarIntSerializer.stream_serialize(len(self.stack), f)
        for s in self.stack:
            f.write(_ser_varbytes(s))


class CTxWitness:
    def __init__(self, vtxinwit=()):
        self.vtxinwit = tuple(vtxinwit)

    def is_null(self):
        return all(w.is_null() for w in self.vtxinwit)

    def stream_deserialize(self, f):
        return CTxWitness(tuple(CScriptWitness.stream_deserialize(f)
                                for _ in range(len(self.vtxinwit))))

    def stream_serialize(self, f):
        for w in self.vtxinwit:
            w.stream_serialize(f)


def _deser_vector(c, f):
    n = VarIntSerializer.stream_deserialize(f)
    r = []
    for _ in range(n):
        r.append(c.stream_deserialize(f))
    return r


def _ser_vector(objs, f):
    VarIntSerializer.stream_serialize(len(objs), f)
    for o in objs:
        o.stream_serialize(f)


class CTransaction(_Serializable):
    _txin = CTxIn

    def __init__(self, vin=(), vout=(), nLockTime=0, nVersion=1, witness=None):
        if not (0 <= nLockTime <= 0xffffffff):
            raise ValueError("CTransaction: nLockTime must be in range 0x0 to 0xffffffff")
        self.nLockTime = nLockTime
        self.nVersion = nVersion
        self.vin = list(vin)
        self.vout = list(vout)
        self.wit = witness if witness is not None else CTxWitness()

    @classmethod
    def stream_deserialize(cls, f):
        nVersion = struct.unpack("<i", ser_read(f, 4))[0]
        pos = f.tell()
        markerbyte = ser_read(f, 1)[0]
        flagbyte = ser_read(f, 1)[0]
        if markerbyte == 0 and flagbyte == 1:
            vin = _deser_vector(cls._txin, f)
            vout = _deser_vector(CTxOut, f)
            wit = CTxWitness(tuple(0 for _ in range(len(vin))))
            wit = wit.stream_deserialize(f)
            nLockTime = struct.unpack("<I", ser_read(f, 4))[0]
            return cls(vin, vout, nLockTime, nVersion, wit)
        else:
            f.seek(pos)
            vin = _deser_vector(cls._txin, f)
            vout = _deser_vector(CTxOut, f)
            nLockTime = struct.unpack("<I", ser_read(f, 4))[0]
            return cls(vin, vout, nLockTime, nVersion)

    def stream_serialize(self, f, include_witness=True):
        f.write(struct.pack("<i", self.nVersion))
        if include_witness and self.wit is not None and not self.wit.is_null():
            assert len(self.wit.vtxinwit) <= len(self.vin)
            f.write(b"\x00")
            f.write(b"\x01")
            _ser_vector(self.vin, f)
            _ser_vector(self.vout, f)
            self.wit.stream_serialize(f)
        else:
            _ser_vector(self.vin, f)
            _ser_vector(self.vout, f)
        f.write(struct.pack("<I", self.nLockTime))

    def GetTxid(self):
        return Hash(self.serialize(include_witness=False))


class CMutableTransaction(CTransaction):
    _txin = CMutableTxIn

    @classmethod
    def from_tx(cls, tx):
        vin = [CMutableTxIn.from_txin(i) for i in tx.vin]
        vout = [CTxOut(o.nValue, o.scriptPubKey) for o in tx.vout]
        return cls(vin, vout, tx.nLockTime, tx.nVersion, tx.wit)


class CBlockHeader(_Serializable):
    def __init__(self, nVersion=2, hashPrevBlock=b"\x00" * 32,
                 hashMerkleRoot=b"\x00" * 32, nTime=0, nBits=0, nNonce=0):
        self.nVersion = nVersion
        self.hashPrevBlock = hashPrevBlock
        self.hashMerkleRoot = hashMerkleRoot
        self.nTime = nTime
        self.nBits = nBits
        self.nNonce = nNonce

    @classmethod
    def stream_deserialize(cls, f):
        nVersion = struct.unpack("<i", ser_read(f, 4))[0]
        hashPrevBlock = ser_read(f, 32)
        hashMerkleRoot = ser_read(f, 32)
        nTime = struct.unpack("<I", ser_read(f, 4))[0]
        nBits = struct.unpack("<I", ser_read(f, 4))[0]
        nNonce = struct.unpack("<I", ser_read(f, 4))[0]
        return cls(nVersion, hashPrevBlock, hashMerkleRoot, nTime, nBits, nNonce)

    def stream_serialize(self, f):
        f.write(struct.pack("<i", self.nVersion))
        f.write(self.hashPrevBlock)
        f.write(self.hashMerkleRoot)
        f.write(struct.pack("<I", self.nTime))
        f.write(struct.pack("<I", self.nBits))
        f.write(struct.pack("<I", self.nNonce))
