# Independent verifier for version-2 (SGX) attestation certificates (DESIGN.md C07).
# ECDSA checks are done crosswise: where the code uses `ecdsa` the oracle uses
# `cryptography` (OpenSSL) and vice versa; struct offsets are the OpenEnclave layout
# written out numerically.
import base64
import hashlib
import datetime

import ecdsa
from cryptography import x509
from cryptography.hazmat.primitives import hashes
from cryptography.hazmat.primitives.asymmetric import ec
from cryptography.hazmat.primitives.asymmetric.utils import Prehashed
from cryptography.hazmat.primitives.serialization import Encoding, PublicFormat
from cryptography.exceptions import InvalidSignature

RB_LEN = 384
RB_REPORT_DATA = 320
Q_LEN = 432
Q_REPORT_DATA = 48 + 320


def load_cert_b64(b64):
    der = base64.b64decode(b64)
    return x509.load_der_x509_certificate(der)


def strict_der_sig(sig, order_len=32):
    try:
        if len(sig) < 8 or sig[0] != 0x30 or sig[1] != len(sig) - 2 or sig[1] > 0x7f:
            return False
        i = 2
        for _ in range(2):
            if sig[i] != 2:
                return False
            ln = sig[i + 1]
            v = sig[i + 2:i + 2 + ln]
            if ln == 0 or len(v) != ln or (v[0] & 0x80):
                return False
            if ln > 1 and v[0] == 0 and not (v[1] & 0x80):
                return False
            i += 2 + ln
        return i == len(sig)
    except IndexError:
        return False


def x509_valid(subject, issuer_cert, now):
    """validity window + issuer signature (re-verified with the `ecdsa` package from
    the issuer's SPKI)"""
    if subject.not_valid_before_utc > now or subject.not_valid_after_utc < now:
        return False, True
    pub = issuer_cert.public_key()
    if not isinstance(pub, ec.EllipticCurvePublicKey):
        return False, True
    curve = {"secp256r1": ecdsa.NIST256p, "secp384r1": ecdsa.NIST384p,
             "secp256k1": ecdsa.SECP256k1}.get(pub.curve.name)
    if curve is None:
        return False, True
    try:
        h = subject.signature_hash_algorithm
    except Exception:
        # a signature algorithm the library does not know: nothing the issuer's key
        # can be shown to have signed
        return False, True
    if h is None:
        return False, True
    hf = {"sha256": hashlib.sha256, "sha384": hashlib.sha384, "sha512": hashlib.sha512,
          "sha1": hashlib.sha1}.get(h.name)
    if hf is None:
        return False, False
    vk = ecdsa.VerifyingKey.from_string(
        pub.public_bytes(Encoding.X962, PublicFormat.UncompressedPoint), curve)
    firm = strict_der_sig(subject.signature)
    try:
        ok = vk.verify(subject.signature, subject.tbs_certificate_bytes, hashfunc=hf,
                       sigdecode=ecdsa.util.sigdecode_der)
        return bool(ok), firm
    except Exception:
        return False, firm


def p256_from_cert(cert):
    pub = cert.public_key()
    if not isinstance(pub, ec.EllipticCurvePublicKey) or pub.curve.name != "secp256r1":
        return None
    return pub


def p256_from_bytes(kb):
    """accepts raw x||y, uncompressed and compressed forms, like ecdsa's from_string"""
    try:
        if len(kb) == 64:
            return ec.EllipticCurvePublicKey.from_encoded_point(ec.SECP256R1(), b"\x04" + kb)
        if len(kb) in (65, 33):
            if len(kb) == 65 and kb[0] in (6, 7):
                return "hybrid"
            return ec.EllipticCurvePublicKey.from_encoded_point(ec.SECP256R1(), kb)
    except ValueError:
        return None
    return None


def verify_prehashed(pub, sig, data):
    try:
        pub.verify(sig, hashlib.sha256(data).digest(), ec.ECDSA(Prehashed(hashes.SHA256())))
        return True
    except (InvalidSignature, ValueError):
        return False


def xy(pub):
    n = pub.public_numbers()
    return n.x.to_bytes(32, "big") + n.y.to_bytes(32, "big")


def verify(doc, root_cert, now=None):
    """-> ({target: verdict}, soft targets).  verdict = (True, {'message': hex,
    'quote': bytes}, None) or (False, failing element name)"""
    now = now or datetime.datetime.now(datetime.timezone.utc)
    els = {e["name"]: e for e in doc["elements"]}
    out = {}
    soft = set()
    for t in doc["targets"]:
        chain = []
        cur = els[t]
        while True:
            chain.append(cur)
            if cur["signed_by"] == "sgx_root":
                break
            cur = els[cur["signed_by"]]
        chain.reverse()
        certifier = ("x509", root_cert)
        verdict = None
        for el in chain:
            ok = False
            firm = True
            typ = el["type"]
            try:
                if typ == "x509_pem":
                    cert = load_cert_b64(el["message"])
                    if certifier[0] == "x509":
                        ok, firm = x509_valid(cert, certifier[1], now)
                    nxt = ("x509", cert)
                elif typ == "sgx_attestation_key":
                    msg = bytes.fromhex(el["message"])
                    kb = bytes.fromhex(el["key"])
                    auth = bytes.fromhex(el["auth_data"])
                    sig = bytes.fromhex(el["signature"])
                    key = p256_from_bytes(kb)
                    firm = strict_der_sig(sig)
                    if key == "hybrid":
                        firm = False
                        key = None
                    cpub = p256_from_cert(certifier[1]) if certifier[0] == "x509" else None
                    if key is not None and cpub is not None and len(msg) >= RB_LEN:
                        want = hashlib.sha256(xy(key) + auth).digest()
                        if msg[RB_REPORT_DATA:RB_REPORT_DATA + 32] == want:
                            ok = verify_prehashed(cpub, sig, msg)
                    nxt = ("key", key)
                elif typ == "sgx_quote":
                    msg = bytes.fromhex(el["message"])
                    cd = bytes.fromhex(el["custom_data"])
                    sig = bytes.fromhex(el["signature"])
                    firm = strict_der_sig(sig)
                    if certifier[0] == "key" and certifier[1] is not None and \
                            len(msg) >= Q_LEN:
                        if msg[Q_REPORT_DATA:Q_REPORT_DATA + 32] == hashlib.sha256(cd).digest():
                            ok = verify_prehashed(certifier[1], sig, msg)
                    nxt = ("none", None)
                else:
                    nxt = ("none", None)
            except Exception:
                ok = False
                nxt = ("none", None)
            if not firm:
                soft.add(t)
            if not ok:
                verdict = (False, el["name"])
                break
            certifier = nxt
        if verdict is None:
            last = chain[-1]
            if last["type"] == "sgx_quote":
                verdict = (True, {"message": last["custom_data"].lower(),
                                  "quote": bytes.fromhex(last["message"])}, None)
            else:
                verdict = (True, None, None)
        out[t] = verdict
    return out, soft
