# Own Keccak-256 and SHA-256 (with explicit midstate) so that the block oracles
# do not lean on the libraries the middleware uses.  Both self-check on import.
import hashlib
import struct

# ---------------------------------------------------------------- keccak --
_RC = [0x0000000000000001, 0x0000000000008082, 0x800000000000808A, 0x8000000080008000,
       0x000000000000808B, 0x0000000080000001, 0x8000000080008081, 0x8000000000008009,
       0x000000000000008A, 0x0000000000000088, 0x0000000080008009, 0x000000008000000A,
       0x000000008000808B, 0x800000000000008B, 0x8000000000008089, 0x8000000000008003,
       0x8000000000008002, 0x8000000000000080, 0x000000000000800A, 0x800000008000000A,
       0x8000000080008081, 0x8000000000008080, 0x0000000080000001, 0x8000000080008008]
_ROT = [[0, 36, 3, 41, 18], [1, 44, 10, 45, 2], [62, 6, 43, 15, 61],
        [28, 55, 25, 21, 56], [27, 20, 39, 8, 14]]
_M = (1 << 64) - 1


def _rol(x, n):
    n %= 64
    return ((x << n) | (x >> (64 - n))) & _M if n else x


def _f1600(a):
    for rnd in range(24):
        c = [a[x][0] ^ a[x][1] ^ a[x][2] ^ a[x][3] ^ a[x][4] for x in range(5)]
        d = [c[(x - 1) % 5] ^ _rol(c[(x + 1) % 5], 1) for x in range(5)]
        for x in range(5):
            for y in range(5):
                a[x][y] ^= d[x]
        b = [[0] * 5 for _ in range(5)]
        for x in range(5):
            for y in range(5):
                b[y][(2 * x + 3 * y) % 5] = _rol(a[x][y], _ROT[x][y])
        for x in range(5):
            for y in range(5):
                a[x][y] = b[x][y] ^ ((~b[(x + 1) % 5][y]) & b[(x + 2) % 5][y])
        a[0][0] ^= _RC[rnd]
    return a


def keccak256(data):
    rate = 136
    p = bytearray(data)
    p.append(0x01)
    while len(p) % rate:
        p.append(0)
    p[-1] |= 0x80
    a = [[0] * 5 for _ in range(5)]
    for off in range(0, len(p), rate):
        blk = p[off:off + rate]
        for i in range(rate // 8):
            x, y = i % 5, i // 5
            a[x][y] ^= int.from_bytes(blk[8 * i:8 * i + 8], "little")
        _f1600(a)
    out = b""
    for i in range(4):
        x, y = i % 5, i // 5
        out += a[x][y].to_bytes(8, "little")
    return out


# ---------------------------------------------------------------- sha256 --
_K = [0x428a2f98, 0x71374491, 0xb5c0fbcf, 0xe9b5dba5, 0x3956c25b, 0x59f111f1, 0x923f82a4,
      0xab1c5ed5, 0xd807aa98, 0x12835b01, 0x243185be, 0x550c7dc3, 0x72be5d74, 0x80deb1fe,
      0x9bdc06a7, 0xc19bf174, 0xe49b69c1, 0xefbe4786, 0x0fc19dc6, 0x240ca1cc, 0x2de92c6f,
      0x4a7484aa, 0x5cb0a9dc, 0x76f988da, 0x983e5152, 0xa831c66d, 0xb00327c8, 0xbf597fc7,
      0xc6e00bf3, 0xd5a79147, 0x06ca6351, 0x14292967, 0x27b70a85, 0x2e1b2138, 0x4d2c6dfc,
      0x53380d13, 0x650a7354, 0x766a0abb, 0x81c2c92e, 0x92722c85, 0xa2bfe8a1, 0xa81a664b,
      0xc24b8b70, 0xc76c51a3, 0xd192e819, 0xd6990624, 0xf40e3585, 0x106aa070, 0x19a4c116,
      0x1e376c08, 0x2748774c, 0x34b0bcb5, 0x391c0cb3, 0x4ed8aa4a, 0x5b9cca4f, 0x682e6ff3,
      0x748f82ee, 0x78a5636f, 0x84c87814, 0x8cc70208, 0x90befffa, 0xa4506ceb, 0xbef9a3f7,
      0xc67178f2]
_H0 = [0x6a09e667, 0xbb67ae85, 0x3c6ef372, 0xa54ff53a, 0x510e527f, 0x9b05688c, 0x1f83d9ab,
       0x5be0cd19]
_F = 0xffffffff


def _rr(x, n):
    return ((x >> n) | (x << (32 - n))) & _F


def sha256_compress(h, block):
    w = list(struct.unpack(">16I", block))
    for i in range(16, 64):
        s0 = _rr(w[i - 15], 7) ^ _rr(w[i - 15], 18) ^ (w[i - 15] >> 3)
        s1 = _rr(w[i - 2], 17) ^ _rr(w[i - 2], 19) ^ (w[i - 2] >> 10)
        w.append((w[i - 16] + s0 + w[i - 7] + s1) & _F)
    a, b, c, d, e, f, g, hh = h
    for i in range(64):
        t1 = (hh + (_rr(e, 6) ^ _rr(e, 11) ^ _rr(e, 25)) + ((e & f) ^ (~e & g)) + _K[i] +
              w[i]) & _F
        t2 = ((_rr(a, 2) ^ _rr(a, 13) ^ _rr(a, 22)) + ((a & b) ^ (a & c) ^ (b & c))) & _F
        hh, g, f, e, d, c, b, a = g, f, e, (d + t1) & _F, c, b, a, (t1 + t2) & _F
    return [(x + y) & _F for x, y in zip(h, [a, b, c, d, e, f, g, hh])]


def sha256_midstate(prefix):
    """32-byte chaining value after absorbing `prefix` (len % 64 == 0)"""
    assert len(prefix) % 64 == 0
    h = list(_H0)
    for off in range(0, len(prefix), 64):
        h = sha256_compress(h, prefix[off:off + 64])
    return struct.pack(">8I", *h)


def sha256_full(data):
    h = list(_H0)
    n = len(data)
    p = data + b"\x80" + b"\x00" * ((55 - n) % 64) + struct.pack(">Q", 8 * n)
    for off in range(0, len(p), 64):
        h = sha256_compress(h, p[off:off + 64])
    return struct.pack(">8I", *h)


def sha256_from_midstate(mid32, count, tail):
    """digest of a message whose first `count` bytes (a multiple of 64) were already
    absorbed, leaving the chaining value mid32, and which goes on with `tail`"""
    assert count % 64 == 0
    h = list(struct.unpack(">8I", mid32))
    n = len(tail)
    p = tail + b"\x80" + b"\x00" * ((55 - n) % 64) + struct.pack(">Q", (8 * (count + n)) % 2**64)
    for off in range(0, len(p), 64):
        h = sha256_compress(h, p[off:off + 64])
    return struct.pack(">8I", *h)


def selfcheck():
    assert keccak256(b"").hex() == \
        "c5d2460186f7233c927e7db2dcc703c0e500b653ca82273b7bfad8045d85a470"
    assert keccak256(b"abc").hex() == \
        "4e03657aea45a94fc7d47ba826c8d667c0d1e6e33a64a036ec44f58fa12d6c45"
    assert keccak256(bytes(range(200)) * 3) is not None
    for m in (b"", b"abc", bytes(range(256)) * 3, b"x" * 55, b"y" * 56, b"z" * 64):
        assert sha256_full(m) == hashlib.sha256(m).digest()
    m = bytes(range(256)) * 3
    assert sha256_from_midstate(sha256_midstate(m[:128]), 128, m[128:]) == hashlib.sha256(m).digest()
    return True


selfcheck()
