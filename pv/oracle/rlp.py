# Own RLP decoder (strict), independent of the `rlp` package the middleware uses.


class RLPError(Exception):
    pass


def _decode_at(b, i, depth=0):
    if depth > 64:
        raise RLPError("too deep")
    if i >= len(b):
        raise RLPError("truncated")
    p = b[i]
    if p < 0x80:
        return bytes([p]), i + 1, True
    if p <= 0xb7:
        n = p - 0x80
        if i + 1 + n > len(b):
            raise RLPError("truncated string")
        s = b[i + 1:i + 1 + n]
        canon = not (n == 1 and s[0] < 0x80)
        return bytes(s), i + 1 + n, canon
    if p <= 0xbf:
        ll = p - 0xb7
        if i + 1 + ll > len(b):
            raise RLPError("truncated length")
        n = int.from_bytes(b[i + 1:i + 1 + ll], "big")
        canon = b[i + 1] != 0 and n >= 56
        if i + 1 + ll + n > len(b):
            raise RLPError("truncated long string")
        return bytes(b[i + 1 + ll:i + 1 + ll + n]), i + 1 + ll + n, canon
    if p <= 0xf7:
        n = p - 0xc0
        start = i + 1
        canon = True
    else:
        ll = p - 0xf7
        if i + 1 + ll > len(b):
            raise RLPError("truncated list length")
        n = int.from_bytes(b[i + 1:i + 1 + ll], "big")
        canon = b[i + 1] != 0 and n >= 56
        start = i + 1 + ll
    end = start + n
    if end > len(b):
        raise RLPError("truncated list")
    items = []
    j = start
    while j < end:
        it, j, c = _decode_at(b, j, depth + 1)
        canon = canon and c
        items.append(it)
    if j != end:
        raise RLPError("list payload overrun")
    return items, end, canon


def decode(b):
    """-> (item, canonical).  Raises RLPError on malformed input or trailing bytes."""
    item, end, canon = _decode_at(b, 0)
    if end != len(b):
        raise RLPError("trailing bytes")
    return item, canon
