# Reference classifier transcribed from docs/protocol.md and docs/protocol-v1.md
# (DESIGN.md C02).  For a JSON value and a protocol mode it returns the SET of
# verdicts the documents allow; where they are silent the set is widened.
import re

LISTED = ["m/44'/0'/0'/0/0", "m/44'/1'/0'/0/0", "m/44'/137'/0'/0/0", "m/44'/137'/1'/0/0",
          "m/44'/1'/1'/0/0", "m/44'/1'/2'/0/0"]
AUTH_KEYS = LISTED[:2]
V1_LISTED = LISTED[2:]

V5 = dict(ver=5, fmt=-901, req=-902, unk=-903, wver=-904, auth=-101, msg=-102, key=-103,
          blocks=-204, bros=-205, ud=-301)
V1 = dict(ver=1, fmt=-2, req=-2, unk=-2, wver=-666, auth=-2, msg=-2, key=-2)

V5_COMMANDS = ["version", "sign", "getPubKey", "advanceBlockchain", "resetAdvanceBlockchain",
               "blockchainState", "updateAncestorBlock", "blockchainParameters",
               "signerHeartbeat", "uiHeartbeat"]
V1_COMMANDS = ["version", "sign", "getPubKey"]

ACCEPT = "accept"

_HEX = re.compile(r"^(?:[0-9a-fA-F]{2})*\Z")
_LOOSE_PATH = re.compile(r"^m(/\d+'?){5}\Z")
_STRICT_PATH = re.compile(r"^m(/(0|[1-9][0-9]*)'?){5}\Z", re.ASCII)


def is_int(x):
    return type(x) is int


def hex_class(s):
    """'ok' (even number of hex digits), 'ambiguous' (would be hex if ASCII
    whitespace were ignored), 'bad'"""
    if type(s) is not str:
        return "bad"
    if _HEX.match(s):
        return "ok"
    stripped = re.sub(r"[ \t\n\r\x0b\x0c]", "", s)
    if stripped != s and _HEX.match(stripped):
        return "ambiguous"
    return "bad"


def hex_len(s):
    return len(re.sub(r"\s", "", s)) // 2


class Verdicts:
    def __init__(self):
        self.codes = set()       # refusal codes some defect justifies
        self.accept = True       # may the request be accepted?
        self.ambiguous = False   # classification genuinely unclear: only "no crash"
        self.why = []

    def defect(self, code, why):
        self.codes.add(code)
        self.accept = False
        self.why.append(why)

    def maybe(self, code, why):
        """the documents are silent: refusing with `code` or accepting are both fine"""
        self.codes.add(code)
        self.why.append("?" + why)

    def allowed(self):
        s = set(self.codes)
        if self.accept:
            s.add(ACCEPT)
        return s


def nonempty_hex(v, x, code, why):
    c = hex_class(x)
    if c == "bad" or (c == "ok" and len(x) == 0):
        v.defect(code, why)
    elif c == "ambiguous":
        v.ambiguous = True


def hex_of_len(v, x, n, code, why):
    c = hex_class(x)
    if c == "bad" or (c == "ok" and len(x) != 2 * n):
        v.defect(code, why)
    elif c == "ambiguous":
        v.ambiguous = True


def key_id(v, req, C, v1):
    if "keyId" not in req or type(req["keyId"]) is not str:
        v.defect(C["key"], "keyId absent or not a string")
        return None
    k = req["keyId"]
    if k in LISTED:
        return k
    loose = False
    if _LOOSE_PATH.match(k):
        try:
            loose = all(int(p.rstrip("'")) < 2**31 for p in k[2:].split("/"))
        except ValueError:
            loose = False
    if loose:
        # a path the grammar admits but the documents do not list: the manager may
        # refuse it itself or relay it and report the device's refusal
        v.maybe(C["key"], "unlisted key path")
        if not _STRICT_PATH.match(k):
            v.ambiguous = True
        return k
    v.defect(C["key"], "keyId not a BIP32 path of 5 elements")
    return None


def auth_field(v, req, C, mandatory):
    if "auth" not in req:
        if mandatory:
            v.defect(C["auth"], "auth missing")
        return
    a = req["auth"]
    tgt = v.defect if mandatory else None

    def d(why):
        if mandatory:
            v.defect(C["auth"], why)
        else:
            # the non-authorized format has no auth field; a malformed one may be
            # refused or ignored
            v.maybe(C["auth"], why)
    if type(a) is not dict:
        return d("auth not an object")
    r = a.get("receipt")
    c = hex_class(r)
    if "receipt" not in a or c == "bad" or (c == "ok" and len(r) == 0):
        d("receipt absent or not nonempty hex")
    elif c == "ambiguous":
        v.ambiguous = True
    p = a.get("receipt_merkle_proof")
    if "receipt_merkle_proof" not in a or type(p) is not list or len(p) == 0:
        d("proof absent, not a list or empty")
    else:
        for n in p:
            c = hex_class(n)
            if c == "bad" or (c == "ok" and len(n) == 0):
                d("proof node not nonempty hex")
                break
            if c == "ambiguous":
                v.ambiguous = True
        else:
            if mandatory:
                # not representable on the wire (1-byte count, 1-byte node length)
                if len(p) > 255:
                    v.defect(C["auth"], "more than 255 proof nodes")
                elif any(hex_class(n) == "ok" and len(n) // 2 > 255 for n in p):
                    v.defect(C["auth"], "proof node longer than 255 bytes")


def sign_v5(v, req, C, tx_decodable):
    key = key_id(v, req, C, False)
    m = req.get("message")
    if "message" not in req or type(m) is not dict:
        v.defect(C["msg"], "message absent or not an object")
        auth_field(v, req, C, False)
        return
    has_hash = "hash" in m
    has_tx = any(k in m for k in ("tx", "input", "sighashComputationMode", "witnessScript",
                                  "outpointValue"))
    if has_hash and has_tx:
        v.defect(C["msg"], "message mixes hash and tx forms")
        auth_field(v, req, C, False)
        return
    if has_hash:
        hex_of_len(v, m["hash"], 32, C["msg"], "hash not 32-byte hex")
        if len(m) != 1:
            v.maybe(C["msg"], "extra keys beside hash")
        auth_field(v, req, C, False)
        if key in AUTH_KEYS:
            v.maybe(C["key"], "hash form with a key that requires authorization")
        return
    # tx form
    auth_field(v, req, C, True)
    mode = m.get("sighashComputationMode")
    if type(mode) is not str or mode not in ("legacy", "segwit"):
        v.defect(C["msg"], "sighashComputationMode not legacy/segwit")
    nonempty_hex(v, m.get("tx"), C["msg"], "tx absent or not nonempty hex")
    if hex_class(m.get("tx")) == "ok" and len(m.get("tx")) > 0:
        dec = tx_decodable(m["tx"])
        if dec is False:
            v.defect(C["msg"], "tx not a decodable transaction")
        elif dec is None:
            v.ambiguous = True
    if not is_int(m.get("input")):
        v.defect(C["msg"], "input absent or not an integer")
    elif not (0 <= m["input"] < 2**32):
        v.defect(C["msg"], "input not representable in 4 bytes")
    expected = {"tx", "input", "sighashComputationMode"}
    if mode == "segwit":
        expected |= {"witnessScript", "outpointValue"}
        nonempty_hex(v, m.get("witnessScript"), C["msg"], "witnessScript absent or not hex")
        ws = m.get("witnessScript")
        wl = len(ws) // 2 if hex_class(ws) == "ok" else 0
        if wl + (1 if wl < 0xfd else 3 if wl <= 0xffff else 5) + 8 > 0xffff:
            v.defect(C["msg"], "witness script does not fit the 2-byte extradata length")
        ov = m.get("outpointValue")
        if not is_int(ov):
            v.defect(C["msg"], "outpointValue absent or not an integer")
        elif ov < 0 or ov > 0xffffffffffffffff:
            v.defect(C["msg"], "outpointValue out of range")
        elif ov == 0:
            v.maybe(C["msg"], "outpointValue 0")
    extra = set(m) - expected
    if extra:
        if mode == "legacy" and extra <= {"witnessScript", "outpointValue"}:
            v.maybe(C["msg"], "segwit fields with legacy mode")
        else:
            v.maybe(C["msg"], "extra keys in message")
    if key is not None and key not in AUTH_KEYS:
        v.maybe(C["key"], "tx form with a key that does not require authorization")


def sign_v1(v, req, C):
    key = key_id(v, req, C, True)
    m = req.get("message")
    if "message" not in req or type(m) is not str:
        v.defect(C["msg"], "message absent or not a string")
        return
    hex_of_len(v, m, 32, C["msg"], "message not 32-byte hex")
    if key in AUTH_KEYS:
        v.maybe(C["key"], "key not listed for v1")


def blocks_field(v, req, C, block_ok):
    b = req.get("blocks")
    if "blocks" not in req or type(b) is not list or len(b) == 0:
        v.defect(C["blocks"], "blocks absent, not a list or empty")
        return False
    if not all(type(x) is str for x in b):
        v.defect(C["blocks"], "block not a string")
        return False
    for x in b:
        c = hex_class(x)
        if c == "bad" or (c == "ok" and len(x) == 0):
            # format level: the documents define a block as a hex string
            v.defect(C["blocks"], "block not a nonempty hex string")
            continue
        if c == "ambiguous":
            v.ambiguous = True
            continue
        r = block_ok(x)
        if r is False:
            # content level: the manager may find out itself or while relaying
            v.maybe(C["blocks"], "block not a decodable header")
        elif r is None:
            v.ambiguous = True
    return True


def advance(v, req, C, block_ok):
    ok = blocks_field(v, req, C, lambda x: block_ok(x, True))
    br = req.get("brothers")
    if "brothers" not in req or type(br) is not list:
        v.defect(C["bros"], "brothers absent or not a list")
        return
    if ok and len(br) != len(req["blocks"]):
        v.defect(C["bros"], "brothers/blocks length mismatch")
    if not all(type(x) is list for x in br):
        v.defect(C["bros"], "brother list not a list")
        return
    for bl in br:
        for x in bl:
            c = hex_class(x)
            if c == "bad" or (c == "ok" and len(x) == 0):
                v.defect(C["bros"], "brother not nonempty hex")
            elif c == "ambiguous":
                v.ambiguous = True
            else:
                r = block_ok(x, True)
                if r is False:
                    # a brother that is hex but not a block: invalid brothers (or
                    # invalid blocks - the documents do not say which), found by the
                    # manager itself or while relaying
                    v.maybe(C["bros"], "brother not a decodable header")
                    v.codes.add(C["blocks"])
                elif r is None:
                    v.ambiguous = True
        if len(bl) > 10:
            v.maybe(C["bros"], "more than 10 brothers")
        if len(bl) > 255:
            v.defect(C["bros"], "brother count does not fit one byte")


def classify(req, v1, tx_decodable, block_ok):
    """-> Verdicts"""
    C = V1 if v1 else V5
    known = V1_COMMANDS if v1 else V5_COMMANDS
    v = Verdicts()
    if type(req) is not dict:
        v.defect(C["fmt"], "not an object")
        return v
    if "command" not in req:
        v.defect(C["req"], "no command")
    cmd = req.get("command")
    if "command" in req and not (type(cmd) is str and cmd == "version") and \
            "version" not in req:
        v.defect(C["req"], "no version")
    if "version" in req:
        ver = req["version"]
        if is_int(ver):
            if ver != C["ver"]:
                v.defect(C["wver"], "wrong version")
        elif type(ver) in (float, bool) and ver == C["ver"]:
            v.maybe(C["wver"], "version of another JSON type equal to the number")
        else:
            v.defect(C["wver"], "version not the protocol number")
    if "command" in req:
        if type(cmd) is not str:
            v.defect(C["unk"], "command not a string")
            v.codes.add(C["req"])
        elif cmd not in known:
            v.defect(C["unk"], "unknown command")
    if not v.accept or "command" not in req:
        return v
    # ---- the command's own validation
    if cmd == "sign":
        if v1:
            sign_v1(v, req, C)
        else:
            sign_v5(v, req, C, tx_decodable)
    elif cmd == "getPubKey":
        key_id(v, req, C, v1)
    elif cmd == "advanceBlockchain":
        advance(v, req, C, block_ok)
    elif cmd == "updateAncestorBlock":
        blocks_field(v, req, C, lambda x: block_ok(x, False))
    elif cmd in ("signerHeartbeat", "uiHeartbeat"):
        n = 16 if cmd == "signerHeartbeat" else 32
        if "udValue" not in req or type(req["udValue"]) is not str:
            v.defect(C["ud"], "udValue absent or not a string")
        else:
            hex_of_len(v, req["udValue"], n, C["ud"], "udValue not %d-byte hex" % n)
    return v
