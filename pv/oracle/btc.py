# Independent byte-level Bitcoin transaction parser and script tokenizer.
# Shares no code with the bitcoin.core shim (DESIGN.md 2.1, C01/C14 oracle).


class Malformed(Exception):
    pass


class Rd:
    def __init__(self, b):
        self.b = b
        self.i = 0

    def take(self, n):
        if n < 0 or self.i + n > len(self.b):
            raise Malformed("truncated: need %d at %d of %d" % (n, self.i, len(self.b)))
        r = self.b[self.i:self.i + n]
        self.i += n
        return r

    def u8(self):
        return self.take(1)[0]

    def le(self, n):
        return int.from_bytes(self.take(n), "little")

    def varint(self):
        """returns (value, canonical?)"""
        p = self.u8()
        if p < 0xfd:
            return p, True
        if p == 0xfd:
            v = self.le(2)
            return v, v >= 0xfd
        if p == 0xfe:
            v = self.le(4)
            return v, v > 0xffff
        v = self.le(8)
        return v, v > 0xffffffff

    def done(self):
        return self.i == len(self.b)


def enc_varint(v):
    if v < 0xfd:
        return bytes([v])
    if v <= 0xffff:
        return b"\xfd" + v.to_bytes(2, "little")
    if v <= 0xffffffff:
        return b"\xfe" + v.to_bytes(4, "little")
    return b"\xff" + v.to_bytes(8, "little")


class Tx:
    __slots__ = ("version", "segwit", "ins", "outs", "wits", "locktime", "canonical")


def parse_tx(raw, limit=10**6):
    """Parse a serialized transaction (legacy or BIP144 form).  Raises Malformed
    on truncation, trailing bytes or absurd counts."""
    r = Rd(raw)
    t = Tx()
    t.canonical = True
    t.version = r.take(4)
    t.segwit = False
    save = r.i
    if len(raw) >= 6 and raw[4] == 0 and raw[5] == 1:
        t.segwit = True
        r.take(2)
    else:
        r.i = save

    def count():
        v, c = r.varint()
        if not c:
            t.canonical = False
        if v > len(raw):
            # (no count or length can exceed the size of the whole serialisation)
            raise Malformed("count too large")
        return v
    t.ins = []
    for _ in range(count()):
        op = r.take(36)
        sl = count()
        sc = r.take(sl)
        seq = r.take(4)
        t.ins.append((op, sc, seq))
    t.outs = []
    for _ in range(count()):
        val = r.take(8)
        sl = count()
        sc = r.take(sl)
        t.outs.append((val, sc))
    t.wits = None
    if t.segwit:
        t.wits = []
        for _ in t.ins:
            items = []
            for _ in range(count()):
                n = count()
                items.append(r.take(n))
            t.wits.append(items)
    t.locktime = r.take(4)
    if not r.done():
        raise Malformed("trailing bytes")
    return t


def tokenize(script):
    """-> list of (opcode, data or None, raw bytes of the whole operation).
    Raises Malformed for a truncated push."""
    ops = []
    i = 0
    n = len(script)
    while i < n:
        start = i
        op = script[i]
        i += 1
        if op > 0x4e:
            ops.append((op, None, script[start:i]))
            continue
        if op < 0x4c:
            ln = op
        elif op == 0x4c:
            if i + 1 > n:
                raise Malformed("PUSHDATA1 without length")
            ln = script[i]
            i += 1
        elif op == 0x4d:
            if i + 2 > n:
                raise Malformed("PUSHDATA2 without length")
            ln = int.from_bytes(script[i:i + 2], "little")
            i += 2
        else:
            if i + 4 > n:
                raise Malformed("PUSHDATA4 without length")
            ln = int.from_bytes(script[i:i + 4], "little")
            i += 4
        if i + ln > n:
            raise Malformed("truncated push")
        ops.append((op, script[i:i + ln], script[start:i + ln]))
        i += ln
    return ops


def minimal_push(data):
    n = len(data)
    if n < 0x4c:
        return bytes([n]) + data
    if n <= 0xff:
        return b"\x4c" + bytes([n]) + data
    if n <= 0xffff:
        return b"\x4d" + n.to_bytes(2, "little") + data
    return b"\x4e" + n.to_bytes(4, "little") + data


def allowed_last_encodings(last):
    """the byte forms the relayed script may use for the original last
    operation: as the client wrote it, or minimally re-encoded by length"""
    op, data, raw = last
    if data is None:
        return {bytes(raw)}
    return {bytes(raw), minimal_push(bytes(data))}


def check_unsigned(original_raw, unsigned_raw):
    """Oracle for the C14/C01 transformation.  Returns a list of discrepancy
    strings (empty when the relayed form is acceptable)."""
    bad = []
    try:
        o = parse_tx(original_raw)
    except Malformed as e:
        return ["oracle cannot parse original: %s" % e]
    try:
        u = parse_tx(unsigned_raw)
    except Malformed as e:
        return ["relayed form does not parse: %s" % e]
    if o.version != u.version:
        bad.append("version differs")
    if o.locktime != u.locktime:
        bad.append("locktime differs")
    if len(o.ins) != len(u.ins):
        bad.append("input count %d -> %d" % (len(o.ins), len(u.ins)))
        return bad
    if o.outs != u.outs:
        bad.append("outputs differ")
    if not u.canonical:
        bad.append("relayed form uses non-canonical counts")
    for k, ((oop, osc, oseq), (uop, usc, useq)) in enumerate(zip(o.ins, u.ins)):
        if oop != uop:
            bad.append("input %d outpoint differs" % k)
        if oseq != useq:
            bad.append("input %d sequence differs" % k)
        try:
            ops = tokenize(osc)
        except Malformed as e:
            bad.append("input %d: original script untokenizable (%s) yet relayed" % (k, e))
            continue
        if not ops:
            bad.append("input %d: original script empty yet relayed" % k)
            continue
        prefix = b"\x00" * (len(ops) - 1)
        ok = any(bytes(usc) == prefix + enc for enc in allowed_last_encodings(ops[-1]))
        if not ok:
            bad.append("input %d script: got %s want %s + one of %s" % (
                k, bytes(usc).hex()[:200], prefix.hex(),
                [e.hex()[:120] for e in allowed_last_encodings(ops[-1])]))
    if o.segwit:
        # witness data is not part of what the property speaks about; only
        # require that it was not altered if still present
        if u.segwit and u.wits != o.wits:
            bad.append("witness data altered")
    elif u.segwit:
        bad.append("witness marker appeared")
    return bad
