# Numeric constants parsed from the firmware headers at run time (DESIGN.md 2.3),
# so the oracles do not copy the middleware's own enums.
import os
import re

from .. import env


def _read(rel):
    with open(os.path.join(env.REPO, "firmware", "src", rel)) as f:
        return f.read()


def _strip_comments(s):
    s = re.sub(r"/\*.*?\*/", "", s, flags=re.S)
    s = re.sub(r"//[^\n]*", "", s)
    return s


def parse_enums(text):
    """-> {name: value} for every enumerator of every enum in text (C rules:
    previous + 1 when no initializer)"""
    out = {}
    text = _strip_comments(text)
    for m in re.finditer(r"enum\s*\w*\s*\{(.*?)\}", text, flags=re.S):
        cur = -1
        for item in m.group(1).split(","):
            item = item.strip()
            if not item:
                continue
            if "=" in item:
                name, val = [x.strip() for x in item.split("=", 1)]
                try:
                    cur = int(val, 0)
                except ValueError:
                    if val in out:
                        cur = out[val]
                    else:
                        continue
            else:
                name = item
                cur += 1
            out[name] = cur
    return out


def parse_defines(text):
    out = {}
    for m in re.finditer(r"^\s*#define\s+(\w+)\s+(0x[0-9a-fA-F]+|\d+)\s*$",
                         _strip_comments(text), flags=re.M):
        out[m.group(1)] = int(m.group(2), 0)
    return out


_cache = {}


def get():
    if _cache:
        return _cache
    c = _cache
    c["auth"] = parse_enums(_read("powhsm/src/auth.h"))
    c["err"] = parse_enums(_read("powhsm/src/err.h"))
    c["bc_err"] = parse_enums(_read("powhsm/src/bc_err.h"))
    c["ui_err"] = parse_enums(_read("ledger/ui/src/ui_err.h"))
    c["bc_state"] = parse_defines(_read("powhsm/src/bc_state.h"))
    c["bc_state_ops"] = parse_enums(_read("powhsm/src/bc_state.h"))
    return c


# reply field of docs/protocol.md "Get Blockchain State" -> firmware hash descriptor
STATE_FIELD_TO_FW = {
    "best_block": "BEST_BLOCK",
    "newest_valid_block": "NEWEST_VALID_BLOCK",
    "ancestor_block": "ANCESTOR_BLOCK",
    "ancestor_receipts_root": "ANCESTOR_RECEIPT_ROOT",
    "updating.best_block": "U_BEST_BLOCK",
    "updating.newest_valid_block": "U_NEWEST_VALID_BLOCK",
    "updating.next_expected_block": "U_NEXT_EXPECTED_BLOCK",
}
