# Independent verifier for version-1 attestation certificates (DESIGN.md C06):
# own secp256k1 point arithmetic for key parsing and tweaking, ECDSA verification
# by `cryptography` (OpenSSL) - the code under test uses libsecp256k1 bindings.
import hmac
import hashlib

from cryptography.hazmat.primitives.asymmetric import ec
from cryptography.hazmat.primitives import hashes
from cryptography.exceptions import InvalidSignature

P = 0xFFFFFFFFFFFFFFFFFFFFFFFFFFFFFFFFFFFFFFFFFFFFFFFFFFFFFFFEFFFFFC2F
N = 0xFFFFFFFFFFFFFFFFFFFFFFFFFFFFFFFEBAAEDCE6AF48A03BBFD25E8CD0364141
GX = 0x79BE667EF9DCBBAC55A06295CE870B07029BFCDB2DCE28D959F2815B16F81798
GY = 0x483ADA7726A3C4655DA4FBFC0E1108A8FD17B448A68554199C47D08FFB10D4B8


def _add(a, b):
    if a is None:
        return b
    if b is None:
        return a
    (x1, y1), (x2, y2) = a, b
    if x1 == x2:
        if (y1 + y2) % P == 0:
            return None
        lam = (3 * x1 * x1) * pow(2 * y1, -1, P) % P
    else:
        lam = (y2 - y1) * pow(x2 - x1, -1, P) % P
    x3 = (lam * lam - x1 - x2) % P
    return x3, (lam * (x1 - x3) - y1) % P


def _mul(k, pt):
    r = None
    while k:
        if k & 1:
            r = _add(r, pt)
        pt = _add(pt, pt)
        k >>= 1
    return r


def parse_pubkey(b):
    """-> (x, y) or None; 'hybrid' for the 06/07 forms (ambiguous)"""
    if len(b) == 65 and b[0] == 4:
        x = int.from_bytes(b[1:33], "big")
        y = int.from_bytes(b[33:], "big")
        if x >= P or y >= P or (y * y - x * x * x - 7) % P != 0:
            return None
        return x, y
    if len(b) == 65 and b[0] in (6, 7):
        return "hybrid"
    if len(b) == 33 and b[0] in (2, 3):
        x = int.from_bytes(b[1:], "big")
        if x >= P:
            return None
        y2 = (x * x * x + 7) % P
        y = pow(y2, (P + 1) // 4, P)
        if y * y % P != y2:
            return None
        if (y & 1) != (b[0] & 1):
            y = P - y
        return x, y
    return None


def ser65(pt):
    return b"\x04" + pt[0].to_bytes(32, "big") + pt[1].to_bytes(32, "big")


EXTRACT = {"device": lambda b: b[-65:], "attestation": lambda b: b[1:],
           "ui": lambda b: b, "signer": lambda b: b}


def der_info(sig):
    """(strict DER?, low-S?) - only to decide in which direction verdicts must agree"""
    try:
        if len(sig) < 8 or sig[0] != 0x30 or sig[1] != len(sig) - 2 or sig[1] > 0x7f:
            return False, False
        i = 2
        vals = []
        for _ in range(2):
            if sig[i] != 0x02:
                return False, False
            ln = sig[i + 1]
            if ln == 0 or ln > 33:
                return False, False
            v = sig[i + 2:i + 2 + ln]
            if len(v) != ln:
                return False, False
            if v[0] & 0x80:
                return False, False
            if ln > 1 and v[0] == 0 and not (v[1] & 0x80):
                return False, False
            vals.append(int.from_bytes(v, "big"))
            i += 2 + ln
        if i != len(sig):
            return False, False
        r, s = vals
        if not (0 < r < N and 0 < s < N):
            return False, False
        return True, s <= N // 2
    except IndexError:
        return False, False


def verify_element(el, certifier_pt):
    """-> (valid?, strict_and_low_s?)"""
    try:
        msg = bytes.fromhex(el["message"])
        sig = bytes.fromhex(el["signature"])
    except ValueError:
        return False, True
    pt = certifier_pt
    if el.get("tweak") is not None:
        t = int.from_bytes(hmac.new(bytes.fromhex(el["tweak"]), ser65(certifier_pt),
                                    hashlib.sha256).digest(), "big")
        if t >= N:
            return False, True
        pt = _add(certifier_pt, _mul(t, (GX, GY)))
        if pt is None:
            return False, True
    strict, low = der_info(sig)
    try:
        pk = ec.EllipticCurvePublicNumbers(pt[0], pt[1], ec.SECP256K1()).public_key()
        pk.verify(sig, msg, ec.ECDSA(hashes.SHA256()))
        return True, strict and low
    except (InvalidSignature, ValueError):
        return False, strict and low


def verify(doc, root_pub):
    """-> {target: (True, value_hex, tweak) | (False, failing element name)},
    plus the set of targets whose verdict rests on a non-strict/high-S signature
    or a hybrid key (to be compared in one direction only)"""
    els = {e["name"]: e for e in doc["elements"]}
    root_pt = parse_pubkey(root_pub)
    out = {}
    soft = set()
    for t in doc["targets"]:
        chain = []
        cur = els[t]
        while True:
            chain.append(cur)
            if cur["signed_by"] == "root":
                break
            cur = els[cur["signed_by"]]
        chain.reverse()
        cert_pt = root_pt
        verdict = None
        for el in chain:
            if cert_pt == "hybrid":
                soft.add(t)
                verdict = (False, el["name"])
                break
            if cert_pt is None:
                verdict = (False, el["name"])
                break
            ok, firm = verify_element(el, cert_pt)
            if not firm:
                soft.add(t)
            if not ok:
                verdict = (False, el["name"])
                break
            cert_pt = parse_pubkey(EXTRACT[el["name"]](bytes.fromhex(el["message"])))
        if verdict is None:
            last = chain[-1]
            verdict = (True, EXTRACT[last["name"]](bytes.fromhex(last["message"])).hex(),
                       last.get("tweak"))
        out[t] = verdict
    return out, soft
