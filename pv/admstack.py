# Runs the repository's admin commands (adm_ledger.py / adm_sgx.py actions) against
# a simulated device over the fake transports, with a scripted operator.
import io
import sys
import contextlib
from types import SimpleNamespace

from . import env
env.setup()

from .simdev.transport import Bus, HidPatch, TcpPatch, VirtualClock  # noqa: E402


def options(**kw):
    base = dict(pin=None, new_pin=None, any_pin=False, output_file_path=None, no_unlock=False,
                no_exec=False, attestation_certificate_file_path=None, root_authority=None,
                pubkeys_file_path=None, attestation_ud_source=None,
                signer_authorization_file_path=None, verbose=False, operation=None)
    base.update(kw)
    return SimpleNamespace(**base)


class OperatorScriptExhausted(Exception):
    pass


class ScriptedStdin(io.StringIO):
    """stdin of a scripted operator: after the script ends a few empty reads (EOF)
    are served, then the operator 'walks away' so that a prompt loop cannot spin
    forever inside the harness"""

    def __init__(self, text, on_read=None):
        super().__init__(text)
        self._empties = 0
        self._on_read = on_read

    def readline(self, *a):
        if self._on_read is not None:
            self._on_read()       # (what happens while the operator is thinking)
        r = super().readline(*a)
        if r == "":
            self._empties += 1
            if self._empties > 5:
                raise OperatorScriptExhausted("operator script exhausted")
        return r


class CliExit(Exception):
    """the command-line tool ended with a non-zero exit status"""


class AdminEnv:
    def __init__(self, device, platform="ledger"):
        self.device = device
        self.platform = platform
        self.bus = Bus(device, VirtualClock())

    def __enter__(self):
        from comm.platform import Platform
        import admin.misc as misc
        import ledger.protocol as lp
        es = contextlib.ExitStack()
        self._es = es
        if self.platform == "ledger":
            es.enter_context(HidPatch(self.bus))
            Platform.set(Platform.LEDGER)
        else:
            es.enter_context(TcpPatch(self.bus))
            Platform.set(Platform.SGX, {"sgx_host": "simhost", "sgx_port": 7777})
        # one environment in four is that of an operator's shell with terminal size, locale
        # and the like exported (pv/env.py odd_environ): no input to what the tools do
        import random as _random
        from . import env as _env
        AdminEnv._n = getattr(AdminEnv, "_n", 0) + 1
        self.odd_env = es.enter_context(_env.odd_environ(_random.Random(AdminEnv._n), 0.25)).vars
        self._wait = misc.SIGNER_WAIT_TIME
        misc.SIGNER_WAIT_TIME = 0
        self._lp = lp.HSM2ProtocolLedger.OPEN_APP_WAIT
        return self

    def __exit__(self, *a):
        import admin.misc as misc
        misc.SIGNER_WAIT_TIME = self._wait
        self._es.close()
        return False

    FLAGS_LEDGER = {"pin": "-p", "new_pin": "-n", "output_file_path": "-o",
                    "attestation_certificate_file_path": "-t", "root_authority": "-r",
                    "pubkeys_file_path": "-b", "attestation_ud_source": "--attudsource",
                    "signer_authorization_file_path": "-z"}
    SWITCHES = {"any_pin": "-a", "no_unlock": "-u", "no_exec": "-e", "verbose": "-v"}

    def run_cli(self, operation, opts, stdin="", getpass_answers=None):
        """the same operation through the tool's own command line (adm_ledger.main /
        adm_sgx.main: argument parser, defaults, dispatch table, exit codes).
        -> (ok, stdout, exception) like run()"""
        import importlib
        mod = importlib.import_module("adm_ledger" if self.platform == "ledger" else "adm_sgx")
        flags = dict(self.FLAGS_LEDGER)
        if self.platform != "ledger":
            flags["pin"] = "-P"
        argv = [mod.__name__ + ".py", operation]
        for k, f in flags.items():
            v = getattr(opts, k, None)
            if v is not None:
                argv += [f, str(v)]
        for k, f in self.SWITCHES.items():
            if getattr(opts, k, False):
                if k == "no_exec" and self.platform != "ledger":
                    continue
                argv.append(f)
        # (a third of the command lines carry -v / --verbose: it only adds output)
        import zlib
        self._cli_runs = getattr(self, "_cli_runs", 0) + 1
        if "-v" not in argv and zlib.crc32(("%s|%d|%d" % (
                operation, len(argv), self._cli_runs)).encode()) % 3 == 0:
            argv.append("--verbose" if self._cli_runs % 2 else "-v")
        saved = sys.argv

        def fn(_):
            sys.argv = argv
            try:
                mod.main()
            except SystemExit as e:
                if e.code not in (0, None):
                    raise CliExit(e.code)
            finally:
                sys.argv = saved
        import logging
        try:
            return self.run(fn, None, stdin, getpass_answers)
        finally:
            logging.disable(logging.CRITICAL)

    def connection_open(self):
        """does the tool hold a connection to the device right now (bus events)"""
        state = {}
        for e in self.bus.events:
            if e["ev"] == "open":
                state[e.get("h")] = True
            elif e["ev"] == "close":
                state[e.get("h")] = False
        return any(state.values())

    def run(self, fn, opts, stdin="", getpass_answers=None):
        """-> (ok, stdout, exception)"""
        import admin.misc as misc
        buf = io.StringIO()
        old_stdin = sys.stdin
        on_prompt = getattr(self, "on_prompt", None)
        sys.stdin = ScriptedStdin(stdin, on_prompt)
        answers = list(getpass_answers or [])
        old_gp = misc.getpass

        def fake_getpass(prompt=""):
            if on_prompt is not None:
                on_prompt()
            if not answers:
                raise EOFError("operator script exhausted")
            return answers.pop(0)
        misc.getpass = fake_getpass
        try:
            with contextlib.redirect_stdout(buf):
                fn(opts)
            return True, buf.getvalue(), None
        except BaseException as e:     # noqa
            if isinstance(e, KeyboardInterrupt):
                raise
            return False, buf.getvalue(), e
        finally:
            sys.stdin = old_stdin
            misc.getpass = old_gp
