# C12 - concurrent clients never interleave on the device
import json
import time
import random
import socket
import threading

from .. import env
from ..gen import blocks as gb, btctx, der, requests as rq
from ..simdev.device import (SimDevice, MODE_SIGNER, path_to_binary, ALL_PATHS, ChunkPolicy)
from . import faultlib as fl

ID = "C12"
LEVEL = "exploration"
RULE = ("rounds of 2..16 client threads, each opening real TCP connections to one real "
        "TCPServer.run() thread and sending one request per connection (authorized sign with "
        "many chunks, advanceBlockchain with brothers, blockchainState, signerHeartbeat, "
        "getPubKey), every request carrying a unique ignored key _rid; the simulated device "
        "sleeps a seeded 0..2 ms inside every exchange and returns fresh random data per "
        "exchange (public key, hashes, signature). Recorded on one clock: client call/return, "
        "begin/end of handle_request (wrapped on the instance, thread-local request id), every "
        "APDU with thread id. Oracle: request intervals never overlap, every APDU lies in "
        "exactly one interval and all APDUs of an interval are contiguous; the device's in-flight "
        "counter never exceeds 1; each reply carries exactly the data of the APDUs of its own "
        "request, and a blockchainState reply describes the device's state as it is when the "
        "request is served (the simulated device's state moves with every advance / ancestor "
        "update / reset exchange, some advances being refused by the device); every client "
        "gets exactly one reply. distinct = distinct service orders "
        "(sequence of client ids as served) over rounds; non-trivial = rounds in which >= 2 "
        "requests were pending at the same time. Slow-request rounds make one blockchainState "
        "take 6.5 s (thorough: also 12, 32, 62, 125 s) while other clients queue, so that a "
        "server that gives up on a long request and moves on is exposed. Link-fault rounds break "
        "the link at a seeded exchange and let the next 1..3 reconnections find no device while "
        "three clients keep sending, fall silent for 1.3..2.4 s and resume: any exchange performed outside a request "
        "(e.g. by a background retry) belongs to no interval and is reported. Late-answer rounds "
        "reach the signer over the TCP transport (a byte stream) and make one answer take "
        "10.5..61 s of virtual time: an answer that is given up on still arrives and would be "
        "read as the answer to the next exchange. Slow-sender rounds have clients that connect "
        "and send their request line 0.3..0.8 s later, whole or in two pieces")
RULE_ADDED = (
              'Also: link-fault rounds with unplug / silence / replug; rounds over the TCP transport '
              'with an answer later than the socket time-out would be; slow senders; a failing '
              'uiHeartbeat followed by 7.5..12 s of steady traffic; device state as a function of an '
              'epoch, advances refused by the device '
              ' '
              'Round 8: every other round the manager is bound to the name localhost and odd cl'
              'ients try the IPv6 loopback first. '
              ' '
              'Round 9: rounds in which one request ends fatally (status word outside the powHS'
              'M ranges on getPubKey / sign) while other clients are queued. '
              ' '
              'Round 10: quiet periods of 11 s .. 1 day by the clock the manager reads (jumped '
              'while every client waits), then a version request from each client and more traf'
              'fic. '
              ' '
              'Round 11: in every other late-answer round the TCP link is first lost and made a'
              'gain after the server started; late answers of 29 / 30 / 35 / 61 s. '
              ' '
              'Round 12: rounds ended by a stop-worthy reconnection (device in an unknown mode '
              'after a link failure), version requests spread among the device requests. '
              ' '
              'Round 13: rounds in which the client of a long request hangs up while it is bein'
              'g served and others are queueing. '
              ' '
              'Round 14: rounds with the manager in legacy (--version-one) mode, plain and with'
              ' a link failure. '
              ' '
              'Round 15: rounds on the SGX platform, half of them with a quiet period and the m'
              "anager's own timers coming due 400 times sooner; more slow-sender rounds. "
              ' '
              'Round 16: the manager in its own process signalled (SIGTERM) with one request un'
              "der way and two clients queued: no command goes to the device inside another's e"
              'xchange. '
              ' '
              'Round 17: a manager serving thousands of requests (version requests by half of t'
              'he clients) with device requests queued throughout. '
              ' '
              'Round 20: rounds in which 66..257 clients (70 in the quick tier) arrive behind o'
              'ne slow request. ')
RULE = RULE + " " + RULE_ADDED.strip()
ASSUMPTIONS = [
    "schedules are those the OS produces under injected device delays; not enumerated",
    "a client whose connection times out is left open in the history (counted, not judged)",
]
FLOORS = {"quick": {"evaluations": 120, "pending_overlap_pairs": 150, "apdus_attributed": 1200,
                    "replies_matched": 120, "distinct": 4,
                    "slow_request_rounds": 1, "link_fault_rounds": 3,
                    "rounds_with_a_client_hanging_up_on_its_long_request": 2,
                    "rounds_in_legacy_mode": 6, "rounds_on_the_sgx_platform": 6,
                    "device_error_replies_in_fault_rounds": 3,
                    "state_replies_compared_with_device_state": 30,
                    "advances_refused_by_device": 10, "late_answer_rounds_over_tcp": 2, "slow_sender_rounds": 3,
                    "failed_uiheartbeat_rounds": 1},
          "thorough": {"evaluations": 15000, "pending_overlap_pairs": 100000,
                       "apdus_attributed": 200000, "replies_matched": 15000, "distinct": 300,
                       "slow_request_rounds": 5, "link_fault_rounds": 60,
                       "rounds_with_a_client_hanging_up_on_its_long_request": 40,
                       "rounds_in_legacy_mode": 100, "rounds_on_the_sgx_platform": 100,
                       "device_error_replies_in_fault_rounds": 100,
                       "state_replies_compared_with_device_state": 3000,
                       "advances_refused_by_device": 1000, "late_answer_rounds_over_tcp": 40, "slow_sender_rounds": 40}}


def shards(tier, seed):
    if tier == "quick":
        return [{"seed": seed * 100 + i, "rounds": 2, "max_clients": 8, "per_client": 3,
                 "slow": [6.5] if i == 0 else [],
                 "impatient": [3.5] if i in (1, 2) else [],
                 "v1_rounds": 2 if i in (0, 3, 6, 7) else 0,
                 "sgx_rounds": 2 if i in (1, 2, 4, 5) else 0,
                 "long_lived_rounds": 1 if i in (2, 5) else 0,
                 "fault_rounds": 1 if 1 <= i <= 3 else 0,
                 "late": [12.5, 35.0] if i in (4, 5) else [],
                 "slowsend_rounds": 2 if i in (4, 5, 6, 7) else 0,
                 "fatal_rounds": 4 if i in (3, 4, 6, 7) else 0,
                 "quiet": [31.0, 601.0] if i in (0, 1, 5) else [],
                 "uihb_tail": [12.5] if i == 2 else [],
                 "crowd": [70] if i == 7 else []} for i in range(8)]
    slow = {0: [6.5], 1: [12.0], 2: [32.0], 3: [62.0], 4: [125.0]}
    return [{"seed": seed * 100 + i, "rounds": 60, "max_clients": 16, "per_client": 4,
             "slow": slow.get(i, []), "impatient": [3.5, 6.5, 12.0], "v1_rounds": 8, "sgx_rounds": 8,
             "long_lived_rounds": 2,
             "fault_rounds": 6 if i >= 5 else 0,
             "late": [10.5, 35.0, 12.5, 61.0, 30.0, 29.0] if i >= 5 else [],
             "slowsend_rounds": 3, "fatal_rounds": 8,
             "quiet": [11.0, 31.0, 61.0, 301.0, 3601.0, 86401.0],
             "uihb_tail": [12.5, 21.0] if i < 5 else [],
             "crowd": [[66, 70], [101, 130], [257]][i % 3] if i >= 8 else []}
            for i in range(16)]


class Recorder:
    def __init__(self):
        self.lock = threading.Lock()
        self.ev = []
        self.ctx = threading.local()

    def add(self, kind, **kw):
        with self.lock:
            kw["k"] = kind
            kw["n"] = len(self.ev)
            kw["th"] = threading.get_ident()
            self.ev.append(kw)


class JumpClock:
    """stands in for the name `time` in the middleware's modules: the real clock plus an
    offset that the harness moves (a quiet period of minutes passes in no time)"""

    def __init__(self):
        self.offset = 0.0
        self._saved = []

    def time(self):
        return time.time() + self.offset

    def monotonic(self):
        return time.monotonic() + self.offset

    def sleep(self, dt):
        time.sleep(dt)

    def __getattr__(self, name):
        return getattr(time, name)

    def install(self):
        import sys
        mw = env.MIDDLEWARE
        for name, mod in list(sys.modules.items()):
            f = getattr(mod, "__file__", None) or ""
            if f.startswith(mw) and getattr(mod, "time", None) is time:
                self._saved.append(mod)
                mod.time = self

    def uninstall(self):
        for mod in self._saved:
            mod.time = time
        self._saved = []


def make_requests(rng, v1=False):
    if v1:
        # legacy (--version-one) mode: getPubKey, sign (hash form) and version
        return [
            ("pubkey", lambda: {"command": "getPubKey", "version": 1,
                                "keyId": rng.choice(ALL_PATHS)}),
            ("pubkey", lambda: {"command": "getPubKey", "version": 1,
                                "keyId": rng.choice(ALL_PATHS)}),
            ("signhash", lambda: rq.sign_hash_request(ALL_PATHS[3], rng.randbytes(32),
                                                      version=1)),
            ("version", lambda: {"command": "version"}),
        ]
    tx = btctx.gen_tx(rng, max_in=3, max_out=2)
    blocks = [gb.gen_block(rng, 19, tiny=True), gb.gen_block(rng, 20, tiny=True)]
    bros = [[gb.gen_block(rng, 19, tiny=True)], []]
    return [
        ("sign", lambda: rq.sign_auth_request(ALL_PATHS[0], tx["raw"], 0,
                                              rq.gen_receipt(rng, "long"),
                                              [rng.randbytes(60), rng.randbytes(90)])),
        ("advance", lambda: {"command": "advanceBlockchain", "version": 5,
                             "blocks": [b["raw"].hex() for b in blocks],
                             "brothers": [[x["raw"].hex() for x in bl] for bl in bros]}),
        ("state", lambda: {"command": "blockchainState", "version": 5}),
        ("state", lambda: {"command": "blockchainState", "version": 5}),
        # three blocks: the simulated device refuses these at the second block
        # (chaining mismatch), which changes its blockchain state like any other advance
        ("advance_refused", lambda: {"command": "advanceBlockchain", "version": 5,
                                     "blocks": [b["raw"].hex() for b in blocks + blocks[:1]],
                                     "brothers": [[], [], []]}),
        ("heartbeat", lambda: {"command": "signerHeartbeat", "version": 5,
                               "udValue": rng.randbytes(16).hex()}),
        ("pubkey", lambda: {"command": "getPubKey", "version": 5,
                            "keyId": rng.choice(ALL_PATHS)}),
        ("signhash", lambda: rq.sign_hash_request(ALL_PATHS[3], rng.randbytes(32))),
    ]


def fresh_device(rng, platform="ledger"):
    drng = random.Random(rng.getrandbits(32))

    def sigs():
        while True:
            yield der.make_sig(drng, "normal")[0]
    dev = SimDevice(platform=platform, mode=MODE_SIGNER,
                    pubkeys={path_to_binary(p): b"\x04" + bytes(64) for p in ALL_PATHS},
                    hb={"signature": b"", "message": lambda ud: b"HSM:SIGNER:HB:" + ud,
                        "tweak": drng.randbytes(32), "pubkey": drng.randbytes(65)},
                    chunk=ChunkPolicy("const", 40), signatures=sigs())

    def pubkey(d, apdu):
        return drng.randbytes(65)

    # the device's blockchain state is a function of an epoch that moves on with every
    # exchange of an advance / ancestor update / reset (as on the real device, only
    # those commands change it); state requests read the state of the current epoch
    dev.state_epoch = 0
    salt = drng.randbytes(8)

    def state_value(epoch, what):
        import hashlib
        return hashlib.sha256(salt + b"%d|%d" % (epoch, what)).digest()
    dev.state_value = state_value

    def state(d, apdu):
        if len(apdu) > 3 and apdu[2] == 1:
            return bytes([0x80, 0x20, 1, apdu[3]]) + state_value(d.state_epoch, apdu[3])
        if len(apdu) > 2 and apdu[2] == 2:
            return bytes([0x80, 0x20, 2]) + state_value(d.state_epoch, 0x100)[:20]
        return None
    dev.adv_policy = {"reject_if_count": {3: (2, 0x6B87 + 19)}}

    def hb(d, apdu):
        if len(apdu) > 2 and apdu[2] == 2 and d.hb.get("ready"):
            return bytes([0x80, 0x60, 2]) + der.make_sig(drng, "normal")[0]
        return None
    dev.extra[0x04] = pubkey
    dev.extra[0x20] = state
    dev.extra[0x60] = hb
    return dev


def expected_from_apdus(kind, apdus):
    """what the reply must carry, from the answers the device gave inside this
    request's own block of exchanges"""
    exp = {}
    if kind == "pubkey":
        d = [a for a in apdus if a["apdu"][1] == 0x04]
        if d:
            exp["pubKey"] = d[-1]["data"].hex()
    elif kind in ("sign", "signhash"):
        d = [a for a in apdus if a["apdu"][1] == 0x02 and len(a["data"]) > 2 and
             a["data"][2] == 0x81]
        if d:
            rs = der.parse_sig(d[-1]["data"][3:])
            exp["signature"] = {"r": rs[0], "s": rs[1]}
    elif kind == "state":
        names = {1: "best_block", 2: "newest_valid_block", 3: "ancestor_block",
                 5: "ancestor_receipts_root"}
        st = {}
        for a in apdus:
            if a["apdu"][1] == 0x20 and a["apdu"][2] == 1 and a["apdu"][3] in names:
                st[names[a["apdu"][3]]] = a["data"][4:].hex()
        exp["state_subset"] = st
    elif kind == "heartbeat":
        d = [a for a in apdus if a["apdu"][1] == 0x60 and a["apdu"][2] == 2]
        if d:
            rs = der.parse_sig(d[-1]["data"][3:])
            exp["signature"] = {"r": rs[0], "s": rs[1]}
        m = [a for a in apdus if a["apdu"][1] == 0x60 and a["apdu"][2] == 3]
        if m:
            exp["message"] = m[-1]["data"][3:].hex()
    return exp


def run_round(acc, spec, rnd, rng, slow=None, fault=None, late=None, slowsend=False,
              uihb_tail=None, fatal=None, quiet=None, impatient=None, v1=False, plat=None,
              long_lived=None, crowd=None):
    """fault: {"after": k, "efail": j, "kind": ...} - the link fails at the k-th exchange
    of the round and the next j reconnections find no device; clients keep sending for
    some seconds, so that any repair work done outside a request (a background retry)
    shows up as exchanges that belong to no request.
    slow: total seconds one blockchainState request is made to take (a request that
    outlasts any per-request time-out a server might have) while other clients queue"""
    from ..stack import Stack
    from comm.server import TCPServer
    rec = Recorder()
    # late: the signer is reached over TCP (a byte stream) and one of its answers takes
    # `late` seconds of virtual time; should anything give up on that answer, it still
    # arrives on the stream and must not be taken for the answer to a later exchange
    dev = fresh_device(rng, plat or ("tcp" if late else "ledger"))
    if plat == "sgx":
        dev.unlocked = True
    if uihb_tail:
        # uihb_tail: a uiHeartbeat that fails after the signer was left (the device does not
        # return from the heartbeat app at once), then `uihb_tail` seconds of steady
        # traffic: whatever the manager does about the stranded device, and whenever, it
        # may not happen between the exchanges of somebody's request
        dev.uihb = {"signature": der.make_sig(random.Random(1), "normal")[0],
                    "message": b"HSM:UI:HB:" + bytes(40), "tweak": bytes(32),
                    "pubkey": bytes(65)}
        dev.cfg["hb_back_mode"] = 0x04
        # ... and, before that, an advance that ends in partial success (left unfinished)
        dev.adv_policy = dict(dev.adv_policy, final="partial")
        fault = fault or {"tolerate_only": True}
    slow = slow or (0.001 if late else None)
    nclients = rng.randint(2, spec["max_clients"]) if not slow else 3
    if slowsend:
        nclients = spec["max_clients"]
    per = spec["per_client"] if not slow else 2
    if fault:
        nclients, per = 3, 7
    if long_lived:
        nclients = 4
    if crowd:
        # crowd: that many clients (more than any round number of pending requests a server
        # may have been sized for: 64, 100, 128) arrive while one slow request is served
        nclients, per = crowd, 1
    case = {"seed": spec["seed"], "round": rnd}
    with Stack(dev, version_one=v1) as s:
        delay_rng = random.Random(rng.getrandbits(32))

        def hook(bus, apdu):
            if fatal and fatal.get("interrupt") and bus.n_apdu - 1 == fatal["after"]:
                dev.mode = 0x07
            if len(apdu) > 1 and apdu[1] in (0x10, 0x30, 0x21):
                dev.state_epoch += 1
            if late and len(apdu) > 3 and apdu[1] == 0x20 and apdu[2] == 1 and \
                    not getattr(bus, "late_done", False):
                bus.late_done = True
                bus.next_answer_delay = late
            elif slow and len(apdu) > 1 and apdu[1] == 0x20:
                time.sleep(slow / 9.0)
            elif slowsend:
                time.sleep(0.004 + delay_rng.random() * 0.008)
            elif fault or fatal:
                time.sleep(0.002 + delay_rng.random() * 0.006)
            else:
                time.sleep(delay_rng.random() * 0.002)
        s.bus.exchange_hook = hook
        s.bus.tag_fn = lambda: getattr(rec.ctx, "rid", None)
        orig = s.protocol.handle_request

        def wrapped(request):
            rid = request.get("_rid") if isinstance(request, dict) else None
            rec.ctx.rid = rid
            rec.add("begin", rid=rid, epoch=dev.state_epoch)
            try:
                return orig(request)
            finally:
                rec.add("end", rid=rid)
                rec.ctx.rid = None
        s.protocol.handle_request = wrapped
        # mirror bus APDU events into the recorder's order
        orig_log = s.bus.log

        def log(kind, **kw):
            e = orig_log(kind, **kw)
            if kind == "apdu":
                rec.add("apdu", rid=e.get("tag"), e=e)
            return e
        s.bus.log = log

        sock = socket.socket()
        sock.bind(("127.0.0.1", 0))
        port = sock.getsockname()[1]
        sock.close()
        # every other round the manager is bound to the name "localhost" (the default of
        # its --bind option) rather than to the address; odd clients then try the IPv6
        # loopback first and fall back to IPv4, as a resolver that lists ::1 first would:
        # however many listeners there are, there is one device
        by_name = (rnd % 2 == 0)
        srv = TCPServer("localhost" if by_name else "127.0.0.1", port, s.protocol)
        t = threading.Thread(target=lambda: _quiet(srv.run), daemon=True)
        t.start()
        t0 = time.time()
        while srv.server is None and time.time() - t0 < 10:
            time.sleep(0.002)
        bring_up = len(s.bus.events)
        gens = make_requests(rng, v1)
        if plat == "sgx":
            # (no signer heartbeat on SGX)
            gens = [g_ for g_ in gens if g_[0] != "heartbeat"]
        results = {}
        plan = {}
        for c in range(nclients):
            crng = random.Random(rng.getrandbits(32))
            plan[c] = [(crng.choice(gens)) for _ in range(per)]
            if slow:
                byname = dict(gens)
                plan[c] = [("state", byname["state"])] if c == 0 else \
                    [("signhash", byname["signhash"]), ("pubkey", byname["pubkey"])]
                if crowd and c > 0:
                    plan[c] = [plan[c][c % 2]] if plat == "sgx" or c % 3 else \
                        [("heartbeat", byname["heartbeat"])]
            if slowsend:
                # even clients: prompt senders of long multi-exchange requests, so that
                # the device is busy most of the time; odd clients: the late senders
                byname = dict(gens)
                plan[c] = [(k, byname[k]) for k in (["sign", "advance"] * 4 if c % 2 == 0
                                                    else ["state", "pubkey", "heartbeat"])]
            if uihb_tail:
                byname = dict(gens)
                steady = [(k, byname[k]) for k in ("state", "sign", "heartbeat", "state",
                                                   "pubkey")]
                plan[c] = [steady[(c + j) % len(steady)] for j in range(int(uihb_tail / 0.25))]
                if c == 0:
                    plan[c] = [("advance", byname["advance"]),
                               ("uihb", lambda: {"command": "uiHeartbeat", "version": 5,
                                                 "udValue": "33" * 32})] + plan[c]
        if long_lived:
            # a manager that has been up for a while: half of the clients fire version
            # requests (they need no device, so thousands go by in seconds) while the others
            # keep device requests queued - whatever the manager does every so many requests
            # (a round number of them, a power of two), it does not do it inside a request
            byname = dict(gens)
            for c in range(nclients):
                if c % 2 == 0:
                    plan[c] = [("version", lambda: {"command": "version"})] * (
                        long_lived // max(1, (nclients + 1) // 2))
                else:
                    plan[c] = [(k, byname[k]) for k in ("heartbeat", "state", "pubkey",
                                                        "signhash")] * 12
        if fatal and fatal.get("interrupt"):
            # (version requests - which need no device - are spread among the others: they
            # are answered normally whatever the link's state)
            for c in range(nclients):
                mixed = []
                for entry in plan[c] + plan[c]:
                    mixed.append(entry)
                    mixed.append(("version", lambda: {"command": "version"}))
                plan[c] = mixed
        jump = None
        if quiet:
            # quiet: after some traffic nothing happens for `quiet` seconds - by the clock
            # the manager reads (the name `time` in its modules), which jumps ahead while
            # every client waits at a barrier - then each client sends a `version` request
            # (what nodes poll with) and goes on with device requests.  Whatever the manager
            # schedules by the clock, requests do not meet on the device.
            for c in range(nclients):
                plan[c] = plan[c][:2] + [("jump", None), ("version", lambda: {
                    "command": "version"})] + plan[c][2:] + plan[c][:2]
            jc = JumpClock()
            jc.install()
            # ... and whatever the manager schedules with timers of its own (keep-alives,
            # watchdogs of a minute or more) comes due 400 times sooner: what would fire
            # after the quiet period fires while the clients are back
            real_timer = threading.Timer

            def scaled_timer(interval, function, args=None, kwargs=None):
                rec.add("timer", seconds=interval)
                return real_timer(interval / 400.0 if interval >= 5 else interval, function,
                                  args, kwargs)
            threading.Timer = scaled_timer

            def _jump():
                jc.offset += quiet
                rec.add("clock-jump", seconds=quiet)
            jump = threading.Barrier(nclients, action=_jump)
        relinked = False
        if late and rnd % 2 == 1:
            # in every other late-answer round the link to the signer is first lost and
            # made again (a link made after the server has started is made in whatever
            # state the process is in by then - default socket options included)
            from ..simdev.transport import Fault
            s.bus.tcp_faults_as_hid = True
            for j, flt in enumerate(({0: Fault("read_error")}, {})):
                s.bus.arm(flt)
                try:
                    cs = socket.create_connection(("127.0.0.1", port), timeout=30)
                    cs.sendall(json.dumps({"command": "blockchainState", "version": 5,
                                           "_rid": "r%d.pre.%d" % (rnd, j)}).encode() + b"\n")
                    cs.makefile("rb").readline()
                    cs.close()
                except OSError:
                    pass
            s.bus.arm({})
            relinked = s.bus.handle_seq >= 2
            if relinked:
                acc.count("late_answer_rounds_on_a_link_made_again_after_start")
        barrier = threading.Barrier(nclients)
        ssrng = random.Random(rng.getrandbits(32))
        if slowsend:
            acc.count("slow_sender_rounds")
        if uihb_tail:
            acc.count("failed_uiheartbeat_rounds")
            pause = random.Random(rng.getrandbits(32))
        elif fault:
            from ..simdev.transport import Fault
            s.bus.arm({fault["after"]: Fault(fault["kind"])})
            # efail None: the device stays unplugged until the clients fall silent and
            # is plugged back at the start of the silence
            s.bus.enumerate_fail = fault["efail"] if fault["efail"] else 10**9
            pause = random.Random(rng.getrandbits(32))
            if not fault["efail"]:
                def replug():
                    time.sleep(0.7)
                    s.bus.enumerate_fail = 0
                threading.Thread(target=replug, daemon=True).start()

        if fatal:
            # fatal: one request ends in a way that makes the manager shut down (the device
            # answers a getPubKey / sign with a status word that is not a powHSM one) while
            # other clients are connected and waiting: whatever the manager does on its way
            # out, it does not touch the device next to a request being served
            from ..simdev.transport import Fault
            if fatal.get("interrupt"):
                # ... or: the link fails and what is there afterwards is a device in a mode
                # the bring-up answers with "stop" - the request that runs into that repair
                # gets no verdict of its own (and certainly nobody else's reply)
                s.bus.arm({fatal["after"]: Fault("read_error")})
            else:
                s.bus.arm_cmd({fatal["cmd"]: Fault("sw", sw=fatal["sw"])})

        def client(c):
            try:
                barrier.wait(timeout=20)
            except threading.BrokenBarrierError:
                pass
            if slow and c > 0:
                time.sleep(0.3 * c if not crowd else 0.15 + 0.004 * c)
            t_start = time.time()
            for i, (kind, mk) in enumerate(plan[c]):
                if kind == "jump":
                    try:
                        jump.wait(timeout=60)
                    except threading.BrokenBarrierError:
                        pass
                    continue
                if uihb_tail:
                    time.sleep(0.15 + pause.random() * 0.2)
                elif fault:
                    # three quick requests each (the fault and the failed reconnections
                    # happen here), then every client stays silent for `gap` seconds with
                    # the device back, then traffic resumes
                    time.sleep(0.02 + pause.random() * 0.1)
                    if i == 3:
                        time.sleep(max(0.0, t_start + 0.6 + fault["gap"] - time.time()))
                rid = "r%d.c%d.%d" % (rnd, c, i)
                req = mk()
                req["_rid"] = rid
                line = json.dumps(req).encode() + b"\n"
                rec.add("call", rid=rid, client=c)
                data = None
                try:
                    cs = None
                    for addr in (("::1", "127.0.0.1") if by_name and c % 2 == 1
                                 else ("127.0.0.1",)):
                        try:
                            cs = socket.create_connection((addr, port),
                                                          timeout=60 + (slow or 0))
                            if addr == "::1":
                                rec.add("ipv6", rid=rid, client=c)
                            break
                        except OSError:
                            if addr == "127.0.0.1":
                                raise
                    if by_name and c % 2 == 1:
                        rec.add("tried-ipv6-first", rid=rid, client=c)
                    cs.settimeout(60 + (slow or 0))
                    if slowsend and c % 2 == 1:
                        # connected, but the request line comes later (in one piece or in
                        # two): whatever the server does with such a client meanwhile,
                        # requests may not meet on the device
                        time.sleep(0.3 + ssrng.random() * 0.5)
                        if ssrng.random() < 0.5:
                            cs.sendall(line[:len(line) // 2])
                            time.sleep(0.3)
                            line = line[len(line) // 2:]
                    cs.sendall(line)
                    if impatient and c == 0:
                        # the client of the long request gives up waiting and hangs up; its
                        # request is still being served (left open in the history): nobody
                        # else's may meet it on the device
                        time.sleep(impatient)
                        cs.close()
                        rec.add("open", rid=rid, client=c)
                        results[rid] = ("timeout", kind, "hung up after %.1fs" % impatient)
                        continue
                    data = b""
                    while True:
                        ch = cs.recv(65536)
                        if not ch:
                            break
                        data += ch
                    cs.close()
                except OSError as e:
                    data = None
                    results[rid] = ("timeout", kind, repr(e))
                    rec.add("open", rid=rid, client=c)
                    continue
                rec.add("return", rid=rid, client=c)
                results[rid] = ("ok", kind, data)
        threads = [threading.Thread(target=client, args=(c,), daemon=True)
                   for c in range(nclients)]
        for th in threads:
            th.start()
        for th in threads:
            th.join(180 + 3 * (slow or 0))
        if quiet:
            # (anything scheduled by the clock gets its chance before the server goes)
            time.sleep(0.5)
        if srv.server is not None:
            srv.server.shutdown()
        t.join(10)
        if quiet:
            jc.uninstall()
            threading.Timer = real_timer
        # (process-wide socket defaults are not the harness's to keep from round to round)
        socket.setdefaulttimeout(None)
        alive = any(th.is_alive() for th in threads)

    # ------------------------------------------------------------ checking --
    def bad(mech, **d):
        d.update(clients=nclients, per_client=per)
        acc.violation(mech, d, case)

    if alive:
        acc.count("rounds_with_stuck_clients")
    if s.bus.max_inflight > 1:
        bad("device-in-flight-counter-%d" % s.bus.max_inflight)
    # (a) intervals + contiguity, on the recorder's total order
    cur = None
    order = []
    blocks = {}
    epochs = {}
    threads_seen = set()
    for e in rec.ev:
        if e["k"] == "begin":
            epochs[e["rid"]] = e.get("epoch")
            if cur is not None:
                bad("request-began-inside-another", inside=cur, began=e["rid"])
                break
            cur = e["rid"]
            order.append(cur)
            blocks[cur] = []
        elif e["k"] == "end":
            if cur != e["rid"]:
                bad("request-ended-out-of-order", cur=cur, ended=e["rid"])
                break
            cur = None
        elif e["k"] == "apdu":
            if not order and e["rid"] is None:
                continue     # bring-up exchanges, before any request was served
            threads_seen.add(e["th"])
            if cur is None or e["rid"] != cur:
                bad("apdu-outside-its-request-interval", cur=cur, apdu_rid=e["rid"])
                break
            blocks[cur].append(e["e"])
            acc.count("apdus_attributed")
        elif e["k"] == "tried-ipv6-first":
            acc.count("requests_that_tried_the_ipv6_loopback_first")
        elif e["k"] == "ipv6":
            acc.count("requests_served_over_ipv6")
    # the request whose exchange got the status word that stops the manager: whatever its
    # client is told, it is not a success (there is no answer of the device to build one from)
    stopping = None
    if fatal:
        for e in rec.ev:
            if e["k"] != "apdu" or not e["e"].get("apdu"):
                continue
            a_, d_ = e["e"]["apdu"], e["e"].get("data")
            if (not fatal.get("interrupt") and a_[1] == fatal["cmd"]) or \
                    (fatal.get("interrupt") and a_[1] == 0x43 and d_ and len(d_) >= 2 and
                     d_[1] == 0x07):
                # (the exchange that got the stopping status word / the mode query of a
                # repair that found a device it stops for)
                stopping = e["rid"]
                break
        if stopping in results and results[stopping][0] == "ok":
            acc.count("stopping_requests_judged")
            try:
                rep_ = json.loads(results[stopping][2].decode())
            except Exception:
                rep_ = None
            if isinstance(rep_, dict) and rep_.get("errorcode") in (0, 1):
                bad("stopping-request-answered-with-a-success-reply", rid=stopping,
                    reply=json.dumps(rep_)[:200])
            elif isinstance(rep_, dict) and rep_.get("errorcode") not in (None, -905, -906, -2):
                # (nor a verdict about arguments or blocks: it got as far as the device, and
                # the device gave none)
                bad("stopping-request-answered-with-a-verdict-that-is-not-its-own", rid=stopping,
                    reply=json.dumps(rep_)[:200])
    # (c)+(d) replies
    for rid, (status, kind, data) in sorted(results.items()):
        acc.evaluations += 1
        if status != "ok":
            acc.count("client_timeouts_left_open")
            continue
        if data.count(b"\n") != 1:
            bad("client-got-%d-lines" % data.count(b"\n"), rid=rid)
            continue
        try:
            reply = json.loads(data.decode())
        except Exception:
            bad("client-got-unparseable-reply", rid=rid, data=data[:100].decode("latin1"))
            continue
        if kind == "version":
            acc.count("version_requests_after_a_quiet_period" if quiet else
                      "version_requests_among_device_requests")
            if reply.get("errorcode") != 0 or blocks.get(rid):
                bad("version-request-not-answered-plainly", rid=rid, reply=reply,
                    own_exchanges=len(blocks.get(rid, [])))
            continue
        if kind == "advance_refused":
            acc.count("advances_refused_by_device")
            if reply.get("errorcode") != -201 and not (
                    (fault or fatal) and reply.get("errorcode") in (-905, None)):
                bad("refused-advance-not-reported", rid=rid, reply=reply)
            continue
        if kind == "state" and reply.get("errorcode") == 0 and epochs.get(rid) is not None:
            # whatever the manager does internally, the reply describes the device as it
            # is when the request is served (nothing else can change it meanwhile)
            names = {1: "best_block", 2: "newest_valid_block", 3: "ancestor_block",
                     5: "ancestor_receipts_root"}
            acc.count("state_replies_compared_with_device_state")
            for hid, nm in names.items():
                if reply.get("state", {}).get(nm) != dev.state_value(epochs[rid], hid).hex():
                    bad("state-reply-is-not-the-device-state-at-that-time", rid=rid,
                        field=nm, own_exchanges=len(blocks.get(rid, [])))
                    break
            else:
                acc.count("replies_matched")
            continue
        if fatal and reply == {}:
            acc.count("requests_ended_without_a_verdict_by_a_stopping_manager")
            continue
        if fatal and reply.get("errorcode") not in (0, 1):
            acc.count("error_replies_in_rounds_ended_by_a_fatal_request")
            continue
        if fault and reply.get("errorcode") == (-2 if v1 else -905):
            # the faulted request and those that found no device while reconnecting
            acc.count("device_error_replies_in_fault_rounds")
            continue
        if reply.get("errorcode") not in (0, 1):
            bad("request-failed-under-concurrency:%s" % kind, rid=rid, reply=reply)
            continue
        exp = expected_from_apdus(kind, [a for a in blocks.get(rid, []) if a["apdu"]])
        ok = True
        for k, v in exp.items():
            if k == "state_subset":
                for f, hv in v.items():
                    if reply.get("state", {}).get(f) != hv:
                        ok = False
            elif reply.get(k) != v:
                ok = False
        if not ok or (kind != "advance" and not exp):
            bad("reply-does-not-carry-own-request-data:%s" % kind, rid=rid,
                reply=json.dumps(reply)[:300], expected=exp)
            continue
        acc.count("replies_matched")
    # concurrency actually offered: pairs of client operations pending together
    calls = {}
    pend = 0
    open_now = set()
    for e in rec.ev:
        if e["k"] == "call":
            pend += len(open_now)
            open_now.add(e["rid"])
        elif e["k"] in ("return", "open"):
            open_now.discard(e["rid"])
    acc.count("pending_overlap_pairs", pend)
    if pend > 0:
        acc.distinct.add("order:" + ",".join(r.split(".", 1)[1] for r in order))
    acc.counters["max_server_threads_touching_device"] = max(
        acc.counters.get("max_server_threads_touching_device", 0), len(threads_seen))
    if len(acc.samples) < 2:
        acc.sample({"clients": nclients, "requests": len(results),
                    "service_order": order[:24], "pending_pairs": pend,
                    "apdus": sum(len(b) for b in blocks.values())})


def signalled_with_a_queue(acc, rng):
    """the manager in its own process (its real entry path, a device that takes 0.15 s of
    real time over every answer); one client's state request is under way, a second client
    has connected and sent its request, and the process is sent SIGTERM.  Whatever the
    manager does on its way out, it does not start on the second request inside the first."""
    import os
    import sys
    import signal
    import subprocess
    import tempfile
    import shutil
    from . import c03
    sock = socket.socket()
    sock.bind(("127.0.0.1", 0))
    port = sock.getsockname()[1]
    sock.close()
    tmp = tempfile.mkdtemp(prefix="pv-c03-mgr-")
    logp = os.path.join(tmp, "nested.log")
    envv = dict(os.environ, PYTHONHASHSEED="0", PYTHONDONTWRITEBYTECODE="1",
                PV_SLOW_EXCHANGES="0.15", PV_MGR_TMP=tmp, PV_APDU_LOG=logp)
    child = subprocess.Popen([sys.executable, "-m", "pv.props.c03", "--manager-child",
                              str(port), "0"], cwd=env.VERIF, env=envv,
                             stdout=subprocess.DEVNULL, stderr=subprocess.DEVNULL)
    try:
        t0 = time.time()
        up = False
        while time.time() - t0 < 30 and child.poll() is None:
            if c03._client(port, b'{"command":"version"}\n'):
                up = True
                break
            time.sleep(0.1)
        if not up:
            acc.notes.append("signalled manager (queue) did not come up")
            return
        acc.count("managers_signalled_with_a_client_queued")
        acc.evaluations += 1
        socks = []
        for line in (b'{"command":"blockchainState","version":5}\n',
                     b'{"command":"signerHeartbeat","version":5,"udValue":"%s"}\n' %
                     (b"11" * 16),
                     b'{"command":"getPubKey","version":5,"keyId":"m/44\'/0\'/0\'/0/0"}\n'):
            cs = socket.create_connection(("127.0.0.1", port), timeout=30)
            cs.sendall(line)
            socks.append(cs)
            time.sleep(0.2 + rng.random() * 0.2)
        child.send_signal(signal.SIGTERM)
        try:
            child.wait(20)
        except subprocess.TimeoutExpired:
            pass
        for cs in socks:
            try:
                cs.close()
            except OSError:
                pass
        nested = open(logp).read() if os.path.exists(logp) else ""
        if "nested" in nested:
            acc.violation("command-sent-to-the-device-inside-another-requests-exchange:after-SIGTERM",
                          {"log": nested[:200]}, {"kind": "signal-queue"})
    finally:
        if child.poll() is None:
            child.kill()
        child.wait(10)
        shutil.rmtree(tmp, ignore_errors=True)


def _quiet(fn):
    try:
        fn()
    except BaseException:   # noqa
        pass


def run_shard(spec, acc):
    env.setup()
    rng = random.Random(spec["seed"])
    if spec["seed"] % 100 in (0, 3, 9):
        signalled_with_a_queue(acc, random.Random(spec["seed"] + 1))
    for rnd in range(spec["rounds"]):
        run_round(acc, spec, rnd, rng)
    for k, total in enumerate(spec.get("slow", [])):
        acc.count("slow_request_rounds")
        run_round(acc, spec, 1000 + k, rng, slow=total)
    for k, n_ in enumerate(spec.get("crowd", [])):
        acc.count("rounds_with_a_crowd_of_more_than_64_clients_behind_a_slow_request")
        run_round(acc, spec, 1500 + k, rng, slow=2.7, crowd=n_)
    for k, total in enumerate(spec.get("impatient", [])):
        acc.count("rounds_with_a_client_hanging_up_on_its_long_request")
        run_round(acc, spec, 8000 + k, rng, slow=total, impatient=rng.choice([0.2, 0.5, 1.2]))
    for k in range(spec.get("v1_rounds", 0)):
        # the manager in legacy (--version-one) mode: plain rounds and rounds with a link
        # failure (the repair's bring-up is the one multi-exchange dialogue of that mode)
        acc.count("rounds_in_legacy_mode")
        if k % 2 == 0:
            run_round(acc, spec, 9000 + k, rng, v1=True)
        else:
            run_round(acc, spec, 9000 + k, rng, v1=True, fault={
                "after": rng.randint(2, 8), "efail": rng.choice([None, 1]),
                "gap": rng.choice([1.3, 1.7]),
                "kind": rng.choice(["read_error", "write_error"])})
    for k in range(spec.get("sgx_rounds", 0)):
        # the SGX platform (its own dongle class): plain rounds and rounds with a quiet
        # period after which timers of the manager's own would come due
        acc.count("rounds_on_the_sgx_platform")
        if k % 2 == 0:
            run_round(acc, spec, 9500 + k, rng, plat="sgx")
        else:
            run_round(acc, dict(spec, max_clients=max(4, spec["max_clients"]), per_client=4),
                      9500 + k, rng, plat="sgx", quiet=rng.choice([110.0, 119.0, 125.0, 601.0]))
    for k in range(spec.get("long_lived_rounds", 0)):
        acc.count("rounds_on_a_manager_serving_thousands_of_requests")
        run_round(acc, dict(spec, max_clients=4), 9800 + k, rng, long_lived=2300)
    for k in range(spec.get("slowsend_rounds", 0)):
        run_round(acc, dict(spec, max_clients=6, per_client=4), 4000 + k, rng, slowsend=True)
    for k, d in enumerate(spec.get("uihb_tail", [])):
        run_round(acc, dict(spec, max_clients=3), 5000 + k, rng, uihb_tail=d)
    for k, d in enumerate(spec.get("late", [])):
        acc.count("late_answer_rounds_over_tcp")
        run_round(acc, spec, 3000 + k, rng, late=d)
    for k, q in enumerate(spec.get("quiet", [])):
        acc.count("rounds_with_a_quiet_period")
        run_round(acc, dict(spec, max_clients=max(4, spec["max_clients"]), per_client=4),
                  7000 + k, rng, quiet=q)
    for k in range(spec.get("fatal_rounds", 0)):
        acc.count("rounds_with_a_fatal_request")
        run_round(acc, dict(spec, max_clients=max(4, spec["max_clients"])), 6000 + k, rng,
                  fatal={"cmd": rng.choice([0x04, 0x04, 0x02]),
                         "sw": rng.choice([0x6E00, 0x6D02, 0x6F00])} if k % 2 == 0 else
                  {"interrupt": True, "after": rng.randint(6, 40)})
    for k in range(spec.get("fault_rounds", 0)):
        acc.count("link_fault_rounds")
        run_round(acc, spec, 2000 + k, rng, fault={
            "after": rng.randint(2, 12), "efail": rng.choice([None, None, 1, 2]) if k else None,
            "gap": rng.choice([1.3, 1.7, 2.4]),
            "kind": rng.choice(["read_error", "write_error"])})


def replay(case, acc):
    env.setup()
    if case.get("kind") == "signal-queue":
        return signalled_with_a_queue(acc, random.Random(1))
    acc.notes.append("schedules are not replayable exactly; re-running the seeded round")
    spec = {"seed": case["seed"], "rounds": case["round"] + 1, "max_clients": 16, "per_client": 4}
    run_shard(spec, acc)
