# C05 - advance / ancestor update hand the device the client's blocks intact
import random

from .. import env
from ..gen import blocks as gb
from ..simdev.device import ChunkPolicy

ID = "C05"
LEVEL = "exploration"
RULE = ("seeded generator of advanceBlockchain / updateAncestorBlock requests: 1..N block "
        "headers built from field lists (17..20 fields, tiny/regular field sizes covering RLP "
        "short and long string and list forms, plus headers whose RLP list payload - without the "
        "merge-mining fields, in the ancestor-stripped form, or whole - is exactly 54..57 or "
        "255..257 bytes long), coinbase fields built from a full coinbase "
        "transaction split at every kind of 64-byte boundary (expected hash = reversed "
        "SHA256d of the full transaction, own SHA-256), 0..10 brothers per block; simulated "
        "device policies: chunk sizes (firmware-like, constant, random, over-asking), asks or "
        "does not ask for brothers per block, stops after k blocks with partial/total success, "
        "stops reading a header early, keeps asking after a header ended. The monitor compares "
        "count, order, bytes, metadata and brother lists the device reassembled with values "
        "computed by construction (own RLP, own Keccak-256). distinct = (command, #blocks, "
        "field-count set, brother-count multiset class, chunk policy, stop rule, ask pattern); "
        "non-trivial = >= 2 blocks, or >= 1 brother list of >= 2")
RULE_ADDED = (
              'Also: 15% of the headers of a request come from a pool of headers already sent on '
              'that manager, in either role (block / brother); a fifth of the cases over the SGX / '
              'TCPSigner transport '
              ' '
              'Round 10: 12% of the cases preceded by an advance / update that came to nothing '
              '(refused by the device, timed out, last block garbage); compressed coinbases cla'
              'iming 2^29..2^60 bytes already hashed. '
              ' '
              'Round 11: the operation that came to nothing may be an advance refused for a coi'
              'nbase whose byte count overflows 64 bits. '
              ' '
              'Round 12: 15% of the cases preceded by state / parameter queries (update in prog'
              'ress, best block found ...) and resets. '
              ' '
              'Round 13: brother lists holding two headers whose hashes share their first four '
              'bytes (committed fixture found by a birthday search). '
              ' '
              'Round 15: brother lists with a repeated entry; headers around and beyond 64 KiB '
              '(65535 goes through; beyond it no success and no metadata message for that heade'
              'r). '
              ' '
              "Round 17: compressed coinbases whose midstate reads like something (SHA-256's in"
              'itial state, zeros, ones) under a non-zero count. '
              ' '
              'Round 18: requests of 10001 (4097, 20001, 65535) blocks: announced count and eve'
              'ry block. '
              ' '
              'Round 19: headers equal to an earlier one (same request or an earlier request of'
              ' the manager) in every field the block hash covers, with another merkle proof / '
              'coinbase transaction. ')
RULE = RULE + " " + RULE_ADDED.strip()
ASSUMPTIONS = [
    "simulated device + fake transports trusted; the device follows framing only",
    "blocks are canonical RLP (what rskj produces); non-canonical encodings are out of scope",
    "own Keccak-256 / SHA-256 implementations self-check against known vectors and hashlib",
]
FLOORS = {"quick": {"evaluations": 300, "headers_compared": 900, "brother_lists_compared": 150,
                    "ancestor_requests": 80, "partial_or_early_stops": 40,
                    "boundary_length_headers": 100},
          "thorough": {"evaluations": 15000, "headers_compared": 100000,
                       "brother_lists_compared": 20000, "ancestor_requests": 4000,
                       "partial_or_early_stops": 2000, "boundary_length_headers": 10000}}


def shards(tier, seed):
    if tier == "quick":
        return [{"seed": seed * 1000 + i, "n": 24, "max_blocks": 6} for i in range(16)]
    return [{"seed": seed * 1000 + i, "n": 500, "max_blocks": 40} for i in range(32)]


def gen_policy(rng):
    kind = rng.choice(["fw", "fw", "const", "const", "random", "over", "random_over"])
    k = {"fw": 80, "const": rng.choice([1, 3, 32, 80, 200, 255]),
         "over": rng.choice([80, 255]), "random": 0, "random_over": 0}[kind]
    return ChunkPolicy(kind, k, random.Random(rng.getrandbits(32)))


def run_case(acc, cseed, spec, stack_holder):
    from ..stack import Stack, signer_device
    rng = random.Random(cseed)
    case = {"seed": cseed, "spec": {"max_blocks": spec["max_blocks"]}}
    is_adv = rng.random() < 0.7
    maxb = spec["max_blocks"]
    nb = rng.choice([1, 2, 3, rng.randint(1, maxb), rng.randint(1, maxb)])
    tiny = rng.random() < 0.1
    boundary = rng.random() < 0.2
    blocks = []
    brothers = []

    pool = stack_holder.setdefault("pool", [])

    def mk(nfs):
        # a header that was already sent before on this manager, in whatever role (block
        # then brother, brother then block - an uncle of a sibling): 15% of the headers
        cands = [h for h in pool if h["nfields"] in nfs]
        if cands and rng.random() < 0.15:
            acc.count("headers_sent_again_in_another_request")
            return rng.choice(cands)
        # ... or a header sent before (in this request or an earlier one) whose every field
        # up to the merge-mining header is the same - hence the same block hash - but which
        # comes with another coinbase transaction: the metadata is about THIS coinbase
        cands = [h for h in pool + blocks + [x for bl in brothers for x in bl]
                 if h["nfields"] in nfs and h["nfields"] >= 19 and h.get("cb_hash")]
        if cands and is_adv and rng.random() < 0.08:
            acc.count("headers_with_the_block_hash_of_an_earlier_one_and_another_coinbase")
            return gb.same_header_other_coinbase(rng, rng.choice(cands))
        # boundary: one of the header's RLP list payloads sits exactly where the
        # list prefix changes form (54..57, 255..257 bytes)
        if boundary and rng.random() < 0.6:
            acc.count("boundary_length_headers")
            return gb.gen_boundary_block(rng, rng.choice(nfs))
        return gb.gen_block(rng, rng.choice(nfs), tiny=tiny)
    for _ in range(nb):
        if is_adv:
            blocks.append(mk([19, 20]))
            nbro = rng.choice([0, 0, 1, 2, 3, 10, rng.randint(0, 10)])
            if nb > 10:
                nbro = rng.choice([0, 0, 0, 1, 2])
            bl_ = [mk([19, 20]) for _ in range(nbro)]
            if rng.random() < 0.08:
                # two brothers whose hashes share their first four bytes (a pair in 2^32 -
                # somebody mining uncles can afford it): the order is that of the whole hash
                bl_ = bl_[:8] + gb.brothers_sharing_hash_prefix(rng)
                rng.shuffle(bl_)
                acc.count("brother_lists_with_two_hashes_sharing_their_first_4_bytes")
            if bl_ and len(bl_) < 10 and rng.random() < 0.05:
                # the same brother listed twice: a list is a list (the device's business)
                bl_.insert(rng.randrange(len(bl_) + 1), rng.choice(bl_))
                acc.count("brother_lists_with_a_repeated_entry")
            brothers.append(bl_)
        else:
            blocks.append(mk([17, 18, 19, 20]))
    if nb >= 2 and rng.random() < 0.06:
        # the same header twice in one request (each occurrence with the brothers the client
        # listed for it): what the device makes of it is the device's business
        i_, j_ = rng.sample(range(nb), 2)
        blocks[j_] = blocks[i_]
        acc.count("requests_holding_the_same_header_twice")
    for h in blocks + [x for bl in brothers for x in bl]:
        if len(pool) < 60:
            pool.append(h)
        else:
            pool[rng.randrange(60)] = h
    pol = {}
    stop = None
    r = rng.random()
    if r < 0.25 and nb > 1:
        stop = (rng.randint(1, nb - 1), rng.choice(["partial", "total"]) if is_adv else "total")
        pol["stop_after"] = stop
    elif r < 0.35 and is_adv:
        pol["final"] = "partial"
    if rng.random() < 0.15:
        pol["header_stop"] = {rng.randrange(nb): rng.choice([1, 10, 80, 100])}
    if rng.random() < 0.15:
        pol["late"] = rng.choice([1, 2, 3, 4, 6, 12])
    ask_mask = [rng.random() < 0.7 for _ in range(nb)]
    pol["ask_brothers"] = lambda i, m=ask_mask: m[i]
    chunk = gen_policy(rng)

    # transport: Ledger HID mostly, SGX / TCPSigner (TCP transport, own dongle classes)
    # for a fifth of the cases
    plat = rng.choice(["ledger", "ledger", "ledger", "ledger", "sgx", "tcp"])
    hk = "s:" + plat
    st = stack_holder.get(hk)
    if st is None:
        dev = signer_device(platform=plat)
        if plat == "sgx":
            dev.unlocked = True
        s = Stack(dev)
        s.__enter__()
        s.initialize()
        stack_holder[hk] = st = (s, dev)
    s, dev = st
    if plat != "ledger":
        acc.count("cases_over_tcp_transport")
    dev.chunk = chunk
    dev.adv_policy = pol
    if is_adv:
        req = {"command": "advanceBlockchain", "version": 5,
               "blocks": [b["raw"].hex() for b in blocks],
               "brothers": [[x["raw"].hex() for x in bl] for bl in brothers]}
    else:
        req = {"command": "updateAncestorBlock", "version": 5,
               "blocks": [b["raw"].hex() for b in blocks]}
        acc.count("ancestor_requests")
    if rng.random() < 0.15:
        # queries before this request told the manager about the device's state (an update
        # in progress, best block found or not ...), possibly followed by a reset: what
        # the manager learnt then says nothing about what the device asks for now
        fw_ids = [0x01, 0x02, 0x03, 0x05, 0x81, 0x82, 0x84]
        dev.state = {"hashes": {h_: rng.randbytes(32) for h_ in fw_ids},
                     "difficulty": rng.getrandbits(100),
                     "flags": rng.choice([(1, 0, 1), (1, 0, 1), (1, 1, 1), (1, 0, 0), (0, 0, 1),
                                          (0, 0, 0)])}
        for cmd_ in rng.choice([["blockchainState"], ["blockchainState", "resetAdvanceBlockchain"],
                                ["blockchainState", "blockchainState"],
                                ["blockchainParameters", "blockchainState"]]):
            s.request({"command": cmd_, "version": 5})
        acc.count("cases_preceded_by_state_queries")
    if rng.random() < 0.12:
        # the request before this one, on the same manager, was an advance / update that
        # came to nothing part of the way through: refused by the device at some exchange,
        # cut by a time-out, or refused by the manager for its last block.  Whatever that
        # one left behind, this one is handed over as it is.
        import copy as _copy
        from ..simdev.transport import Fault
        pre = _copy.deepcopy(req)
        how = rng.choice(["device-refuses", "device-refuses", "time-out", "last-block-garbage",
                          "last-block-truncated", "coinbase-count-overflow",
                          "coinbase-count-overflow"])
        if how == "coinbase-count-overflow" and not is_adv:
            how = "device-refuses"
        if how == "time-out" and plat != "ledger":
            how = "device-refuses"   # (socket failures are not classified by the dongle layer)
        if how == "last-block-garbage":
            pre["blocks"][-1] = "f8" + rng.randbytes(20).hex()
        elif how == "last-block-truncated":
            pre["blocks"][-1] = pre["blocks"][-1][:-rng.choice([2, 20, 200])]
        elif how == "coinbase-count-overflow":
            # a block (or brother) whose compressed coinbase claims so many hashed bytes
            # that the bit length no longer fits 64 bits, tail not a multiple of 64 bytes:
            # whatever the answer to THAT request, the hasher is clean for the next
            import struct as _st
            cnt = rng.choice([2**61, 2**61 - 64, 2**62, 2**63, 2**64 - 64])
            comp = _st.pack(">Q", cnt) + rng.randbytes(32) + rng.randbytes(
                rng.choice([1, 7, 31, 63, 65, 100]))
            badb = gb.gen_block(rng, rng.choice([19, 20]), coinbase=comp)["raw"].hex()
            if rng.random() < 0.5 or not pre["brothers"]:
                pre["blocks"][rng.randrange(len(pre["blocks"]))] = badb
            else:
                pre["brothers"][0] = pre["brothers"][0] + [badb]
        elif how == "device-refuses":
            s.bus.arm({rng.randint(0, 3 * nb + 2): Fault("sw", sw=rng.choice(
                [0x6B87, 0x6B88, 0x6B90, 0x6B94, 0x6A8F]))})
        else:
            s.bus.arm({rng.randint(0, 3 * nb + 2): Fault("timeout")})
        rp, ep, _ = s.request(pre)
        case["preceded_by"] = [how, rp]
        s.bus.arm({})
        acc.count("cases_preceded_by_an_operation_that_came_to_nothing")
        if ep is not None:
            # (not this property's business; start over on a fresh manager)
            s.__exit__(None, None, None)
            stack_holder.pop(hk, None)
            return
        dev.adv_policy = pol
        dev.chunk = chunk
        dev.pending_link = None
        if hasattr(dev, "reset_adv"):
            dev.reset_adv()
    nrec = len(dev.adv_records)
    mark = len(s.bus.events)
    reply, exc, _ = s.request(req)
    acc.evaluations += 1

    def bad(mech, **d):
        d.update(cmd=req["command"], nblocks=nb, chunk=chunk.describe(), stop=stop,
                 header_stop=pol.get("header_stop"), late=pol.get("late"))
        acc.violation(mech, d, case)

    try:
        if exc is not None:
            return bad("exception-escaped:%s" % type(exc).__name__, exc=repr(exc))
        if not isinstance(reply, dict) or type(reply.get("errorcode")) is not int:
            return bad("malformed-reply", reply=reply)
        recs = dev.adv_records[nrec:]
        if len(recs) != 1:
            return bad("device-saw-%d-dialogues" % len(recs), reply=reply,
                       preceded_by=case.get("preceded_by"))
        rec = recs[0]
        if rec["cmd"] != (0x10 if is_adv else 0x30):
            return bad("wrong-command-byte", got=rec["cmd"])
        if rec["count"] != nb:
            return bad("announced-count-differs", got=rec["count"], want=nb)
        for e in s.bus.apdus(mark):
            if e["apdu"] is not None and e["apdu"][1] != rec["cmd"]:
                return bad("foreign-apdu", apdu=e["apdu"].hex())
        expected_seen = stop[0] if stop else nb
        if pol.get("header_stop"):
            pass
        if len(rec["blocks"]) != expected_seen:
            return bad("device-got-%s-blocks" % ("more" if len(rec["blocks"]) > expected_seen
                                                 else "fewer"),
                       got=len(rec["blocks"]), want=expected_seen)
        for i, dblk in enumerate(rec["blocks"]):
            b = blocks[i]
            want_raw = b["raw"] if is_adv else b["stripped"]
            want_meta = b["mm_payload_len"].to_bytes(2, "big") + (b["cb_hash"] if is_adv else b"")
            acc.count("headers_compared")
            if dblk["header"]["meta"] != want_meta:
                return bad("block-metadata-differs", block=i, got=dblk["header"]["meta"].hex(),
                           want=want_meta.hex())
            got = dblk["header"]["stream"].data
            if "stopped_early" in dblk["header"]:
                if not want_raw.startswith(got):
                    return bad("block-prefix-differs", block=i)
            elif got != want_raw:
                return bad("block-bytes-differ", block=i, got=got.hex()[:160],
                           want=want_raw.hex()[:160], lens=(len(got), len(want_raw)))
            if not is_adv:
                # the stripped form must still hash to the client's block hash
                from ..oracle.hashes import keccak256
                if keccak256(got) != b["hash"] and "stopped_early" not in dblk["header"]:
                    return bad("ancestor-block-hash-changed", block=i)
                continue
            if dblk["brothers_asked"]:
                acc.count("brother_lists_compared")
                want_bros = sorted(brothers[i], key=lambda x: x["hash"])
                if dblk["brother_count"] != len(want_bros):
                    return bad("brother-count-differs", block=i, got=dblk["brother_count"],
                               want=len(want_bros))
                if len(dblk["brothers"]) != len(want_bros):
                    return bad("brothers-sent-differs", block=i, got=len(dblk["brothers"]),
                               want=len(want_bros))
                for j, (dbro, wb) in enumerate(zip(dblk["brothers"], want_bros)):
                    acc.count("headers_compared")
                    wm = wb["mm_payload_len"].to_bytes(2, "big") + wb["cb_hash"]
                    if dbro["stream"].data != wb["raw"]:
                        if any(dbro["stream"].data == o["raw"] for o in brothers[i]):
                            return bad("brothers-not-sorted-ascending", block=i, pos=j)
                        return bad("brother-bytes-differ", block=i, pos=j)
                    if dbro["meta"] != wm:
                        return bad("brother-metadata-differs", block=i, pos=j,
                                   got=dbro["meta"].hex(), want=wm.hex())
            elif dblk["brothers"]:
                return bad("brothers-sent-unasked", block=i)
        code = reply["errorcode"]
        want_code = {"total": 0, "partial": 1}.get(rec["result"])
        if stop or pol.get("final") == "partial" or pol.get("header_stop"):
            acc.count("partial_or_early_stops")
        if want_code is None:
            if code in (0, 1):
                return bad("success-code-without-device-success", reply=reply)
        elif code != want_code:
            return bad("device-%s-success-reported-as-%d" % (rec["result"], code), reply=reply)
        acc.count("replies_checked")
    finally:
        nbro_class = "none" if not brothers or not any(brothers) else \
            ("big" if any(len(x) >= 5 for x in brothers) else "small")
        if nb >= 2 or any(len(x) >= 2 for x in brothers):
            acc.distinct.add("%s|%d|%s|%s|%s|%s|%s|%s" % (
                req["command"][:3], nb, sorted({b["nfields"] for b in blocks}), nbro_class,
                chunk.describe(), stop, sum(ask_mask) if is_adv else "-",
                "hs" if pol.get("header_stop") else "late" if pol.get("late") else "-"))
        if len(acc.samples) < 2:
            acc.sample({"command": req["command"], "blocks": [b["raw"].hex()[:80] + "..." for b in
                                                             blocks[:3]],
                        "brothers_per_block": [len(x) for x in brothers],
                        "device_policy": {"chunk": chunk.describe(), "stop_after": stop,
                                          "asks": ask_mask if is_adv else None},
                        "reply": reply, "apdus": len(s.bus.apdus(mark))})
        del dev.adv_records[:]
        del s.bus.events[:]
        if exc is not None:
            try:
                s.__exit__(None, None, None)
            finally:
                stack_holder.pop(hk, None)


def oversize_case(acc, cseed, huge=True):
    """a header (block, ancestor block or brother) one of whose fields is so long that the
    length of its part without the merge-mining fields does not fit the two bytes the
    metadata message has for it (65536, 2^17, 1 MiB, 3 MiB ...): nothing the device could be
    told about it is true, so whatever happens the client is not told "done"; a header just
    below the limit (65535) goes through like any other"""
    from ..stack import Stack, signer_device
    rng = random.Random(cseed)
    case = {"oversize": True, "seed": cseed}
    target = rng.choice([65535, 65536, 65536, 2 ** 17, 2 ** 20, 2 ** 20 + 5] +
                        ([3 * 2 ** 20, 2 ** 24 - 1] if huge else []))
    case["huge"] = huge
    which = rng.choice(["block", "block", "ancestor", "brother"])
    nf = rng.choice([19, 20])
    big = gb.gen_block(rng, nf, tiny=True, small_tail=True)
    fields = list(big["fields"])
    fields[12] = bytes(target)
    over = gb.rlp_payload_len(fields[:-3]) - target
    fields[12] = rng.randbytes(max(1, target - over))     # (payload = target, or close)
    big = gb._finish(fields, nf, big["cb_hash"])
    small = gb.gen_block(rng, 19, tiny=True)
    if which == "ancestor":
        req = {"command": "updateAncestorBlock", "version": 5,
               "blocks": [small["raw"].hex(), big["raw"].hex()]}
    elif which == "block":
        req = {"command": "advanceBlockchain", "version": 5,
               "blocks": [small["raw"].hex(), big["raw"].hex()], "brothers": [[], []]}
    else:
        req = {"command": "advanceBlockchain", "version": 5,
               "blocks": [small["raw"].hex()], "brothers": [[big["raw"].hex()]]}
    plat = rng.choice(["tcp", "sgx", "ledger"]) if target < 2 ** 18 else rng.choice(["tcp", "sgx"])
    dev = signer_device(platform=plat)
    if plat == "sgx":
        dev.unlocked = True
    dev.chunk = ChunkPolicy("const", 255, random.Random(1))
    dev.adv_policy = {}
    with Stack(dev) as s:
        s.initialize()
        mark = len(s.bus.events)
        reply, exc, _ = s.request(req)
        from .faultlib import role_of
        roles = [role_of(e["apdu"]) for e in s.bus.apdus(mark)]
    acc.evaluations += 1
    acc.count("requests_with_a_header_around_or_beyond_64_KiB")
    metas = {"block": roles.count("adv.meta"), "ancestor": roles.count("upd.meta"),
             "brother": roles.count("adv.bmeta")}[which]
    if big["mm_payload_len"] > 0xffff and metas > (0 if which == "brother" else 1):
        return acc.violation("metadata-sent-for-a-header-whose-length-does-not-fit-it",
                             {"payload": big["mm_payload_len"], "which": which, "reply": reply,
                              "roles": roles[:12]}, case)
    fits = big["mm_payload_len"] <= 0xffff
    if exc is not None or not isinstance(reply, dict) or type(reply.get("errorcode")) is not int:
        return acc.violation("oversize-header:no-verdict", {"reply": reply, "exc": repr(exc),
                                                            "payload": big["mm_payload_len"],
                                                            "which": which}, case)
    if not fits and reply["errorcode"] in (0, 1):
        acc.violation("success-reported-for-a-header-whose-length-the-device-cannot-be-told",
                      {"payload": big["mm_payload_len"], "which": which, "reply": reply,
                       "platform": plat}, case)
    elif fits and reply["errorcode"] != 0:
        acc.violation("header-of-64-KiB-minus-one-refused", {"payload": big["mm_payload_len"],
                                                             "which": which, "reply": reply},
                      case)


def many_blocks_case(acc, cseed):
    """a request with more blocks than any round number a developer might have picked as a
    bound (10 001; 70 000 does not fit the two count bytes ... and is not sent): the device is
    told the number there is, and gets every one of them"""
    from ..stack import Stack, signer_device
    rng = random.Random(cseed)
    n = 10001 if (cseed - 5) % 1000 == 0 else rng.choice([10001, 4097, 20001, 65535])
    case = {"many_blocks": True, "seed": cseed}
    hdrs = [gb.gen_block(rng, 17, tiny=True) for _ in range(50)]
    blocks = [hdrs[i % 50] for i in range(n)]
    dev = signer_device(platform="tcp")
    dev.chunk = ChunkPolicy("const", 255, random.Random(1))
    dev.adv_policy = {}
    with Stack(dev) as s:
        s.initialize()
        reply, exc, _ = s.request({"command": "updateAncestorBlock", "version": 5,
                                   "blocks": [b["raw"].hex() for b in blocks]})
    acc.evaluations += 1
    acc.count("requests_with_thousands_of_blocks")
    recs = dev.adv_records
    if exc is not None or not isinstance(reply, dict) or reply.get("errorcode") != 0 or \
            len(recs) != 1:
        return acc.violation("many-blocks:not-carried-out", {"n": n, "reply": reply,
                                                             "exc": repr(exc)}, case)
    rec = recs[0]
    if rec["count"] != n or len(rec["blocks"]) != n:
        return acc.violation("many-blocks:device-%s" % (
            "was-announced-another-count" if rec["count"] != n else "got-fewer-blocks"),
            {"n": n, "announced": rec["count"], "received": len(rec["blocks"])}, case)
    for i in (0, 1, n // 2, n - 2, n - 1):
        if rec["blocks"][i]["header"]["stream"].data != blocks[i]["stripped"]:
            return acc.violation("many-blocks:block-bytes-differ", {"n": n, "index": i}, case)


def run_shard(spec, acc):
    env.setup()
    rng = random.Random(spec["seed"])
    holder = {}
    if spec["seed"] % 1000 in (0, 7):
        many_blocks_case(acc, spec["seed"] + 5)
    for i in range(spec["n"]):
        run_case(acc, rng.getrandbits(48), spec, holder)
        if i % (24 if spec["n"] <= 100 else 100) == 5:
            # (quick: one a shard, up to 1 MiB; thorough: five a shard, up to 16 MiB)
            oversize_case(acc, rng.getrandbits(48), huge=spec["n"] > 100)
    for k, v in holder.items():
        if k != "pool":
            v[0].__exit__(None, None, None)


def replay(case, acc):
    env.setup()
    if case.get("many_blocks"):
        return many_blocks_case(acc, case["seed"])
    if case.get("oversize"):
        return oversize_case(acc, case["seed"], case.get("huge", True))
    run_case(acc, case["seed"], case["spec"], {})
