# C07 - an SGX attestation is accepted only if the whole quote-to-root chain verifies
import os
import copy
import json
import random
import shutil
import hashlib
import tempfile

from .. import env
from ..gen import certv2 as g
from ..oracle import certv2 as o

ID = "C07"
LEVEL = "exploration"
RULE = ("version-2 certificates built from freshly generated P-256 X.509 chains (depth 1..3, "
        "valid / expired / not-yet-valid links), attestation keys (raw, uncompressed and "
        "compressed encodings), QE auth data of 1..1000 bytes, report bodies and quotes; each "
        "genuine certificate plus single-point corruptions: a flipped bit at seeded positions "
        "and at field boundaries of every message / signature / key / auth data / custom data / "
        "DER certificate, report-data bound to 31 of 32 bytes, re-parenting, signatures by "
        "another key, P-384 and secp256k1 certificate keys, wrong root, expired or future link "
        "at each depth. Loaded with HSMCertificate.from_jsonfile and validated against an X.509 "
        "root element; compared with an independent verifier that re-does every ECDSA check with "
        "the other library and numeric struct offsets. distinct = (depth, key form, corruption "
        "kind, element touched); non-trivial = all (each carries fresh keys)")
RULE_ADDED = (
              'Also: 30% of the cases with the clock the certificate code reads moved by '
              '-1500..+3650 days; shards in time zones EAST-14 / WEST+12 / Asia/Kolkata and validity '
              'windows ending 3 h ago / starting in 3 h; a third of the shards under python -O; '
              'every named field of the reported quote compared; re-validation and element '
              'replacement on the same object; extra / repeated targets; an attacker chain embedding '
              'its own root; padding-like ends of the QE auth data '
              ' '
              'Round 8: one key in eight has a coordinate beginning or ending like an encoding '
              'marker (00/02/03/04). '
              ' '
              'Round 9: half of the genuine chains are validated again from fresh objects after'
              ' the clock moved beyond / before the validity period, and once more with the clo'
              'ck back; certificates re-issued by an Ed25519 / Ed448 / RSA / P-384 / P-521 / se'
              'cp256k1 key. '
              ' '
              'Round 10: one chain in six holds a certificate valid from 1950 to 9999-12-31T23:'
              '59:59Z; zero-edged digests in the commitments. '
              ' '
              'Round 11: attestation-key message extended without re-signing; certificate with '
              'a signature algorithm identifier unknown to the library. '
              ' '
              'Round 12: a second, failing attestation-key + quote branch listed as a target be'
              'fore the genuine quote. '
              ' '
              'Round 13: chains one of whose certificates carries an issuer name that is not it'
              "s certifier's subject name (the signature decides). "
              ' '
              'Round 14: roots whose PEM body is unpadded and ends in a letter of the END CERTI'
              'FICATE line (12% of the chains, all chain-building checks). '
              ' '
              'Round 15: attestation key off the curve with a chord-constructed (r, r) quote si'
              'gnature. '
              ' '
              'Round 16: chains whose certifying certificates say CA=FALSE or carry no basic co'
              'nstraints (one chain in eight). '
              ' '
              'Round 17: one chain in sixteen is 6..17 certificates deep. '
              ' '
              'Round 19: links that expired 1..200 seconds before the validation. '
              ' '
              'Round 20: one chain in eight signed with ecdsa-with-SHA384 / SHA512 certificate '
              'by certificate; every certificate also validated with a root object that checked'
              ' its own signature first. ')
RULE = RULE + " " + RULE_ADDED.strip()
ASSUMPTIONS = [
    "oracle: pv/oracle/certv2.py; X.509 parsing itself is shared (cryptography), signature "
    "checks are crosswise (ecdsa vs OpenSSL)",
    "validity windows are at least 2 days away from the (possibly shifted) clock, so jitter "
    "cannot flip a verdict; 30% of the cases run with the clock the certificate code reads "
    "moved by -1500..+3650 days (windows laid around the moved clock)",
]
FLOORS = {"quick": {"evaluations": 700, "accepted": 150, "refused": 450,
                    "value_fields_compared": 400, "cases_under_shifted_clock": 40},
          "thorough": {"evaluations": 80000, "accepted": 6000, "refused": 50000,
                       "value_fields_compared": 30000, "cases_under_shifted_clock": 2000}}

CORRUPTIONS = ["flip-quote", "flip-quote-report-data", "flip-quote-signature", "flip-custom-data",
               "flip-att-message", "flip-att-report-data", "flip-att-key", "flip-auth-data",
               "flip-att-signature", "flip-x509", "bind-31-of-32-quote", "bind-31-of-32-att",
               "reparent-quote-to-cert", "reparent-att-skip-level", "quote-by-other-key",
               "att-by-other-key", "cert-by-other-ca", "leaf-p384", "leaf-secp256k1",
               "wrong-root", "expired-link", "future-link", "custom-data-swapped-resigned-hash",
               "att-key-replaced", "truncate-quote-signature", "swap-att-and-quote-signatures",
               "quote-extended", "auth-data-extended", "attacker-branch-under-non-x509",
               "root-of-other-kind", "quote-hash-at-offset", "att-hash-at-offset",
               "wrong-root-extra-targets", "flip-x509-extra-targets",
               "attacker-chain-with-own-root-embedded", "attacker-chain-with-own-root-embedded",
               "cert-by-key-of-another-algorithm", "cert-by-key-of-another-algorithm",
               "att-message-extended", "cert-with-unknown-signature-algorithm",
               "failing-branch-listed-before-the-quote",
               "failing-branch-listed-before-the-quote",
               "att-key-off-the-curve-with-a-chord-signature",
               "att-key-off-the-curve-with-a-chord-signature",
               "leaf-of-another-curve-sharing-x-with-the-p256-signer",
               "leaf-of-another-curve-sharing-x-with-the-p256-signer"]


# process time zones of the shards (None: as inherited, UTC in this sandbox): validity is a
# matter of absolute time, whatever the local wall clock says
TZS = [None, "EAST-14", "WEST+12", "Asia/Kolkata"]


def shards(tier, seed):
    if tier == "quick":
        return [{"seed": seed * 1000 + i, "python_O": i % 3 == 2, "tz": TZS[i % 4],
                 "n": 14} for i in range(16)]
    return [{"seed": seed * 1000 + i, "python_O": i % 3 == 2, "tz": TZS[i % 4],
             "n": 400} for i in range(32)]


def flip_hex(hx, rng, lo=0, hi=None):
    b = bytearray(bytes.fromhex(hx))
    hi = len(b) if hi is None else min(hi, len(b))
    i = rng.randrange(lo, hi)
    b[i] ^= 1 << rng.randrange(8)
    return bytes(b).hex()


def el(doc, name):
    return [e for e in doc["elements"] if e["name"] == name][0]


def corrupt(rng, m, doc, kind):
    """-> (doc', root cert, touched) or None"""
    import base64
    d = copy.deepcopy(doc)
    root = m.root_cert
    q = el(d, "quote")
    a = el(d, "attestation")
    certs = [e for e in d["elements"] if e["type"] == "x509_pem"]
    if kind == "flip-quote":
        q["message"] = flip_hex(q["message"], rng)
        return d, root, "quote"
    if kind == "flip-quote-report-data":
        q["message"] = flip_hex(q["message"], rng, o.Q_REPORT_DATA, o.Q_REPORT_DATA + 32)
        return d, root, "quote"
    if kind == "flip-quote-signature":
        q["signature"] = flip_hex(q["signature"], rng)
        return d, root, "quote"
    if kind == "flip-custom-data":
        q["custom_data"] = flip_hex(q["custom_data"], rng)
        return d, root, "quote"
    if kind == "flip-att-message":
        a["message"] = flip_hex(a["message"], rng)
        return d, root, "attestation"
    if kind == "flip-att-report-data":
        a["message"] = flip_hex(a["message"], rng, o.RB_REPORT_DATA, o.RB_REPORT_DATA + 32)
        return d, root, "attestation"
    if kind == "flip-att-key":
        a["key"] = flip_hex(a["key"], rng, 1 if len(a["key"]) != 128 else 0)
        return d, root, "attestation"
    if kind == "flip-auth-data":
        a["auth_data"] = flip_hex(a["auth_data"], rng)
        return d, root, "attestation"
    if kind == "flip-att-signature":
        a["signature"] = flip_hex(a["signature"], rng)
        return d, root, "attestation"
    if kind == "flip-x509":
        c = rng.choice(certs)
        der = bytearray(base64.b64decode(c["message"]))
        i = rng.randrange(len(der))
        der[i] ^= 1 << rng.randrange(8)
        c["message"] = base64.b64encode(bytes(der)).decode()
        return d, root, c["name"]
    if kind == "bind-31-of-32-quote":
        # report data agrees with SHA-256(custom data) on 31 bytes only, then re-signed
        msg = bytearray(bytes.fromhex(q["message"]))
        msg[o.Q_REPORT_DATA + 31] ^= 0x01
        q["message"] = bytes(msg).hex()
        q["signature"] = g.sign_der(m.att_key, bytes(msg)).hex()
        return d, root, "quote"
    if kind == "bind-31-of-32-att":
        msg = bytearray(bytes.fromhex(a["message"]))
        msg[o.RB_REPORT_DATA + 31] ^= 0x80
        a["message"] = bytes(msg).hex()
        a["signature"] = g.sign_der(m.cert_keys[-1], bytes(msg)).hex()
        return d, root, "attestation"
    if kind in ("quote-hash-at-offset", "att-hash-at-offset"):
        # the binding hash is present in the report data, but not at its start;
        # everything is properly re-signed
        import hashlib as _h
        off = rng.choice([1, 7, 16, 31, 32])
        if kind == "quote-hash-at-offset":
            msg = bytearray(bytes.fromhex(q["message"]))
            hsh = _h.sha256(bytes.fromhex(q["custom_data"])).digest()
            rd = bytearray(rng.randbytes(64))
            rd[off:off + 32] = hsh
            msg[o.Q_REPORT_DATA:o.Q_REPORT_DATA + 64] = rd
            q["message"] = bytes(msg).hex()
            q["signature"] = g.sign_der(m.att_key, bytes(msg)).hex()
            return d, root, "quote"
        msg = bytearray(bytes.fromhex(a["message"]))
        hsh = bytes(msg[o.RB_REPORT_DATA:o.RB_REPORT_DATA + 32])
        rd = bytearray(rng.randbytes(64))
        rd[off:off + 32] = hsh
        msg[o.RB_REPORT_DATA:o.RB_REPORT_DATA + 64] = rd
        a["message"] = bytes(msg).hex()
        a["signature"] = g.sign_der(m.cert_keys[-1], bytes(msg)).hex()
        return d, root, "attestation"
    if kind == "reparent-quote-to-cert":
        q["signed_by"] = certs[-1]["name"]
        return d, root, "quote"
    if kind == "reparent-att-skip-level":
        if len(certs) < 2:
            a["signed_by"] = "sgx_root"
        else:
            a["signed_by"] = certs[-2]["name"]
        return d, root, "attestation"
    if kind == "quote-by-other-key":
        q["signature"] = g.sign_der(g.new_key(rng), bytes.fromhex(q["message"])).hex()
        return d, root, "quote"
    if kind == "att-by-other-key":
        a["signature"] = g.sign_der(g.new_key(rng), bytes.fromhex(a["message"])).hex()
        return d, root, "attestation"
    if kind == "cert-by-other-ca":
        i = rng.randrange(len(m.certs))
        issuer_cn = "root" if i == 0 else "ca%d" % (i - 1)
        c2 = g.make_cert("ca%d" % i, m.cert_keys[i].public_key(), issuer_cn, g.new_key(rng),
                         serial=99)
        certs[i]["message"] = g.pem_body(c2)
        return d, root, certs[i]["name"]
    if kind == "cert-by-key-of-another-algorithm":
        # the same certificate (subject, key, period) re-issued under the certifier's name
        # by someone else's key of another signature algorithm: whatever the certifier's
        # key can or cannot verify, it did not sign this
        i = rng.randrange(len(m.certs))
        issuer_cn = "root" if i == 0 else "ca%d" % (i - 1)
        alg, key = g.other_algorithm_key(rng)
        c2 = g.make_cert("ca%d" % i, m.cert_keys[i].public_key(), issuer_cn, key, serial=98)
        certs[i]["message"] = g.pem_body(c2)
        return d, root, certs[i]["name"]
    if kind in ("leaf-p384", "leaf-secp256k1"):
        from cryptography.hazmat.primitives.asymmetric import ec
        curve = ec.SECP384R1() if kind == "leaf-p384" else ec.SECP256K1()
        m2 = g.build(rng, depth=len(m.certs), leaf_curve=curve)
        return g.to_doc(m2), m2.root_cert, "attestation"
    if kind == "attacker-chain-with-own-root-embedded":
        # a whole chain made by somebody else, who ships his own root certificate inside
        # the file under the reserved name of the root of trust (or as an extra element)
        m2 = g.build(rng, depth=len(m.certs))
        d2 = g.to_doc(m2)
        nm = rng.choice(["sgx_root", "sgx_root", "root", "Sgx_root"])
        d2["elements"].insert(rng.randrange(len(d2["elements"]) + 1), {
            "name": nm, "type": "x509_pem", "message": g.pem_body(m2.root_cert),
            "signed_by": rng.choice(["sgx_root", nm])})
        top = [e["name"] for e in d2["elements"] if e["signed_by"] == "sgx_root" and
               e["name"] != nm]
        return d2, m.root_cert, top[0]
    if kind == "wrong-root":
        k = g.new_key(rng)
        return d, g.make_cert("root", k.public_key(), "root", k), certs[0]["name"]
    if kind in ("wrong-root-extra-targets", "flip-x509-extra-targets"):
        # the quote's failing ancestor is met more than once (extra / repeated targets)
        names = [e["name"] for e in d["elements"] if e["name"] != "quote"]
        d["targets"] = rng.choice([[rng.choice(names), "quote"], ["quote", "quote"],
                                   names + ["quote"], [certs[0]["name"], "quote"]])
        if kind == "wrong-root-extra-targets":
            k = g.new_key(rng)
            return d, g.make_cert("root", k.public_key(), "root", k), certs[0]["name"]
        # (a *valid* X.509 or attestation-key element listed as a target makes validation
        # raise - known finding of C16 -, so only the quote is repeated here)
        d["targets"] = ["quote", "quote"]
        return corrupt(rng, m, d, "flip-x509")
    if kind in ("expired-link", "future-link"):
        depth = len(m.certs)
        i = rng.randrange(depth)
        w = ["valid"] * depth
        g.SECONDS_AGO[0] = rng.choice([1, 2, 5, 20, 50, 200])
        w[i] = rng.choice(["expired", "expired_recently", "expired_seconds_ago"]) \
            if kind == "expired-link" else \
            rng.choice(["not_yet", "valid_soon"])
        m2 = g.build(rng, depth=depth, windows=w)
        d2 = g.to_doc(m2)
        return d2, m2.root_cert, [e for e in d2["elements"] if e["type"] == "x509_pem"][i]["name"]
    if kind == "custom-data-swapped-resigned-hash":
        # other custom data, report data left as it was
        q["custom_data"] = g.powhsm_message(rng)[0].hex()
        return d, root, "quote"
    if kind == "leaf-of-another-curve-sharing-x-with-the-p256-signer":
        # the last certificate holds a secp256k1 key whose x (and y parity) are those of a
        # P-256 point whose private key the signer of the attestation key's report holds:
        # read as a compressed P-256 key it is that point - but the certificate certifies no
        # P-256 key at all
        from cryptography.hazmat.primitives.asymmetric import ec as _ec
        K1_P = 2 ** 256 - 2 ** 32 - 977
        for _ in range(64):
            sk2 = g.new_key(rng)
            nums = sk2.public_key().public_numbers()
            x_, y_ = nums.x, nums.y
            if x_ >= K1_P:
                continue
            rhs = (pow(x_, 3, K1_P) + 7) % K1_P
            yk = pow(rhs, (K1_P + 1) // 4, K1_P)
            if (yk * yk) % K1_P != rhs:
                continue
            if yk % 2 != y_ % 2:
                yk = K1_P - yk
            k1_pub = _ec.EllipticCurvePublicNumbers(x_, yk, _ec.SECP256K1()).public_key()
            i_ = len(m.certs) - 1
            issuer_key = m.root_key if i_ == 0 else m.cert_keys[i_ - 1]
            issuer_cn = "root" if i_ == 0 else "ca%d" % (i_ - 1)
            c2 = g.make_cert("ca%d" % i_, k1_pub, issuer_cn, issuer_key, serial=97, ca=False)
            certs[i_]["message"] = g.pem_body(c2)
            a["signature"] = g.sign_der(sk2, bytes.fromhex(a["message"])).hex()
            return d, root, "attestation"
        return None
    if kind == "att-key-off-the-curve-with-a-chord-signature":
        # an "attestation key" that is no point of P-256, certified like any key (report
        # data = SHA-256(x || y || auth data), report body signed by the last certificate's
        # key), and a quote "signature" (r, r) computed from the quote's digest alone: with
        # u2 = 1 the verification sum u1*G + u2*Q is a chord through u1*G, and Q is chosen on
        # the line that makes its abscissa r.  Nobody signed that quote.
        import ecdsa
        import hashlib
        C = ecdsa.NIST256p
        G, N, P = C.generator, C.order, C.curve.p()
        z = int.from_bytes(hashlib.sha256(bytes.fromhex(q["message"])).digest(), "big")
        for _ in range(200):
            r = rng.getrandbits(256) % N
            if r == 0:
                continue
            u1 = z * pow(r, -1, N) % N
            if u1 == 0:
                continue
            t = (u1 * G).to_affine()
            xt, yt = int(t.x()), int(t.y())
            lam = rng.getrandbits(256) % P
            xq = (lam * lam - xt - r) % P
            yq = (yt + lam * (xq - xt)) % P
            if xq == xt or C.curve.contains_point(xq, yq):
                continue
            raw = xq.to_bytes(32, "big") + yq.to_bytes(32, "big")
            a["key"] = (b"\x04" + raw).hex() if len(a["key"]) != 128 else raw.hex()
            auth = bytes.fromhex(a["auth_data"])
            body = g.report_body(rng, hashlib.sha256(raw + auth).digest())
            a["message"] = body.hex()
            a["signature"] = g.sign_der(m.cert_keys[-1], body).hex()
            q["signature"] = ecdsa.util.sigencode_der(r, r, N).hex()
            return d, root, "attestation"
        return None
    if kind == "att-key-replaced":
        k2 = g.new_key(rng)
        a["key"] = (b"\x04" + g.xy(k2.public_key())).hex()
        q["signature"] = g.sign_der(k2, bytes.fromhex(q["message"])).hex()
        return d, root, "attestation"
    if kind == "truncate-quote-signature":
        q["signature"] = q["signature"][:-2]
        return d, root, "quote"
    if kind == "swap-att-and-quote-signatures":
        q["signature"], a["signature"] = a["signature"], q["signature"]
        return d, root, "attestation"
    if kind == "quote-extended":
        # bytes appended to the signed quote without re-signing
        q["message"] = q["message"] + "00"
        return d, root, "quote"
    if kind == "failing-branch-listed-before-the-quote":
        # a second attestation key + quote under other names, whose attestation-key element
        # is signed by a stranger: listed as a target BEFORE the genuine quote.  It fails
        # (above its leaf); the genuine quote's own chain is untouched and verifies
        import copy as _copy
        a0, q0 = _copy.deepcopy(a), _copy.deepcopy(q)
        a0["name"], q0["name"], q0["signed_by"] = "attestation0", "quote0", "attestation0"
        a0["signature"] = g.sign_der(g.new_key(rng), bytes.fromhex(a0["message"])).hex()
        d["elements"] = d["elements"] + [a0, q0]
        rng.shuffle(d["elements"])
        d["targets"] = ["quote0", "quote"]
        return d, root, None
    if kind == "cert-with-unknown-signature-algorithm":
        i = rng.randrange(len(certs))
        body = g.unknown_signature_oid(certs[i]["message"])
        if body is None:
            return None
        certs[i]["message"] = body
        return d, root, certs[i]["name"]
    if kind == "att-message-extended":
        # bytes appended to the QE report body without re-signing: the signature is one
        # of the message as it was, not of the message as it is
        a["message"] = a["message"] + rng.choice(["00", "00" * 32, rng.randbytes(7).hex(),
                                                  a["message"]])
        return d, root, "attestation"
    if kind == "auth-data-extended":
        a["auth_data"] = a["auth_data"] + "00"
        return d, root, "attestation"
    if kind == "attacker-branch-under-non-x509":
        # a self-made certificate hung under the genuine attestation-key element, with
        # its own attestation key and quote as the target
        m2 = g.build(rng, depth=1)
        d2 = g.to_doc(m2)
        evil = [e for e in d2["elements"] if e["type"] == "x509_pem"][0]
        evil["name"] = "evil"
        evil["signed_by"] = "attestation"
        a2 = el(d2, "attestation")
        a2["name"] = "attestation2"
        a2["signed_by"] = "evil"
        q2 = el(d2, "quote")
        q2["signed_by"] = "attestation2"
        d["elements"] = [e for e in d["elements"] if e["name"] != "quote"] + [evil, a2, q2]
        return d, root, "evil"
    if kind == "root-of-other-kind":
        return d, "v1root", certs[0]["name"]
    return None


def run_code(doc, root_cert, tmpdir):
    from admin.certificate import HSMCertificate, HSMCertificateV2ElementX509
    p = os.path.join(tmpdir, "cert.json")
    with open(p, "w") as f:
        json.dump(doc, f)
    cert = HSMCertificate.from_jsonfile(p)
    if root_cert == "v1root":
        from admin.certificate import HSMCertificateRoot
        root = HSMCertificateRoot("04" + "11" * 64 if False else
                                  "0479be667ef9dcbbac55a06295ce870b07029bfcdb2dce28d959f2815b16f81798"
                                  "483ada7726a3c4655da4fbfc0e1108a8fd17b448a68554199c47d08ffb10d4b8")
    else:
        root = HSMCertificateV2ElementX509.from_pem(g.pem(root_cert), "sgx_root", "sgx_root")
    first = cert.validate_and_get_values(root)
    # the same certificate object validated again (same root, an unrelated root of trust,
    # the first root once more): a verdict may not depend on what was validated before
    del REVALIDATION[:]
    try:
        if verdicts(cert.validate_and_get_values(root)) != verdicts(first):
            REVALIDATION.append("second-validation-differs")
        k = g.new_key(random.Random(7))
        other = HSMCertificateV2ElementX509.from_pem(
            g.pem(g.make_cert("root", k.public_key(), "root", k)), "sgx_root", "sgx_root")
        if any(v[0] for v in cert.validate_and_get_values(other).values()):
            REVALIDATION.append("valid-under-an-unrelated-root-after-earlier-validation")
        if verdicts(cert.validate_and_get_values(root)) != verdicts(first):
            REVALIDATION.append("validation-after-other-root-differs")
        if root_cert != "v1root":
            # a root-of-trust object that has checked its own signature first, as the verify
            # tool's does: what an object verified before is no part of what it certifies
            root2 = HSMCertificateV2ElementX509.from_pem(g.pem(root_cert), "sgx_root",
                                                         "sgx_root")
            root2.is_valid(root2)
            if verdicts(cert.validate_and_get_values(root2)) != verdicts(first):
                REVALIDATION.append("root-object-that-checked-itself-first-judges-otherwise")
        # an element replaced in the object (add_element, same name): the next validation
        # judges the certificate as it is now - broken, then whole again
        if first.get("quote", (False,))[0]:
            from admin.certificate_v2 import HSMCertificateV2Element
            q = [e for e in doc["elements"] if e["name"] == "quote"][0]
            broken = dict(q)
            cd = bytearray(bytes.fromhex(broken["custom_data"]))
            cd[len(cd) // 2] ^= 0x04
            broken["custom_data"] = bytes(cd).hex()
            cert.add_element(HSMCertificateV2Element.from_dict(broken))
            if cert.validate_and_get_values(root)["quote"][0]:
                REVALIDATION.append("still-valid-after-an-element-on-the-path-was-replaced")
            cert.add_element(HSMCertificateV2Element.from_dict(dict(q)))
            if verdicts(cert.validate_and_get_values(root)) != verdicts(first):
                REVALIDATION.append("not-valid-again-after-the-element-was-put-back")
    except Exception as e:
        REVALIDATION.append("revalidation-raised-%s" % type(e).__name__)
    return first


REVALIDATION = []


def verdicts(res):
    return {k: (v[0], v[1] if not v[0] else None) for k, v in res.items()}


def compare(acc, doc, root_cert, tmpdir, label, case):
    try:
        got = run_code(doc, root_cert, tmpdir)
    except Exception as e:
        acc.violation("validation-raised:%s" % type(e).__name__,
                      {"label": label, "exc": repr(e)[:300]}, case)
        return None
    acc.count("revalidations_on_same_object")
    for prob in REVALIDATION:
        acc.violation("verdict-depends-on-earlier-validation:%s" % prob, {"label": label}, case)
    if root_cert == "v1root":
        # a root of trust that is not an X.509 certificate certifies nothing here
        top = [e["name"] for e in doc["elements"] if e["signed_by"] == "sgx_root"]
        want, soft = {"quote": (False, top[0] if top else None)}, set()
    else:
        # (the clock as the code under test reads it: the real one, shifted - after the
        # validation just judged, so that a certificate that had expired stays expired)
        import datetime as _dtm
        want, soft = o.verify(doc, root_cert,
                              now=_dtm.datetime.now(_dtm.timezone.utc) + g.CLOCK_OFFSET)
    gv = got.get("quote")
    wv = want["quote"]
    if gv is None:
        acc.violation("no-verdict-for-target", {"label": label}, case)
        return None
    if gv[0]:
        acc.count("accepted")
    else:
        acc.count("refused")
    if "quote" in soft:
        acc.count("one_directional_comparisons")
        if gv[0] and not wv[0]:
            acc.violation("accepted-what-the-oracle-refuses:%s" % label,
                          {"want": wv[:2] if not wv[0] else True}, case)
        return gv
    if gv[0] != wv[0]:
        acc.violation(("accepted-invalid-chain:%s" if gv[0] else "refused-valid-chain:%s") % label,
                      {"got": gv[1] if not gv[0] else True,
                       "want": wv[1] if not wv[0] else True}, case)
        return gv
    if not gv[0]:
        if gv[1] != wv[1]:
            acc.violation("wrong-failing-element-named:%s" % label,
                          {"got": gv[1], "want": wv[1]}, case)
        return gv
    # accepted: the reported values are exactly the signed ones
    val = gv[1]
    quote = wv[1]["quote"]
    checks = [
        ("message", val.get("message"), wv[1]["message"]),
        ("quote-raw", val["sgx_quote"].get_raw_data(), quote[:o.Q_LEN]),
        ("mrenclave", val["sgx_quote"].report_body.mrenclave, quote[48 + 64:48 + 96]),
        ("mrsigner", val["sgx_quote"].report_body.mrsigner, quote[48 + 128:48 + 160]),
        ("report_data", val["sgx_quote"].report_body.report_data.field, quote[368:432]),
        ("tweak", gv[2], None),
    ]
    # every named field of the quote, against numeric offsets of Intel's
    # sgx_quote_t / sgx_report_body_t (little endian), written down independently
    sq = val["sgx_quote"]
    rb = sq.report_body

    def le(off, n):
        return int.from_bytes(quote[off:off + n], "little")
    B = 48
    checks += [
        ("quote.version", sq.version, le(0, 2)), ("quote.sign_type", sq.sign_type, le(2, 2)),
        ("quote.tee_type", sq.tee_type, le(4, 4)), ("quote.qe_svn", sq.qe_svn, le(8, 2)),
        ("quote.pce_svn", sq.pce_svn, le(10, 2)), ("quote.uuid", sq.uuid, quote[12:28]),
        ("quote.user_data", sq.user_data, quote[28:48]),
        ("body.cpusvn", rb.cpusvn, quote[B:B + 16]),
        ("body.miscselect", rb.miscselect, le(B + 16, 4)),
        ("body.isvextprodid", rb.isvextprodid, quote[B + 32:B + 48]),
        ("body.attributes.flags", rb.attributes.flags, le(B + 48, 8)),
        ("body.attributes.xfrm", rb.attributes.xfrm, le(B + 56, 8)),
        ("body.configid", rb.configid, quote[B + 192:B + 256]),
        ("body.isvprodid", rb.isvprodid, le(B + 256, 2)),
        ("body.isvsvn", rb.isvsvn, le(B + 258, 2)),
        ("body.configsvn", rb.configsvn, le(B + 260, 2)),
        ("body.isvfamilyid", rb.isvfamilyid, quote[B + 304:B + 320]),
    ]
    for name, a, b in checks:
        acc.count("value_fields_compared")
        if a != b:
            acc.violation("reported-value-differs:%s" % name,
                          {"label": label, "got": a.hex() if isinstance(a, bytes) else a,
                           "want": b.hex() if isinstance(b, bytes) else b}, case)
    return gv


class shifted_clock:
    """runs a case with the wall clock the certificate code reads (the name `datetime` in
    admin.certificate_v2) moved by `offset`: validity must be judged at the time of the
    validation, whatever that time is"""

    def __init__(self, offset):
        self.offset = offset

    def __enter__(self):
        import datetime as _dt
        import admin.certificate_v2 as cv2
        off = self.offset
        self.cv2 = cv2
        self.saved = cv2.datetime

        class ShiftedDatetime(_dt.datetime):
            @classmethod
            def now(cls, tz=None):
                return _dt.datetime.now(tz) + off
        cv2.datetime = ShiftedDatetime
        self.prev_off = g.CLOCK_OFFSET
        g.CLOCK_OFFSET = off

    def __exit__(self, *a):
        self.cv2.datetime = self.saved
        g.CLOCK_OFFSET = self.prev_off


def run_case(acc, cseed, tmpdir):
    import datetime as _dt
    rng = random.Random(cseed)
    if rng.random() < 0.3:
        days = rng.choice([800, 1500, -800, -1500, 3650])
        acc.count("cases_under_shifted_clock")
        with shifted_clock(_dt.timedelta(days=days)):
            return run_case_at(acc, cseed, tmpdir, rng, "clock%+dd" % days)
    return run_case_at(acc, cseed, tmpdir, rng, "")


def run_case_at(acc, cseed, tmpdir, rng, clock):
    case = {"seed": cseed}
    m = g.build(rng)
    key_form = rng.choice(["uncompressed", "uncompressed", "raw", "compressed"])
    doc = g.to_doc(m, key_form)
    rng.shuffle(doc["elements"])
    acc.evaluations += 1
    gv = compare(acc, doc, m.root_cert, tmpdir, "genuine", case)
    if gv is not None and not gv[0]:
        acc.violation("refused-valid-chain:genuine-by-construction", {"got": gv[1]}, case)
    acc.distinct.add("genuine|%d|%s|%s" % (len(m.certs), key_form, clock))
    if m.odd_issuer_name is not None:
        acc.count("genuine_chains_with_an_issuer_name_that_is_not_the_certifiers_subject_name")
    if gv is not None and gv[0] and rng.random() < 0.5:
        # time passes: the very same document, loaded afresh in the same process, is
        # validated again once the clock is beyond (or before) its certificates' validity -
        # what was established earlier about these certificates says nothing about now
        import datetime as _dt
        move = rng.choice([367, 400, 5000, -32, -400])
        acc.count("genuine_chains_validated_again_after_the_clock_moved")
        with shifted_clock(g.CLOCK_OFFSET + _dt.timedelta(days=move)):
            compare(acc, doc, m.root_cert, tmpdir, "genuine-then-clock%+dd" % move, case)
        # ... and back: it is valid again
        gv3 = compare(acc, doc, m.root_cert, tmpdir, "genuine-clock-back", case)
        if gv3 is not None and not gv3[0]:
            acc.violation("refused-valid-chain:genuine-after-the-clock-came-back",
                          {"got": gv3[1]}, case)
    if len(acc.samples) < 1:
        acc.sample({"certificate": {k: (v if k != "elements" else [
            {kk: (vv[:80] + "..." if isinstance(vv, str) and len(vv) > 80 else vv)
             for kk, vv in e.items()} for e in v]) for k, v in doc.items()},
            "verdict": bool(gv and gv[0])})
    kinds = list(CORRUPTIONS)
    rng.shuffle(kinds)
    for kind in kinds[:12]:
        r = corrupt(rng, m, doc, kind)
        if r is None:
            continue
        d2, root2, touched = r
        acc.evaluations += 1
        compare(acc, d2, root2, tmpdir, kind, case)
        acc.distinct.add("%s|%d|%s|%s" % (kind, len(m.certs), key_form, touched))


def run_shard(spec, acc):
    env.setup()
    rng = random.Random(spec["seed"])
    tmpdir = tempfile.mkdtemp(prefix="pv-c07-")
    try:
        for i in range(spec["n"]):
            run_case(acc, rng.getrandbits(48), tmpdir)
    finally:
        shutil.rmtree(tmpdir, ignore_errors=True)


def replay(case, acc):
    env.setup()
    tmpdir = tempfile.mkdtemp(prefix="pv-c07-")
    try:
        run_case(acc, case["seed"], tmpdir)
    finally:
        shutil.rmtree(tmpdir, ignore_errors=True)
