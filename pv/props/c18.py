# C18 - admin commands touch seed and PIN only under their preconditions
import os
import zlib
import json
import random
import shutil
import tempfile
import itertools

from .. import env
from ..gen import certv1 as g1
from ..simdev.genuine import GenuineLedger, GenuineSGX
from ..simdev.device import (MODE_BOOTLOADER, MODE_SIGNER, MODE_UI_HEARTBEAT, ALL_PATHS,
                             pin_policy_ok, path_to_binary)

ID = "C18"
LEVEL = "exploration"
RULE = ("full grid: command {onboard, unlock, changepin, pubkeys} x device state (mode "
        "{bootloader, signer, ui-heartbeat, unknown} x onboarded {y,n} x echo {ok, payload differs, header differs}) x "
        "platform {Ledger, SGX} x PIN source {option, prompt} x PIN {valid, 7 chars, 9 chars, "
        "digits only, non-alphanumeric, non-ASCII letters/digits of 8 bytes, empty} x any-pin flag x operator answers {yes, Yes, "
        "YES, no, n, other-then-yes, other-then-no, EOF} x no-unlock / no-exec, each on a fresh "
        "simulated device through the real admin commands. The APDU log (SEED, SEND_PIN, WIPE, "
        "UNLOCK, CHANGE_PIN, SGX_ONBOARD, SGX_UNLOCK, SGX_CHANGE_PASSWORD), the outputs of "
        "os.urandom (wrapped) and the files written are compared with precondition predicates "
        "written from the statement, in both directions (no destructive APDU without the "
        "precondition; precondition => carried out), and the public-key files with the device's "
        "keys. distinct = grid cells; non-trivial = all")
RULE_ADDED = (
              'Also: non-ASCII and blank-padded PINs; 1..5 refused PINs typed before giving in; a '
              'wrong echo in the header bytes; a third of the cells through adm_ledger / adm_sgx '
              'main() '
              ' '
              'Round 8: twelve kinds of wrong echo (incl. the right bytes followed by a status '
              'word, by padding, twice); every third device holds wallet keys with marker-like '
              'coordinates. '
              ' '
              'Round 9: half of the SGX onboardings have a second operator who gets the device '
              'if the host is free while the first is at a prompt; a third of the command-line '
              'cells carry -v. '
              ' '
              'Round 10: half of the Ledger onboardings find something else after the re-connec'
              'tion (blank device, signer, heartbeat app, wrong echo): no PIN goes to it. '
              ' '
              'Round 11: PINs in which characters repeat. '
              ' '
              'Round 13: onboard cells on an onboarded device that answers the onboard query wi'
              'th an error status. '
              ' '
              'Round 14: a quarter of the admin-tool environments export terminal / locale vari'
              'ables. '
              ' '
              'Round 15: a quarter of the cells on a device to be left alone get a late answer '
              'among their first four exchanges. '
              ' '
              'Round 16: pubkeys exports into a directory holding a longer earlier export. '
              ' '
              'Round 17: secret-like variables (PIN, HSM_PIN, PASSWORD ...) exported in the too'
              "ls' environment. "
              ' '
              'Round 18: PINs with characters between Z and a in ASCII. '
              ' '
              'Round 20: changepin with the new PIN also given as the current one (30% of the o'
              'ption cells), with or without -u. '
              ' '
              "Round 20 (sweep): the cells in which everything but the device's onboarding stat"
              'e invites the operation are run once more per early exchange (0..3) with that an'
              'swer arriving late. ')
RULE = RULE + " " + RULE_ADDED.strip()
ASSUMPTIONS = [
    "simulated devices (pv/simdev) trusted; operator input is scripted, an exhausted script "
    "ends the command (the real tool would keep prompting)",
]
FLOORS = {"quick": {"evaluations": 2500, "onboard_carried_out": 30, "onboard_refused": 400,
                    "unlock_sent": 60, "pin_changes_sent": 60, "pubkey_files_checked": 20,
                    "device_keys_with_marker_like_first_byte": 10},
          "thorough": {"evaluations": 40000, "onboard_carried_out": 400, "onboard_refused": 20000,
                       "unlock_sent": 250, "pin_changes_sent": 1000,
                       "pubkey_files_checked": 150}}
EXHAUSTIVE = {"quick": False, "thorough": True}

PINS = {"valid": "abcd1234", "valid2": "Zz345678", "short": "abc1234", "long": "abcd12345",
        # compliant PINs in which characters repeat (each goes to its own position)
        "repeats": "aabbccd1", "repeats-alternating": "1a2a3a4a",
        "digits": "12345678", "symbol": "abcd123!", "empty": "", "space": "abcd 123",
        # eight BYTES once encoded, each of which is a Latin-1 letter or digit, but not
        # eight alphanumerics: accented letter (2 bytes), full-width digit (3 bytes),
        # and eight characters that are letters in Unicode only
        "accented": "abcde1\u00fc", "fullwidth": "abcd1\uff12", "onlyletters": "\u00e9" * 4,
        "digits-accented": "123456\u00fc",
        # a compliant PIN with a blank, newline or tab around it (nine characters)
        "padded-right": "abcd1234 ", "padded-left": " abcd1234", "padded-nl": "abcd1234\n",
        "padded-tab-7": "abcd123\t",
        # characters that sit between 'Z' and 'a' in ASCII (inside the range A-z, not letters)
        "underscore": "abcd_123", "caret": "abc^1234", "digits-underscore": "1234567_",
        "backquote": "abcd`123", "brackets": "ab[d]123"}
ANSWERS = {"yes": "yes\n", "Yes": "Yes\n", "YES": "YES\n", "no": "no\n", "n": "n\n",
           "No": "No\n", "other-yes": "maybe\ny\nyes\n", "other-no": "yep\nNO\n", "eof": "",
           "yes-space": " yes\n"}
MODES = {"boot": MODE_BOOTLOADER, "signer": MODE_SIGNER, "uihb": MODE_UI_HEARTBEAT,
         "unknown": 0xFF}

# docs/protocol.md "Valid BIP44 paths"
DOC_NAMES = {"m/44'/0'/0'/0/0": "btc", "m/44'/137'/0'/0/0": "rsk", "m/44'/137'/1'/0/0": "mst",
             "m/44'/1'/0'/0/0": "tbtc", "m/44'/1'/1'/0/0": "trsk", "m/44'/1'/2'/0/0": "tmst"}

DESTRUCTIVE = {0x44: "SEED", 0x07: "WIPE", 0xA0: "SGX_ONBOARD"}
PIN_CMDS = {0x41: "SEND_PIN", 0xFE: "UNLOCK", 0xA3: "SGX_UNLOCK"}
CHANGE_CMDS = {0x08: "CHANGE_PIN", 0xA5: "SGX_CHANGE_PASSWORD"}


def shards(tier, seed):
    n = 16 if tier == "quick" else 32
    return [{"shard": i, "n": n, "tier": tier, "seed": seed} for i in range(n)]


def strict_ok(pin):
    return pin_policy_ok(pin.encode())


def any_ok(pin):
    return all(c.isascii() and c.isalnum() for c in pin)


def several_refused(rng, pin, anyp):
    """what an operator types before giving in: the refused PIN and up to four more that
    the policy in force refuses too (a prompt that gives up after n attempts must not let
    the last one through)"""
    pool = ["abc-1234", "abcd 123", "!!!!!!!!", "abcd\u00e9123"] if anyp else \
        ["1234", "12345678", "abc-1234", "abcd12345", "ABCDEFG"]
    k = rng.choice([0, 0, 1, 2, 3, 4])
    return [pin] + [rng.choice(pool) for _ in range(k)]


def answered_yes(script):
    """what an operator typing these lines has said: first decisive line wins"""
    for ln in script.split("\n")[:-1] if script.endswith("\n") else script.split("\n"):
        a = ln.rstrip()
        if a.lower() in ("n", "no"):
            return False
        if a.lower() == "yes":
            return True
    return False


def marker_like_wallet(rng, gd):
    """every third device holds wallet keys whose coordinates begin or end like an
    encoding marker (0x04, 0x02, 0x03, 0x00): they are keys like any other"""
    from ..gen import keys
    if rng.random() < 1 / 3:
        for p in list(gd.wallet):
            d = keys.special_scalar_k1(rng)
            gd.wallet[p] = g1.ecdsa.SigningKey.from_secret_exponent(
                d, curve=g1.CURVE, hashfunc=g1.hashlib.sha256)
            gd.dev.pubkeys[path_to_binary(p)] = g1.pub65(gd.wallet[p])


def make_device(rng, platform, mode, onboarded, echo):
    if echo is False:
        # some kind of wrong echo (pv/simdev/device.py: differing, short, long, error...)
        from ..simdev.device import ECHO_KINDS
        echo = rng.choice(ECHO_KINDS)
    gd, dev = make_device_(rng, platform, mode, onboarded, echo)
    marker_like_wallet(rng, gd)
    return gd, dev


def make_device_(rng, platform, mode, onboarded, echo):
    if platform == "ledger":
        gd = GenuineLedger(rng, onboarded=onboarded, mode=MODES[mode], pin=b"abcd1234",
                           echo_ok=echo)
        if mode == "unknown":
            gd.dev.cfg["mode_sw"] = 0x6E00     # get_current_mode -> UNKNOWN
            gd.dev.mode = MODE_BOOTLOADER
        return gd, gd.dev
    gd = GenuineSGX(rng, onboarded=onboarded, echo_ok=echo)
    gd.dev.unlocked = (mode != "boot")
    if mode == "unknown":
        gd.dev.cfg["mode_sw"] = 0x6E00
    return gd, gd.dev


def apdu_cmds(bus):
    return [e["apdu"] for e in bus.apdus() if e["apdu"]]


class UrandomLog:
    def __enter__(self):
        self.out = []
        self._orig = os.urandom

        def wrapped(n):
            b = self._orig(n)
            self.out.append(b)
            return b
        os.urandom = wrapped
        return self

    def __exit__(self, *a):
        os.urandom = self._orig
        return False


def cells(spec):
    """the grid, dealt round-robin to shards; quick = seeded sample of it"""
    rng = random.Random(spec["seed"])
    out = []
    plats = ["ledger", "sgx"]
    for plat, mode, onb, echo in itertools.product(plats, MODES, (True, False),
                                                   (True, False, "header-zero")):
        if plat == "sgx" and mode == "uihb":
            continue
        for pk, src, anyp, ans in itertools.product(PINS, ("option", "prompt"), (False, True),
                                                    ANSWERS):
            out.append(("onboard", plat, mode, onb, echo, pk, src, anyp, ans, False))
        for pk, src, anyp, noexec in itertools.product(PINS, ("option", "prompt"),
                                                       (False, True), (False, True)):
            out.append(("unlock", plat, mode, onb, echo, pk, src, anyp, None, noexec))
        for pk, src, anyp, nounlock in itertools.product(PINS, ("option", "prompt"),
                                                         (False, True), (False, True)):
            out.append(("changepin", plat, mode, onb, echo, pk, src, anyp, None, nounlock))
        for nounlock in (False, True):
            # (several devices per cell: each has its own wallet keys)
            for rep in range(6):
                out.append(("pubkeys", plat, mode, onb, echo, "valid", "option", False, None,
                            nounlock))
    if spec["tier"] == "quick":
        # keep every cell in which the operation is carried out, sample the rest
        def promising(c):
            if c[0] == "pubkeys":
                return c[3] and c[4]
            return c[2] == "boot" and c[4] and ((c[0] == "onboard" and not c[3]) or
                                                (c[0] != "onboard" and c[3]))
        keep = [c for c in out if promising(c) and (c[0] != "onboard" or rng.random() < 0.6)]
        rest = [c for c in out if not promising(c)]
        # ... and the cells in which everything but the device's onboarding state invites
        # the operation (Ledger in the bootloader, good echo, an acceptable PIN given as an
        # option, "yes"): each is run once more per early exchange with that exchange's
        # answer arriving late (see run_cell)
        keep += [c for c in rest if leave_alone_cell(c)]
        rest = [c for c in rest if not leave_alone_cell(c)]
        out = keep + rng.sample(rest, 2600)
    if spec["tier"] == "thorough":
        out = out * 4       # every cell on four different devices / seeds
    return [c for i, c in enumerate(out) if i % spec["n"] == spec["shard"]]


def leave_alone_cell(c):
    return c[1] == "ledger" and c[2] == "boot" and c[4] is True and c[5] == "valid" and \
        c[6] == "option" and not c[7] and not c[9] and (
            (c[0] == "onboard" and c[3] and c[8] == "yes") or
            (c[0] in ("unlock", "changepin") and not c[3]))


def run_cell(acc, cell, tmpdir, seed, late_idx=None):
    if late_idx is None and leave_alone_cell(cell):
        for k_ in range(4):
            run_cell(acc, cell, tmpdir, seed, late_idx=k_)
    from ..admstack import AdminEnv, options
    from admin.onboard import do_onboard
    from admin.unlock import do_unlock
    from admin.changepin import do_changepin
    from admin.pubkeys import do_get_pubkeys
    cmd, plat, mode, onb, echo, pk, src, anyp, ans, flag = cell
    rng = random.Random(seed)
    gd, dev = make_device(rng, plat, mode, onb, echo)
    if onb and cmd == "onboard" and rng.random() < 0.3:
        # an onboarded device that answers the "are you onboarded?" query with an error
        # status: not having heard "yes" is not having heard "no"
        dev.cfg["onboard_sw"] = rng.choice([0x6E00, 0x6985, 0x6800, 0x6A99, 0x6D00, 0x6F00])
        acc.count("onboard_cells_on_an_onboarded_device_whose_onboard_query_fails")
    echo = echo is True      # any other value is some kind of wrong echo
    pin = PINS[pk]
    case = {"cell": list(cell), "seed": seed}
    acc.evaluations += 1
    acc.distinct_disjoint += 1
    out = os.path.join(tmpdir, "out.json")
    pkout = os.path.join(tmpdir, "keys.txt")
    for f in (out, pkout, os.path.join(tmpdir, "keys.json")):
        if os.path.exists(f):
            os.unlink(f)
    if cmd == "pubkeys" and rng.random() < 0.5:
        # the export directory is re-used: it holds an earlier export, of another device
        # and of more paths (longer files than the ones about to be written)
        old_keys = {p_: g1.pub65(g1.new_key(rng)) for p_ in
                    list(ALL_PATHS) + ["m/44'/1'/3'/0/0", "m/44'/1'/4'/0/0", "m/44'/1'/5'/0/0"]}
        with open(pkout, "w") as f_:
            f_.write("*" * 80 + "\nName \t\t\t Path \t\t\t\t Pubkey\n" + "".join(
                "old%d \t\t\t %s \t\t %s\n" % (i_, p_, (bytes([2 + (k_[-1] & 1)]) + k_[1:33]).hex())
                for i_, (p_, k_) in enumerate(old_keys.items())) + "*" * 80 + "\n")
        with open(os.path.join(tmpdir, "keys.json"), "w") as f_:
            json.dump({p_: k_.hex() for p_, k_ in old_keys.items()}, f_, indent=2)
        acc.count("pubkey_exports_into_a_directory_holding_an_earlier_longer_export")
    getpass_answers = []
    opts = None
    stdin = ""
    if cmd == "onboard":
        stdin = ANSWERS[ans] + "\n"
        opts = options(pin=pin if src == "option" else None, any_pin=anyp,
                       output_file_path=out)
        if src == "prompt":
            # an operator whose PIN is turned down falls back to abcd1234, and types
            # the PIN that was set again when asked to unlock
            acceptable = (any_ok(pin) if anyp else strict_ok(pin))
            getpass_answers = [pin, pin, pin] if acceptable else \
                several_refused(rng, pin, anyp) + ["abcd1234", "abcd1234", "abcd1234"]
        fn = do_onboard
    elif cmd == "unlock":
        opts = options(pin=pin if src == "option" else None, any_pin=anyp, no_exec=flag)
        if src == "prompt":
            getpass_answers = [pin, "abcd1234"]
        fn = do_unlock
    elif cmd == "changepin":
        # the current PIN is always given as an option; the new one varies
        opts = options(pin="abcd1234", new_pin=pin if src == "option" else None, any_pin=anyp,
                       no_unlock=flag)
        if src == "option" and random.Random(seed ^ 0xc18).random() < 0.3:
            # ... or not: a wrapper that sets "the" PIN hands the same value over as the
            # current and as the new one (with or without -u)
            opts = options(pin=pin, new_pin=pin, any_pin=anyp, no_unlock=flag)
            acc.count("changepin_cells_with_the_new_pin_also_given_as_the_current_one")
        if src == "prompt":
            acceptable = (any_ok(pin) if anyp else strict_ok(pin))
            getpass_answers = [pin, "Zz345678"] if acceptable else \
                several_refused(rng, pin, anyp) + ["Zz345678"]
        fn = do_changepin
    else:
        opts = options(pin="abcd1234", no_unlock=flag, output_file_path=pkout)
        fn = do_get_pubkeys

    def bad(mech, **d):
        d.update(cell=list(cell), ok=ok, exc=repr(exc)[:200],
                 cmds=[("%02x" % a[1]) for a in cmds][:60])
        acc.violation(mech, d, case)

    second = {"served": False, "tried": 0}
    with UrandomLog() as ur, AdminEnv(dev, plat) as ae:
        if plat == "sgx" and cmd == "onboard" and zlib.crc32(repr(cell).encode()) % 2 == 0:
            # the SGX host serves one client at a time.  While the operator of this tool is
            # at a prompt, a second operator tries to onboard the same device: served only
            # if the host is free at that moment, i.e. if this tool let go of its connection
            def second_operator():
                second["tried"] += 1
                if not ae.connection_open() and not dev.onboarded and not second["served"]:
                    second["served"] = True
                    dev.onboarded = True
            ae.on_prompt = second_operator
        if plat == "ledger" and (rng.random() < 0.25 or late_idx is not None) and (
                (cmd == "onboard" and onb) or (cmd in ("unlock", "changepin") and not onb)):
            # a device the command must leave alone (onboarded already / not onboarded), one
            # of whose first answers comes later than the host waits for it - and is then
            # what the next read finds on the HID queue: whatever the tool makes of the
            # shifted answers, it is not a licence
            from ..simdev.transport import Fault
            ae.bus.arm({rng.randrange(0, 4) if late_idx is None else late_idx: Fault("late")})
            acc.count("cells_on_a_device_to_leave_alone_with_a_late_answer_early_on")
            if late_idx is not None:
                acc.count("inviting_cells_on_a_device_to_leave_alone_with_answer_%d_late"
                          % late_idx)
        swap = {"at": None, "what": None}
        if plat == "ledger" and cmd == "onboard" and zlib.crc32(repr(cell).encode()) % 2 == 1:
            # Ledger onboarding goes on after "disconnect and re-connect the ledger, press
            # Enter".  What is found after the re-connection need not be the device that
            # was just onboarded in the state it was left in: another (blank) device, the
            # device already in the signer or the heartbeat app, one that echoes wrongly.
            # A PIN goes to what is found only under the conditions for sending PINs.
            def reconnect_finds_something_else():
                if swap["at"] is None and any(e and e[0] == "wipe" for e in dev.log):
                    swap["what"] = rng.choice(["not-onboarded", "in-signer", "in-heartbeat",
                                               "wrong-echo"])
                    if swap["what"] == "not-onboarded":
                        dev.onboarded = False
                    elif swap["what"] == "in-signer":
                        dev.mode = MODE_SIGNER
                    elif swap["what"] == "in-heartbeat":
                        dev.mode = MODE_UI_HEARTBEAT
                    else:
                        dev.cfg["echo_ok"] = "last"
                    swap["at"] = len(apdu_cmds(ae.bus))
            ae.on_prompt = reconnect_finds_something_else
        # every third cell goes through the tool's own command line (argument parser,
        # defaults, dispatch, exit codes) instead of calling the operation directly
        via_cli = (zlib.crc32(repr(cell).encode()) % 3 == 0) and \
            not any(isinstance(v, str) and v.startswith("-") for v in vars(opts).values())
        if via_cli:
            acc.count("cells_through_the_command_line")
            ok, so, exc = ae.run_cli({"onboard": "onboard", "unlock": "unlock",
                                      "changepin": "changepin", "pubkeys": "pubkeys"}[cmd],
                                     opts, stdin=stdin, getpass_answers=getpass_answers)
        else:
            ok, so, exc = ae.run(fn, opts, stdin=stdin, getpass_answers=getpass_answers)
        cmds = apdu_cmds(ae.bus)
    codes = [a[1] for a in cmds]
    boot = (mode == "boot")
    reported_boot = boot

    # PINs that went over the wire
    def ledger_pin_sequences():
        seqs = []
        buf = {}
        for a in cmds:
            if a[1] == 0x41 and len(a) >= 4:
                buf[a[2]] = a[3]
            elif a[1] in (0xFE, 0x08, 0x07):
                seqs.append((a[1], bytes(buf[i] for i in sorted(buf))))
                buf = {}
        if buf:
            seqs.append((None, bytes(buf[i] for i in sorted(buf))))
        return seqs

    if swap["at"] is not None:
        acc.count("ledger_onboardings_finding_something_else_after_reconnection")
        if any(a[1] in (0x41, 0xFE) for a in cmds[swap["at"]:]):
            return bad("pin-sent-to-what-was-found-after-reconnection:%s" % swap["what"])
    if second["tried"]:
        acc.count("onboardings_with_a_second_operator_at_the_prompts")
    if second["served"] and any(c in DESTRUCTIVE for c in codes):
        return bad("onboarding-material-sent-to-a-device-somebody-else-onboarded-meanwhile:"
                   "host-left-free-during-the-prompts")
    if second["served"]:
        return
    if cmd == "onboard":
        if src == "prompt" and anyp and plat == "ledger" and len(pin) > 8:
            # the Ledger UI keeps 8 PIN bytes: a longer any-pin PIN cannot be typed
            # back at the unlock that follows; outside the statement
            acc.count("skipped_long_any_pin")
            return
        destructive = [c for c in codes if c in DESTRUCTIVE]
        pin_ok_for_policy = strict_ok(pin) if src == "option" else True
        pre = boot and echo and not onb and answered_yes(ANSWERS[ans]) and pin_ok_for_policy
        # ask_for_pin keeps asking until it gets an acceptable PIN
        if src == "prompt":
            chosen = pin if (any_ok(pin) if anyp else strict_ok(pin)) and pin != "" else "abcd1234"
            if anyp and pin == "":
                chosen = ""      # an empty PIN passes the any-pin filter
        else:
            chosen = pin
        if destructive and not pre:
            why = ("mode-%s" % mode if not boot else "echo" if not echo else "already-onboarded"
                   if onb else "no-explicit-yes:%s" % ans if not answered_yes(ANSWERS[ans])
                   else "pin-policy")
            return bad("onboarding-material-sent-without-precondition:%s" % why)
        if pre:
            if not destructive:
                return bad("onboarding-not-carried-out-although-preconditions-hold")
            acc.count("onboard_carried_out")
            if plat == "ledger":
                wipes = [e for e in dev.log if e and e[0] == "wipe"]
                if len(wipes) != 1:
                    return bad("wipe-count-%d" % len(wipes))
                seed_sent = wipes[0][1]
                # the PIN as put on the wire (length-prefixed), not as the device cut it
                raw = [sq for sq in ledger_pin_sequences() if sq[0] == 0x07][0][1]
                pin_sent = raw[1:1 + raw[0]]
            else:
                ons = [a for a in cmds if a[1] == 0xA0]
                if len(ons) != 1:
                    return bad("sgx-onboard-count-%d" % len(ons))
                seed_sent, pin_sent = bytes(ons[0][3:35]), bytes(ons[0][35:])
            if len(seed_sent) != 32 or seed_sent not in ur.out:
                return bad("seed-is-not-a-fresh-32-byte-urandom-output", seed=seed_sent.hex())
            if seed_sent in run_cell.seeds:
                return bad("seed-repeated-between-runs")
            run_cell.seeds.add(seed_sent)
            if pin_sent != chosen.encode():
                return bad("onboarding-pin-differs-from-operator-choice", sent=pin_sent,
                           chosen=chosen)
            if not anyp and not pin_policy_ok(pin_sent):
                return bad("non-compliant-pin-sent-on-onboarding", sent=pin_sent)
            if plat == "sgx" and not ok and chosen != "":
                # (the enclave itself refuses an empty password)
                return bad("sgx-onboarding-failed-although-preconditions-hold")
            if swap["at"] is not None:
                return       # (the attestation set-up cannot go on with what was found)
            if plat == "ledger":
                if not ok:
                    return bad("ledger-onboarding-failed-although-preconditions-hold")
                # attestation set-up certificate was written
                if not os.path.exists(out):
                    return bad("attestation-setup-file-not-written")
        else:
            acc.count("onboard_refused")
            if ok:
                return bad("onboard-reported-success-without-onboarding")
        return

    if cmd == "unlock":
        pin_sent = [c for c in codes if c in PIN_CMDS]
        pin_acceptable = (any_ok(pin) if anyp else strict_ok(pin)) if src == "option" else True
        pre = onb and boot and echo and pin_acceptable
        if pin_sent and not (onb and boot):
            return bad("pin-sent-to-device-%s" % ("not-onboarded" if not onb else
                                                  "in-mode-" + mode))
        if pin_sent and not pre:
            return bad("pin-sent-without-precondition:%s" % ("echo" if not echo else "pin"))
        if pre:
            if not pin_sent:
                return bad("unlock-not-attempted-although-preconditions-hold")
            acc.count("unlock_sent")
            # prompting accepts any alphanumeric PIN
            if src == "prompt":
                want = pin if any_ok(pin) else "abcd1234"
            else:
                want = pin
            if plat == "ledger":
                seqs = [s for s in ledger_pin_sequences() if s[0] == 0xFE]
                got = seqs[0][1] if seqs else None
            else:
                got = bytes([a for a in cmds if a[1] == 0xA3][0][3:])
            if got != want.encode():
                return bad("unlock-pin-differs-from-operator-choice", got=got, want=want)
            if sum(1 for c in codes if c in (0xFE, 0xA3)) != 1:
                return bad("unlock-command-sent-more-than-once")
            if (got == dev.cfg["pin"] or got == b"abcd1234") != ok:
                return bad("unlock-outcome-differs", got=got)
        return

    if cmd == "changepin":
        changes = [c for c in codes if c in CHANGE_CMDS]
        new_acceptable = (any_ok(pin) if anyp else strict_ok(pin)) if src == "option" else True
        if changes:
            acc.count("pin_changes_sent")
            if plat == "ledger":
                seqs = [s for s in ledger_pin_sequences() if s[0] == 0x08]
                raw = seqs[0][1] if seqs else b""
                sent = raw[1:1 + raw[0]] if raw else b""
            else:
                sent = bytes([a for a in cmds if a[1] == 0xA5][0][3:])
            if not anyp and not pin_policy_ok(sent):
                return bad("non-compliant-pin-sent-on-change", sent=sent)
            if anyp and not all(chr(c).isalnum() for c in sent):
                return bad("non-alphanumeric-pin-sent-on-change", sent=sent)
            if src == "option" and sent != pin.encode():
                return bad("changed-to-other-pin-than-given", sent=sent)
            if not new_acceptable:
                return bad("change-sent-although-new-pin-refused")
        if src == "option" and not new_acceptable and (codes or ok):
            return bad("device-contacted-with-unacceptable-new-pin")
        return

    # pubkeys
    pre = onb and echo and ((flag and mode in ("signer", "uihb")) or (not flag and boot))
    if plat == "ledger" and mode == "uihb":
        pre = False
    if ok:
        acc.count("pubkey_files_checked")
        jf = os.path.join(tmpdir, "keys.json")
        try:
            table = open(pkout).read()
            js = json.load(open(jf))
        except Exception as e:
            return bad("pubkey-files-missing", err=repr(e))
        for p in ALL_PATHS:
            k = gd.wallet[p]
            if g1.pub65(k)[1] in (0, 2, 3, 4):
                acc.count("device_keys_with_marker_like_first_byte")
            if js.get(p) != g1.pub65(k).hex():
                return bad("pubkeys-json-differs", path=p)
            # table rows: name, path, compressed key (names as in docs/protocol.md)
            row = [ln.split() for ln in table.splitlines() if p in ln.split()]
            if len(row) != 1 or row[0] != [DOC_NAMES[p], p, g1.pub33(k).hex()]:
                return bad("pubkeys-table-differs", path=p, row=row)
        if sorted(js) != sorted(ALL_PATHS):
            return bad("pubkeys-json-paths-differ", got=sorted(js))
    elif pre:
        return bad("pubkeys-failed-although-device-ready")


run_cell.seeds = set()


def run_shard(spec, acc):
    env.setup()
    if spec.get("shard", spec.get("seed", 0)) % 4 >= 2 and env.on_other_fs():
        acc.count("shards_with_files_on_another_file_system_than_the_temp_directory")
    tmpdir = env.mkdtemp("c18", spec.get("shard", spec.get("seed", 0)) % 2 == 1,
                         other_fs=spec.get("shard", spec.get("seed", 0)) % 4 >= 2)
    rng = random.Random(spec["seed"] * 31337 + spec["shard"])
    try:
        for cell in cells(spec):
            run_cell(acc, cell, tmpdir, rng.getrandbits(48))
        if len(acc.samples) < 1:
            acc.sample({"cell_format": ["command", "platform", "mode", "onboarded", "echo_ok",
                                        "pin_kind", "pin_source", "any_pin", "operator_answer",
                                        "no_exec/no_unlock"],
                        "example_cells": [list(c) for c in cells(spec)[:4]]})
    finally:
        shutil.rmtree(tmpdir, ignore_errors=True)


def replay(case, acc):
    env.setup()
    tmpdir = env.mkdtemp("c18")
    try:
        run_cell(acc, tuple(case["cell"]), tmpdir, case["seed"])
    finally:
        shutil.rmtree(tmpdir, ignore_errors=True)
