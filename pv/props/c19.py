# C19 - app hashing and one-time signing bind to the application's actual code
import io
import os
import json
import re
import sys
import random
import shutil
import hashlib
import tempfile
import contextlib

from .. import env
from ..gen import ihex

ID = "C19"
LEVEL = "exploration"
RULE = ("Intel-HEX images written by an own writer from a generated list of data areas (1..8 "
        "areas, one or several 64 KiB zones, gaps, adjacent and zone-crossing areas, record "
        "lengths 1..255, areas in or out of address order, optional start-address records, "
        "blank lines, LF/CRLF); expected hash = SHA-256 over the generator's areas in address "
        "order. Monitors: compute_app_hash and in-process `signapp hash` print that hash, and a "
        "second file with another record layout of the same image gives the same hash; "
        "in-process signonetime.main() on 1..4 images: every <app>.sig is a DER signature of that "
        "hash verifying (OpenSSL) under the single public key written, only the public-key file "
        "and the .sig files are opened for writing (sys.addaudithook), no written file holds the "
        "private scalar in raw / hex / DER / PEM form (the key is captured by wrapping "
        "ecdsa.SigningKey.generate), exactly one key is generated per run and it differs "
        "between runs. distinct = (#areas, #zones, ordered?, #images); non-trivial = all")
RULE_ADDED = (
              'Also: areas of zeros / 0xff / zeros but one byte; images with the same code as '
              "another; the same file name in other directories and prefix names; each image's "
              'message written into the same output file in turn; repeated signing runs in place; a '
              'third of the shards under python -O '
              ' '
              'Round 8: image names holding glob / shell / format metacharacters next to a sibl'
              'ing they would match as patterns. '
              ' '
              'Round 9: tool command lines spelled with long options and -v / --verbose now and'
              ' then. '
              ' '
              'Round 10: one image in five has a hash beginning or ending with a zero byte. '
              ' '
              'Round 11: images addressed by bare relative names that read like data (64 hex di'
              'gits, 0x..., numbers, true, None). '
              ' '
              "Round 12: images given through a symbolic-linked directory followed by '..'. "
              ' '
              'Round 13: images given under a name that is a symbolic or hard link to another i'
              'mage of the same run. '
              ' '
              'Round 14: one signing run in eight gets a one-time key with a zero-leading coord'
              "inate (the library's generator asked again until it yields one); tool runs with "
              'terminal / locale variables exported. '
              ' '
              'Round 15: images read through an anonymous pipe (hash, message). '
              ' '
              'Round 16: signing runs over longer files left by an earlier run. '
              ' '
              'Round 17: images in a directory literally named ~ (or ~root), HOME holding other'
              ' images under the same names. '
              ' '
              'Round 19: one image in six with its areas in two or three regions far apart, on '
              'both sides of 2^31 / 2^24 / 2^20. ')
RULE = RULE + " " + RULE_ADDED.strip()
ASSUMPTIONS = [
    "own Intel-HEX writer (pv/gen/ihex.py); areas do not overlap",
    "signature verification by cryptography/OpenSSL (the tool signs with python-ecdsa)",
]
FLOORS = {"quick": {"evaluations": 300, "hashes_compared": 600, "signatures_verified": 150,
                    "signing_runs": 60, "files_scanned_for_private_key": 200},
          "thorough": {"evaluations": 80000, "hashes_compared": 240000,
                       "signatures_verified": 80000, "signing_runs": 30000,
                       "files_scanned_for_private_key": 100000}}

_opened = []
_hook_installed = False


def _audit(event, args):
    if event == "open" and _opened is not None:
        try:
            path, mode, flags = args
        except ValueError:
            return
        w = False
        if isinstance(mode, str):
            w = any(c in mode for c in "wax+")
        elif isinstance(flags, int):
            w = bool(flags & (os.O_WRONLY | os.O_RDWR | os.O_CREAT))
        if w and isinstance(path, (str, bytes)):
            _opened.append(os.fsdecode(path))


def install_hook():
    global _hook_installed
    if not _hook_installed:
        sys.addaudithook(_audit)
        _hook_installed = True


def shards(tier, seed):
    if tier == "quick":
        return [{"seed": seed * 1000 + i, "python_O": i % 3 == 2,
                 "n": 12} for i in range(16)]
    return [{"seed": seed * 1000 + i, "python_O": i % 3 == 2,
                 "n": 2000} for i in range(32)]


LONG_OPTIONS = {"signonetime.py": {"-a": "--app", "-p": "--publickey"},
                "signapp.py": {"-a": "--app", "-i": "--iteration", "-o": "--output",
                               "-k": "--key", "-p": "--path", "-g": "--signature"}}


def run_main(mod_main, argv):
    """run a tool's main() in-process: -> (exit code, stdout).  When run_main.vary holds
    the case's generator, the command line is spelled as operators spell it: some options
    in their long form, -v / --verbose added now and then (it only adds output)"""
    vary = getattr(run_main, "vary", None)
    if vary is not None:
        longs = LONG_OPTIONS.get(argv[0], {})
        argv = [longs[a] if a in longs and vary.random() < 0.3 else a for a in argv]
        if vary.random() < 0.3:
            argv = argv + [vary.choice(["-v", "--verbose"])]
            run_main.verbose_runs = getattr(run_main, "verbose_runs", 0) + 1
    buf = io.StringIO()
    old = sys.argv
    sys.argv = argv
    code = None
    # (and the environment of an operator's shell: terminal size exported, another locale)
    oe = env.odd_environ(vary, 0.2) if vary is not None else contextlib.nullcontext()
    try:
        with oe, contextlib.redirect_stdout(buf):
            try:
                mod_main()
            except SystemExit as e:
                code = e.code
    finally:
        sys.argv = old
    if getattr(oe, "vars", None):
        run_main.odd_env_runs = getattr(run_main, "odd_env_runs", 0) + 1
    return code, buf.getvalue()


class as_pipe:
    """the image handed over through an anonymous pipe (`... | tool -a /dev/stdin`,
    `tool -a <(cmd)`): the name of a thing that can be read once"""

    def __init__(self, path):
        with open(path, "rb") as f:
            self.data = f.read()

    def __enter__(self):
        import threading
        self.r, w = os.pipe()

        def feed():
            try:
                with os.fdopen(w, "wb") as f:
                    f.write(self.data)
            except OSError:
                pass
        self.t = threading.Thread(target=feed, daemon=True)
        self.t.start()
        return "/dev/fd/%d" % self.r

    def __exit__(self, *a):
        try:
            os.close(self.r)
        except OSError:
            pass
        self.t.join(5)
        return False


def verify_der(pub_hex, sig, digest):
    from cryptography.hazmat.primitives.asymmetric import ec
    from cryptography.hazmat.primitives.asymmetric.utils import Prehashed
    from cryptography.hazmat.primitives import hashes
    from cryptography.exceptions import InvalidSignature
    try:
        pk = ec.EllipticCurvePublicKey.from_encoded_point(ec.SECP256K1(), bytes.fromhex(pub_hex))
        pk.verify(sig, digest, ec.ECDSA(Prehashed(hashes.SHA256())))
        return True
    except (InvalidSignature, ValueError):
        return False


def blank_entries(acc, rng, images, tmpdir, case, signonetime):
    pubp = os.path.join(tmpdir, "pub-blank.txt")
    paths = [im[0] for im in images]
    k = rng.randrange(len(paths))
    entries = paths[:k] + [rng.choice(["", " ", "  "])] + paths[k:]
    cwd = os.getcwd()
    os.chdir(tmpdir)      # (a stray ".sig" would land here)
    try:
        code, out = run_main(signonetime.main, ["signonetime.py", "-a", ",".join(entries),
                                                "-p", pubp])
    finally:
        os.chdir(cwd)
    acc.count("image_lists_with_a_blank_entry")
    pub = open(pubp).read().strip() if os.path.exists(pubp) else None
    for (p, areas, want) in images:
        sp = p + ".sig"
        if os.path.exists(sp):
            try:
                ok = pub is not None and verify_der(pub, bytes.fromhex(open(sp).read().strip()),
                                                    want)
            except ValueError:
                ok = False
            if not ok:
                acc.violation("blank-entry:signature-file-of-an-image-is-not-for-that-image",
                              {"image": os.path.basename(p), "exit": code}, case)
            os.unlink(sp)
        elif code == 0:
            acc.violation("blank-entry:success-reported-but-an-image-was-not-signed",
                          {"image": os.path.basename(p)}, case)
    for f in (pubp, os.path.join(tmpdir, ".sig"), os.path.join(tmpdir, " .sig"),
              os.path.join(tmpdir, "  .sig")):
        if os.path.exists(f):
            os.unlink(f)


def tree(root):
    """every file below root (full paths)"""
    return {os.path.join(d, f) for d, _, fs in os.walk(root) for f in fs}


def run_case(acc, cseed, tmpdir, state):
    cwd = os.getcwd()
    home = os.environ.get("HOME")
    try:
        return run_case_(acc, cseed, tmpdir, state)
    finally:
        os.chdir(cwd)
        if home is None:
            os.environ.pop("HOME", None)
        else:
            os.environ["HOME"] = home


def run_case_(acc, cseed, tmpdir, state):
    import ecdsa
    import signapp
    import signonetime
    from admin.ledger_utils import compute_app_hash
    rng = random.Random(cseed)
    run_main.vary = random.Random(cseed ^ 0x5a5a5a)
    case = {"seed": cseed}
    nimg = rng.randint(1, 4)
    images = []
    # file naming: distinct names in one directory, or the same name in a directory per
    # image (ui/app.hex, signer/app.hex ...), or names that are prefixes of each other
    naming = rng.choice(["distinct", "distinct", "same-name-other-dir", "prefix-names",
                         "pattern-characters", "data-like-names",
                         "through-a-symlinked-directory", "tilde-directory"])
    odd_names = []
    if naming == "pattern-characters":
        # names that mean something else to a shell, a glob, a format string or a path
        # expander - each of which would lead to the sibling app0.hex or nowhere; to the
        # tools they are file names
        nimg = max(nimg, 2)
        odd_names = rng.sample(["app[0].hex", "app?.hex", "app*.hex", "app[0-9].hex",
                                "app[!1].hex", "$HOME.hex", "~app0.hex", "app0 .hex",
                                "%s.hex", "{app0}.hex", "app0.hex;x", "app0.hex#", "*"],
                               nimg - 1)
    for i in range(nimg):
        areas = ihex.gen_areas(rng)
        if i > 0 and rng.random() < 0.25:
            # another file with the very same application code (rebuilt, copied, written
            # with another record layout): it is an image given like any other
            areas = images[rng.randrange(len(images))][1]
            acc.count("images_with_the_same_code_as_another")
        if naming == "same-name-other-dir":
            d = os.path.join(tmpdir, "d%d" % i)
            os.makedirs(d, exist_ok=True)
            p = os.path.join(d, "app.hex")
        elif naming == "prefix-names":
            p = os.path.join(tmpdir, "app" + ".hex" * (i + 1))
        elif naming == "pattern-characters" and i > 0:
            p = os.path.join(tmpdir, odd_names[i - 1])
        elif naming == "through-a-symlinked-directory":
            # ui/bin is a link to ../build/out/bin; the image is given as ui/bin/../appN.hex,
            # which is build/out/appN.hex for the system - whereas ui/appN.hex (what the
            # text minus "bin/.." would name) is another file, with other contents
            for d_ in ("build/out/bin", "ui"):
                os.makedirs(os.path.join(tmpdir, d_), exist_ok=True)
            if not os.path.lexists(os.path.join(tmpdir, "ui", "bin")):
                os.symlink(os.path.join("..", "build", "out", "bin"),
                           os.path.join(tmpdir, "ui", "bin"))
            p = os.path.join(tmpdir, "ui", "bin", "..", "app%d.hex" % i)
            ihex.write(rng, ihex.gen_areas(rng, max_areas=2),
                       os.path.join(tmpdir, "ui", "app%d.hex" % i))
        elif naming == "tilde-directory":
            # the images sit in a directory literally named "~" (or "~root") of the working
            # directory and are given as ~/appN.hex, unexpanded: to the tools that is a file
            # name; the home directory (HOME points to a scratch one) holds other images
            # under the same relative names
            os.chdir(tmpdir)
            td = ["~", "~root"][cseed % 2]
            home = os.path.join(tmpdir, "home")
            for d_ in (td, home, os.path.join(home, td)):
                os.makedirs(os.path.join(tmpdir, d_) if not os.path.isabs(d_) else d_,
                            exist_ok=True)
            os.environ["HOME"] = home
            p = os.path.join(td, "app%d.hex" % i)
            ihex.write(rng, ihex.gen_areas(rng, max_areas=2), os.path.join(home, "app%d.hex" % i))
        elif naming == "data-like-names":
            # images addressed by a bare relative name (the tools run in their directory)
            # that reads like data: 64 hex digits (a hash), 0x + hex, a number, an option
            # value, a URL - to the tools it is the name of a file
            os.chdir(tmpdir)
            p = [rng.randbytes(32).hex(), "0x" + rng.randbytes(32).hex(), str(rng.randrange(10**6)),
                 rng.randbytes(32).hex().upper(), "http:", "true", "None"][i % 7] + \
                ("" if i < 7 else str(i))
        else:
            p = os.path.join(tmpdir, "app%d.hex" % i)
        acc.count("naming_" + naming)
        shuffled = rng.random() < 0.6
        linked = None
        if naming == "distinct" and i > 0 and rng.random() < 0.3:
            # this image's name is a link (symbolic or hard) to an image given before - as
            # release directories have them (signer.hex -> signer-5.4.hex): it is an image
            # given like any other, it gets its hash, its message and its .sig
            j_ = rng.randrange(len(images))
            areas = images[j_][1]
            linked = rng.choice(["symbolic", "symbolic", "hard"])
            if os.path.lexists(p):
                os.unlink(p)
            if linked == "symbolic":
                os.symlink(rng.choice([images[j_][0], os.path.basename(images[j_][0])]), p)
            else:
                os.link(images[j_][0], p)
            acc.count("images_given_under_a_name_that_is_a_%s_link_to_another" % linked)
        else:
            if os.path.islink(p):
                os.unlink(p)
            ihex.write(rng, areas, p, shuffle=shuffled)
        p2 = os.path.join(tmpdir, "compact-app%d.hex" % i)
        ihex.write_compact(rng, areas, p2)
        want = ihex.expected_hash(areas)
        images.append((p, areas, want))
        acc.evaluations += 1
        zones = len({(s + k) >> 16 for (s, d) in areas for k in (0, len(d) - 1)})
        if len({s >> 31 for (s, d) in areas}) == 2:
            acc.count("images_with_areas_on_both_sides_of_2^31")
        acc.distinct.add("%d|%d|%s|%d" % (len(areas), zones, shuffled, nimg))
        for path, lab in ((p, "as-written"), (p2, "other-record-layout")):
            acc.count("hashes_compared")
            try:
                got = compute_app_hash(path)
            except Exception as e:
                acc.violation("compute_app_hash-raised:%s" % type(e).__name__,
                              {"exc": repr(e)[:200], "layout": lab,
                               "areas": [(s, len(d)) for s, d in areas]}, case)
                continue
            if got != want:
                acc.violation("app-hash-differs:%s" % lab,
                              {"got": got.hex(), "want": want.hex(),
                               "areas": [(hex(s), len(d)) for s, d in areas],
                               "shuffled": shuffled}, case)
        code, out = run_main(signapp.main, ["signapp.py", "hash", "-a", p])
        acc.count("hashes_compared")
        m = re.search(r"Computed hash: ([0-9a-f]+)", out)
        if code != 0 or not m or m.group(1) != want.hex():
            acc.violation("signapp-hash-differs", {"code": code, "out": out[-200:],
                                                   "want": want.hex()}, case)
    # ---- an image read through a pipe: same hash, printed and embedded
    if rng.random() < 0.3:
        (p, areas, want) = rng.choice(images)
        acc.count("images_read_through_a_pipe")
        with as_pipe(p) as pp:
            code, out = run_main(signapp.main, ["signapp.py", "hash", "-a", pp])
        m = re.search(r"Computed hash: ([0-9a-f]+)", out)
        if code != 0 or not m or m.group(1) != want.hex():
            acc.violation("signapp-hash-differs:image-through-a-pipe",
                          {"code": code, "out": out[-200:], "want": want.hex()}, case)
        pm = os.path.join(tmpdir, "auth-pipe.json")
        if os.path.exists(pm):
            os.unlink(pm)
        with as_pipe(p) as pp:
            code, out = run_main(signapp.main, ["signapp.py", "message", "-a", pp, "-i", "7",
                                                "-o", pm])
        try:
            docp = json.load(open(pm))
        except Exception:
            docp = None
        if code != 0 or not docp or docp.get("signer") != {"hash": want.hex(), "iteration": 7}:
            acc.violation("authorization-message-file-names-other-hash:image-through-a-pipe",
                          {"code": code, "file": str(docp)[:200], "want_hash": want.hex()}, case)
    # ---- the hash embedded in authorization messages: each image in turn into the SAME
    # output file (so that from the second on the file already exists and names another
    # image), and printed
    authp = os.path.join(tmpdir, "auth-seq.json")
    if os.path.exists(authp):
        os.unlink(authp)
    for (p, areas, want) in images + images[:1]:
        it = rng.choice([0, 1, 255, 256, 65535, rng.randrange(65536)])
        text = "RSK_powHSM_signer_%s_iteration_%d" % (want.hex(), it)
        existed = os.path.exists(authp)
        code, out = run_main(signapp.main, ["signapp.py", "message", "-a", p, "-i", str(it),
                                            "-o", authp])
        acc.count("embedded_hashes_compared")
        try:
            doc = json.load(open(authp))
        except Exception:
            doc = None
        if code != 0 or not doc or doc.get("signer") != {"hash": want.hex(), "iteration": it}:
            acc.violation("authorization-message-file-names-other-hash:%s" % (
                "output-file-existed" if existed else "fresh-output-file"),
                {"code": code, "file": str(doc)[:200], "want_hash": want.hex(), "want_it": it},
                case)
        code, out = run_main(signapp.main, ["signapp.py", "message", "-a", p, "-i", str(it)])
        acc.count("embedded_hashes_compared")
        if code != 0 or text not in out:
            acc.violation("authorization-message-printed-names-other-hash",
                          {"code": code, "out": out[-200:], "want": text}, case)
    # ---- a list of images with a blank entry in it (leading / doubled comma, ", ,"): the tool
    # may turn the list down, or sign what is given - but whatever .sig it leaves behind
    # for an image verifies for that image, and success means every image was signed
    if len(images) >= 2 and rng.random() < 0.2:
        blank_entries(acc, rng, images, tmpdir, case, signonetime)
    # ---- one-time signing
    pubp = os.path.join(tmpdir, "pub.txt")
    stale = rng.random() < 0.3
    for f in [pubp] + [im[0] + ".sig" for im in images]:
        if os.path.lexists(f):
            os.unlink(f)
        if stale:
            # the directory holds the output of an earlier run (another key, files longer
            # than the ones about to be written): what this run leaves is its own output
            with open(f, "w") as f_:
                f_.write(rng.randbytes(rng.choice([40, 100, 150, 300])).hex() + "\n")
    if stale:
        acc.count("signing_runs_over_longer_files_of_an_earlier_run")
    generated = []
    orig_generate = ecdsa.SigningKey.generate

    # one run in eight: the fresh key happens to have a public point one of whose
    # coordinates begins with a zero byte (one key in 128 does) - the library's generator
    # is simply asked again until it yields such a key
    zero_edge = rng.random() < 1 / 8

    def recording_generate(*a, **kw):
        k = orig_generate(*a, **kw)
        if zero_edge:
            for _ in range(1500):
                xy = k.get_verifying_key().to_string()
                if xy[0] == 0 or xy[32] == 0:
                    acc.count("one_time_keys_with_a_zero_leading_coordinate_byte")
                    break
                k = orig_generate(*a, **kw)
        generated.append(k)
        return k
    ecdsa.SigningKey.generate = recording_generate
    del _opened[:]
    before = tree(tmpdir)
    try:
        sep = rng.choice([",", ", ", " ,"])
        code, out = run_main(signonetime.main,
                             ["signonetime.py", "-a", sep.join(im[0] for im in images),
                              "-p", pubp])
    finally:
        ecdsa.SigningKey.generate = orig_generate
    # (the tools may have been given bare relative names: absolute for comparison)
    written = sorted(set(os.path.realpath(p) for p in _opened
                         if os.path.realpath(p).startswith(os.path.realpath(tmpdir))))
    acc.count("signing_runs")
    if code != 0:
        acc.violation("signonetime-failed", {"code": code, "out": out[-300:]}, case)
        return
    if len(generated) != 1:
        acc.violation("signonetime-generated-%d-keys" % len(generated), {}, case)
        return
    sk = generated[0]
    # (compared as the system resolves them: links followed, then "..")
    want_files = sorted([os.path.realpath(pubp)] +
                        [os.path.realpath(im[0] + ".sig") for im in images])
    new_files = sorted(os.path.realpath(f_) for f_ in tree(tmpdir) - before)
    if written != want_files or (not stale and sorted(set(new_files) | set()) != want_files) \
            or (stale and new_files):
        acc.violation("signonetime-wrote-other-files",
                      {"opened_for_writing": written, "new": new_files, "want": want_files},
                      case)
    pub_hex = open(pubp).read().strip()
    if pub_hex != sk.get_verifying_key().to_string("uncompressed").hex():
        acc.violation("public-key-file-is-not-the-signing-key", {"file": pub_hex[:40]}, case)
    for (p, areas, want) in images:
        acc.count("signatures_verified")
        try:
            sig = bytes.fromhex(open(p + ".sig").read().strip())
        except Exception as e:
            acc.violation("signature-file-unreadable", {"exc": repr(e)}, case)
            continue
        if not verify_der(pub_hex, sig, want):
            acc.violation("signature-does-not-verify-for-image-hash",
                          {"image": os.path.basename(p), "want_hash": want.hex()}, case)
    # the private key is written nowhere
    d = sk.privkey.secret_multiplier
    raw = d.to_bytes(32, "big")
    needles = [raw, raw.hex().encode(), raw.hex().upper().encode(), sk.to_der(),
               sk.to_der().hex().encode(), sk.to_pem().strip().splitlines()[1],
               str(d).encode()]
    for f in sorted(set(written) | set(new_files)):
        acc.count("files_scanned_for_private_key")
        try:
            content = open(f, "rb").read()
        except OSError:
            continue
        if any(n in content for n in needles):
            acc.violation("private-key-written-to-disk", {"file": os.path.basename(f)}, case)
    # fresh key per run
    if pub_hex in state["pubs"]:
        acc.violation("one-time-key-reused-between-runs", {"pub": pub_hex[:40]}, case)
    state["pubs"].add(pub_hex)
    # a second signing run over the same files, in the same place (the .sig and public key
    # files of the first run are still there): everything on disk afterwards belongs to
    # the second run's key
    if rng.random() < 0.5:
        sub = images if rng.random() < 0.6 else images[:max(1, len(images) - 1)]
        code, out = run_main(signonetime.main,
                             ["signonetime.py", "-a", ",".join(im[0] for im in sub), "-p", pubp])
        acc.count("repeated_signing_runs")
        if code != 0:
            acc.violation("signonetime-failed:repeated-run", {"code": code, "out": out[-300:]},
                          case)
            return
        pub2 = open(pubp).read().strip()
        if pub2 == pub_hex:
            acc.violation("one-time-key-reused-between-runs", {"pub": pub2[:40]}, case)
        state["pubs"].add(pub2)
        for (p, areas, want) in sub:
            acc.count("signatures_verified")
            try:
                sig = bytes.fromhex(open(p + ".sig").read().strip())
            except Exception as e:
                acc.violation("signature-file-unreadable", {"exc": repr(e)}, case)
                continue
            if not verify_der(pub2, sig, want):
                acc.violation("signature-does-not-verify-under-the-key-written-alongside:"
                              "repeated-run", {"image": os.path.basename(p)}, case)
    if len(acc.samples) < 2:
        acc.sample({"images": [{"file": os.path.basename(p),
                                "areas": [(hex(s), len(dd)) for s, dd in ar],
                                "hash": w.hex()} for (p, ar, w) in images],
                    "files_written": [os.path.basename(x) for x in written]})


def run_shard(spec, acc):
    env.setup()
    if spec.get("shard", spec.get("seed", 0)) % 4 >= 2 and env.on_other_fs():
        acc.count("shards_with_files_on_another_file_system_than_the_temp_directory")
    install_hook()
    rng = random.Random(spec["seed"])
    tmpdir = env.mkdtemp("c19", spec.get("shard", spec.get("seed", 0)) % 2 == 1,
                         other_fs=spec.get("shard", spec.get("seed", 0)) % 4 >= 2)
    state = {"pubs": set()}
    try:
        for i in range(spec["n"]):
            run_case(acc, rng.getrandbits(48), tmpdir, state)
            n_ = getattr(run_main, "odd_env_runs", 0)
            if n_:
                acc.count("tool_runs_with_terminal_or_locale_variables_exported", n_)
                run_main.odd_env_runs = 0
            for f in os.listdir(tmpdir):
                f = os.path.join(tmpdir, f)
                if os.path.isdir(f):
                    shutil.rmtree(f)
                else:
                    os.unlink(f)
    finally:
        shutil.rmtree(tmpdir, ignore_errors=True)


def replay(case, acc):
    env.setup()
    install_hook()
    tmpdir = env.mkdtemp("c19")
    try:
        run_case(acc, case["seed"], tmpdir, {"pubs": set()})
    finally:
        shutil.rmtree(tmpdir, ignore_errors=True)
