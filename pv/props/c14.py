# C14 - clearing of signature placeholders is canonical and loses nothing else
import random

from .. import env
from ..oracle import btc
from ..gen import btctx, requests as rq

ID = "C14"
LEVEL = "exploration"
RULE = ("seeded generator of serialized BTC transactions (1..N inputs, script-sigs of 1..8 "
        "operations over direct/PUSHDATA1/2/4 (minimal and non-minimal), OP_0, OP_1..16, "
        "OP_1NEGATE, non-push opcodes, redeem-script pushes; 0..N outputs; odd versions and "
        "lock times; a tenth with a script length - as signed or once blanked -, an output "
        "script length or an input/output count exactly on a varint boundary 252..256, "
        "65535, 65536), each run through comm.bitcoin.get_unsigned_tx and compared field by field "
        "with an independent byte-level parser/tokenizer; plus signature-variant pairs, "
        "idempotence, every truncation point / trailing garbage / empty script / truncated "
        "push, and a subset relayed through the whole stack to the simulated device. "
        "distinct = (n_inputs, sorted set of op kinds used, kind of last op per input class, "
        "case class); non-trivial = at least one input with >= 2 operations")
RULE_ADDED = (
              'Also: undecodable requests repeated up to three times, after a well-formed one, or '
              'with a reconnection pending; half of the relays in segwit mode; lengths and counts on '
              'varint boundaries; a third of the shards under python -O '
              ' '
              'Round 8: scripts whose final operation (opcode or one-byte push) also occurs ear'
              'lier in the script. '
              ' '
              'Round 10: relays of transactions whose cleared form is exactly 65528..131081 byt'
              'es long. '
              ' '
              'Round 12: relays with device chunk requests of 255, 254, 1..200 and random sizes'
              '. '
              ' '
              'Round 15: a transaction and its own cleared form, both with one compact size wri'
              'tten the long way, are relayed alike. '
              ' '
              'Round 16: outpoints that read like something special (null outpoint, all ones). '
              ' '
              'Round 20: script-sigs of 9..1001 operations (10% of the scripts). ')
RULE = RULE + " " + RULE_ADDED.strip()
ASSUMPTIONS = [
    "comm/bitcoin.py is exercised composed with the bitcoin.core shim in pv/shims "
    "(python-bitcoinlib is absent); the oracle shares no code with the shim",
    "non-canonical varints and witness-serialised inputs are exercised for robustness, and for "
    "independence: a transaction and its cleared form, spelled alike, are relayed alike",
]
FLOORS = {"quick": {"evaluations": 1500, "oracle_checks": 1500, "malformed_cases": 300,
                    "stack_relays": 40, "pairs": 200,
                    "varint_edge_cases": 60},
          "thorough": {"evaluations": 400000, "oracle_checks": 300000, "malformed_cases": 50000,
                       "stack_relays": 3000, "pairs": 150000,
                       "varint_edge_cases": 20000}}


SIZE_MARKS = [0xffff - 7, 0xffff, 0x10000, 0x10000 + 100, 0x20000, 100000]


def shards(tier, seed):
    if tier == "quick":
        return [{"seed": seed * 1000 + i, "python_O": i % 3 == 2,
                 "n": 260, "n_mal": 12, "n_stack": 8, "max_in": 5,
                 "max_out": 5} for i in range(8)]
    return [{"seed": seed * 1000 + i, "python_O": i % 3 == 2,
                 "n": 40000, "n_mal": 400, "n_stack": 300, "max_in": 20,
             "max_out": 20, "big": True} for i in range(16)]


def segwit_args(rng):
    """half of the requests relayed through the stack ask for the segwit sighash mode: the
    transaction handed to the device is cleared in the same way"""
    if rng.random() < 0.5:
        return None
    return (rng.randbytes(rng.choice([1, 71, 105, 253])), rng.choice([1, 546, 2**63, 12345678]))


def _call(fn, *a):
    try:
        return fn(*a), None
    except Exception as e:   # any Exception is "cannot be decoded" for the caller
        return None, e


def check_tx(acc, raw, meta, get_unsigned_tx):
    """the core monitor; returns the unsigned bytes or None"""
    out, exc = _call(get_unsigned_tx, raw.hex())
    acc.evaluations += 1
    if exc is not None:
        acc.violation("decodable-tx-refused:%s" % type(exc).__name__,
                      {"tx": raw.hex()[:400], "exc": repr(exc)}, {"kind": "tx", "tx": raw.hex()})
        return None
    u = bytes.fromhex(out)
    bad = btc.check_unsigned(raw, u)
    acc.count("oracle_checks")
    if bad:
        acc.violation("unsigned-form-wrong:%s" % bad[0].split(":")[0].split(" ")[0],
                      {"tx": raw.hex()[:400], "got": out[:400], "problems": bad[:5]},
                      {"kind": "tx", "tx": raw.hex()})
        return None
    # idempotence, byte for byte
    out2, exc2 = _call(get_unsigned_tx, out)
    acc.count("idempotence_checks")
    if exc2 is not None or out2 != out:
        acc.violation("not-idempotent", {"tx": raw.hex()[:400], "once": out[:300],
                                         "twice": (out2 or repr(exc2))[:300]},
                      {"kind": "tx", "tx": raw.hex()})
    return u


def run_shard(spec, acc):
    env.setup()
    from comm.bitcoin import get_unsigned_tx
    rng = random.Random(spec["seed"])
    big = spec.get("big", False)

    for i in range(spec["n"]):
        tx = btctx.gen_tx(rng, max_in=spec["max_in"], max_out=spec["max_out"],
                          big=big and (i % 50 == 0))
        u = check_tx(acc, tx["raw"], tx, get_unsigned_tx)
        kinds = sorted({k for ks in tx["kinds"] for k in ks})
        for e in tx.get("edges", []):
            acc.count("varint_edge_cases")
            acc.distinct.add("edge|" + e)
        nontrivial = any(len(ks) >= 2 for ks in tx["kinds"])
        if nontrivial:
            acc.distinct.add("tx|%d|%s|%s" % (len(tx["ins"]), ",".join(kinds),
                                              ",".join(sorted({ks[-1] for ks in tx["kinds"]}))))
        acc.sample({"tx": tx["raw"].hex()[:300], "unsigned": (u or b"").hex()[:300]}, cap=2)
        # signature independence
        if i % 2 == 0:
            v = btctx.resign_variant(rng, tx)
            o1, e1 = _call(get_unsigned_tx, tx["raw"].hex())
            o2, e2 = _call(get_unsigned_tx, v.hex())
            acc.count("pairs")
            if e1 is None and e2 is None and o1 != o2:
                acc.violation("depends-on-signatures",
                              {"a": tx["raw"].hex()[:300], "b": v.hex()[:300]},
                              {"kind": "pair", "a": tx["raw"].hex(), "b": v.hex()})
            elif (e1 is None) != (e2 is None):
                acc.violation("depends-on-signatures:one-refused",
                              {"a": tx["raw"].hex()[:300], "b": v.hex()[:300],
                               "e": repr(e1 or e2)},
                              {"kind": "pair", "a": tx["raw"].hex(), "b": v.hex()})

        # ... and spelling independence: the transaction and its own cleared form, both with
        # the same compact size written the long way (fd xx 00): what is relayed for the one
        # is what is relayed for the other
        if i % 4 == 1 and u is not None and len(tx["ins"]) < 0xfd and not tx.get("witness"):
            def long_way(raw, which):
                raw = bytes(raw)
                off = 4 if which == "input-count" else 4 + 1 + 36
                if raw[off] >= 0xfd:
                    return None
                return raw[:off] + b"\xfd" + raw[off:off + 1] + b"\x00" + raw[off + 1:]
            which = rng.choice(["input-count", "first-script-length"])
            a_, b_ = long_way(tx["raw"], which), long_way(u, which)
            if a_ is not None and b_ is not None:
                o1, e1 = _call(get_unsigned_tx, a_.hex())
                o2, e2 = _call(get_unsigned_tx, b_.hex())
                acc.count("pairs_with_a_compact_size_written_the_long_way")
                if (e1 is None) != (e2 is None) or (e1 is None and o1 != o2):
                    acc.violation("depends-on-signatures:compact-size-written-the-long-way",
                                  {"a": a_.hex()[:300], "b": b_.hex()[:300], "which": which,
                                   "out_a": (o1 or repr(e1))[:200], "out_b": (o2 or repr(e2))[:200]},
                                  {"kind": "pair", "a": a_.hex(), "b": b_.hex()})

    # robustness-only classes: witness serialisation, results still compared
    for i in range(max(4, spec["n"] // 20)):
        tx = btctx.gen_tx(rng, max_in=3, max_out=3, witness=True)
        out, exc = _call(get_unsigned_tx, tx["raw"].hex())
        acc.count("witness_robustness")
        if exc is None:
            bad = btc.check_unsigned(tx["raw"], bytes.fromhex(out))
            if bad:
                acc.notes.append("witness-form difference (robustness only): %s" % bad[0])

    # malformed inputs: must be refused (directly, and -102 through the stack)
    mal = []
    for i in range(spec["n_mal"]):
        tx = btctx.gen_tx(rng, max_in=3, max_out=2)
        raw = tx["raw"]
        cuts = sorted(set([0, 1, 3, 4, 5, len(raw) - 1, len(raw) - 4, len(raw) - 5] +
                          [rng.randrange(len(raw)) for _ in range(12)]))
        for c in cuts:
            if 0 <= c < len(raw):
                mal.append(("truncated@%d" % (0 if c == 0 else 1 if c < 10 else 2), raw[:c]))
        mal.append(("trailing1", raw + b"\x00"))
        mal.append(("trailing", raw + rng.randbytes(rng.randint(1, 40))))
        # empty script in one input
        ins = list(tx["ins"])
        k = rng.randrange(len(ins))
        ins[k] = (ins[k][0], ins[k][1], b"", ins[k][3])
        mal.append(("empty-script", btctx.ser_tx(tx["version"], ins, tx["outs"], tx["locktime"])))
        # truncated push inside a script
        ins = list(tx["ins"])
        k = rng.randrange(len(ins))
        sc = ins[k][2] + rng.choice([b"\x4c", b"\x4d\x05", b"\x4e\x01\x00\x00", b"\x05abcd",
                                     b"\x4c\x09abc"])
        ins[k] = (ins[k][0], ins[k][1], sc, ins[k][3])
        mal.append(("truncated-push", btctx.ser_tx(tx["version"], ins, tx["outs"],
                                                  tx["locktime"])))
    for cls, raw in mal:
        # the oracle's own verdict: refuse anything it cannot parse / tokenizes badly
        try:
            t = btc.parse_tx(raw)
            ok = all(len(btc.tokenize(sc)) > 0 for (_, sc, _) in t.ins) and len(t.ins) > 0
            if not t.canonical:
                continue
        except btc.Malformed:
            ok = False
        if ok:
            continue    # the mutation happened to produce a decodable transaction
        acc.count("malformed_cases")
        acc.distinct.add("malformed|%s" % cls)
        if len(raw) > 0:
            out, exc = _call(get_unsigned_tx, raw.hex())
            if exc is None:
                acc.violation("undecodable-tx-accepted:%s" % cls.split("@")[0],
                              {"tx": raw.hex()[:400], "out": out[:300]},
                              {"kind": "mal", "tx": raw.hex()})
    acc.evaluations += len(mal)

    # through the whole stack: -102 + silent device for malformed, oracle on what
    # the device reassembled for well-formed
    from ..stack import Stack, signer_device
    dev = signer_device()
    with Stack(dev) as s:
        s.initialize()
        for cls, raw in mal[::max(1, len(mal) // (spec["n_stack"] * 3))]:
            if len(raw) == 0:
                continue
            try:
                t = btc.parse_tx(raw)
                if all(len(btc.tokenize(sc)) > 0 for (_, sc, _) in t.ins) and t.ins:
                    continue
            except btc.Malformed:
                pass
            req = rq.sign_auth_request(rq.AUTH_PATHS[0], raw, 0, rq.gen_receipt(rng),
                                       rq.gen_proof(rng), segwit_args(rng))
            # the very same request up to three times in a row, sometimes right after a
            # well-formed one: the verdict may not depend on what was asked before
            if rng.random() < 0.5:
                good = btctx.gen_tx(rng, max_in=2, max_out=2)
                s.request(rq.sign_auth_request(rq.AUTH_PATHS[0], good["raw"], 0,
                                               rq.gen_receipt(rng), rq.gen_proof(rng)))
                acc.count("stack_malformed_after_wellformed")
            if rng.random() < 0.3:
                # ... or right after a request that failed on the link: the manager has a
                # reconnection pending, which a refused request must not carry out either
                from ..simdev.transport import Fault
                s.bus.arm({0: Fault(rng.choice(["read_error", "write_error"]))})
                s.request({"command": "getPubKey", "version": 5, "keyId": rq.AUTH_PATHS[0]})
                s.bus.arm({})
                dev.pending_link = None
                acc.count("stack_malformed_with_repair_pending")
            for rep in range(rng.choice([1, 2, 3])):
                mark = len(s.bus.events)
                reply, exc, out = s.request(req)
                acc.count("stack_malformed")
                # any transport activity counts (close / enumerate / open / exchanges)
                apdus = s.bus.events[mark:]
                if exc is not None or reply is None or reply.get("errorcode") != -102 or apdus:
                    acc.violation("undecodable-tx-not-102:%s%s" % (
                        cls.split("@")[0], ":when-repeated" if rep else ""),
                        {"reply": reply, "exc": repr(exc), "apdus": len(apdus),
                         "tx": raw.hex()[:300], "repetition": rep},
                        {"kind": "stackmal", "tx": raw.hex()})
                    break
        sized = [btctx.gen_sized_tx(rng, unsigned_len=m + d)
                 for m in rng.sample(SIZE_MARKS, 2) for d in rng.sample([-8, -7, -1, 0, 1, 9], 2)]
        for i in range(spec["n_stack"] + len(sized)):
            tx = btctx.gen_tx(rng, max_in=3, max_out=3)
            if i >= spec["n_stack"]:
                # a transaction whose cleared form is exactly so many bytes long (around
                # 2^16 and 2^17: no document bounds a transaction's size)
                tx = sized[i - spec["n_stack"]]
                if tx is None:
                    continue
                acc.count("stack_relays_of_transactions_of_a_chosen_size")
                acc.counters["max_relayed_unsigned_tx_bytes"] = max(
                    acc.counters.get("max_relayed_unsigned_tx_bytes", 0), tx["unsigned_len"])
            if rng.random() < 0.3:
                # a sign that fails half-way (error status or time-out while the transaction
                # is being handed over) right before: nothing of it may reach the next one
                from ..simdev.transport import Fault
                other = btctx.gen_tx(rng, max_in=3, max_out=3)
                s.bus.arm({rng.randint(1, 4): rng.choice([Fault("sw", sw=0x6A88),
                                                          Fault("sw", sw=0x6A87),
                                                          Fault("timeout")])})
                s.request(rq.sign_auth_request(rq.AUTH_PATHS[0], other["raw"], 0,
                                               rq.gen_receipt(rng), rq.gen_proof(rng),
                                               segwit_args(rng)))
                s.bus.arm({})
                dev.reset_sign()
                acc.count("stack_relays_after_a_failed_sign")
            # the device asks for the transaction in pieces of its choosing (1..255 bytes)
            from ..simdev.device import ChunkPolicy
            dev.chunk = rng.choice([ChunkPolicy("fw", 80), ChunkPolicy("const", 255),
                                    ChunkPolicy("const", 255), ChunkPolicy("const", 254)] + (
                [] if i >= spec["n_stack"] else     # (tiny pieces: not for the 100 KB ones)
                [ChunkPolicy("const", rng.choice([1, 7, 128, 200])),
                 ChunkPolicy("random", 0, random.Random(rng.getrandbits(32)))]))
            nrec = len(dev.sign_records)
            sw = segwit_args(rng)
            if sw:
                acc.count("stack_relays_in_segwit_mode")
            req = rq.sign_auth_request(rq.AUTH_PATHS[i % 2], tx["raw"],
                                       rng.randrange(len(tx["ins"])), rq.gen_receipt(rng),
                                       rq.gen_proof(rng), sw)
            reply, exc, out = s.request(req)
            acc.count("stack_relays")
            if exc is not None or reply is None or reply.get("errorcode") != 0 or \
                    len(dev.sign_records) != nrec + 1:
                acc.violation("stack-relay-failed", {"reply": reply, "exc": repr(exc)},
                              {"kind": "stack", "tx": tx["raw"].hex()})
                continue
            st = dev.sign_records[-1]["streams"].get("tx")
            d = st.data if st else b""
            plen = int.from_bytes(d[:4], "little") if len(d) >= 7 else 0
            relayed = d[7:plen]
            bad = btc.check_unsigned(tx["raw"], relayed)
            direct = bytes.fromhex(get_unsigned_tx(tx["raw"].hex()))
            if bad or relayed != direct:
                acc.violation("relayed-tx-wrong", {"problems": bad[:4],
                                                   "relayed": relayed.hex()[:300]},
                              {"kind": "stack", "tx": tx["raw"].hex()})


def replay(case, acc):
    env.setup()
    from comm.bitcoin import get_unsigned_tx
    if case["kind"] == "tx":
        check_tx(acc, bytes.fromhex(case["tx"]), None, get_unsigned_tx)
    elif case["kind"] == "pair":
        a = _call(get_unsigned_tx, case["a"])
        b = _call(get_unsigned_tx, case["b"])
        if a[0] != b[0]:
            acc.violation("depends-on-signatures", {"a": a[0], "b": b[0]}, case)
    elif case["kind"] == "mal":
        out, exc = _call(get_unsigned_tx, case["tx"])
        if exc is None:
            acc.violation("undecodable-tx-accepted", {"out": out}, case)
    else:
        from ..stack import Stack, signer_device
        rng = random.Random(1)
        dev = signer_device()
        with Stack(dev) as s:
            s.initialize()
            req = rq.sign_auth_request(rq.AUTH_PATHS[0], bytes.fromhex(case["tx"]), 0,
                                       rq.gen_receipt(rng), rq.gen_proof(rng))
            reply, exc, out = s.request(req)
            acc.notes.append("reply=%r exc=%r apdus=%d" % (reply, exc, len(s.bus.apdus())))
            if case["kind"] == "stackmal" and (reply or {}).get("errorcode") != -102:
                acc.violation("undecodable-tx-not-102", {"reply": reply}, case)
