# C03 - no client request can take the manager down or go unanswered
import io
import sys
import copy
import json
import os
import random
import socket
import logging
import threading
import traceback

from .. import env
from ..gen import blocks as gb, btctx, requests as rq
from ..simdev.device import MODE_SIGNER
from . import c02

ID = "C03"
LEVEL = "exploration"
RULE = ("request lines fed to the real server-side handler over one manager lifetime (state "
        "carries over; the stack is rebuilt only after a violation): (1) raw bytes: random, "
        "invalid UTF-8, NULs, very long, CR, no newline; (2) JSON-grammar hostile: nesting depth "
        "10^2..10^5, integers of 10..10^4 digits, NaN/Infinity, huge floats, duplicate keys, "
        "lone surrogates; (3) structure-aware: the C02 request grid with hostile leaves aimed at "
        "the conversions on the way to the device (unhashable/None/number command, input -1 / "
        "2^32 / 10^30, witness script >= 64 KiB, > 255 proof nodes, node > 255 bytes, > 255 "
        "brothers, MM payload > 65535 bytes, brothers that are hex but not blocks, non-hex "
        "blocks, hex that is not a transaction, empty script-sigs); (4) shuffled sequences of "
        "all of these; plus a live TCPServer on a real socket with a probe after every line. "
        "The simulated device keeps to its protocol and logging is enabled as in production. "
        "Oracle: exactly one newline-terminated line holding a JSON object with an int "
        "errorcode, no exception leaves the handler, within a logical step budget. distinct = "
        "(class, command, hostile leaf kind)")
RULE_ADDED = (
              'Also: every JSON nesting depth 900..2600 (thorough 1..6000) in three shapes with '
              'logging configured as the shipped logging.cfg; look-alike characters in every string '
              'leaf; hostile compressed-coinbase fields; a device that hands out a fresh well-formed '
              'signature of any shape per request '
              ' '
              'Round 8: requests whose string fields (key ids, every hex field, mode and comman'
              'd names) are long runs of locally valid characters ending in an invalid one, sen'
              't to the entry-point child process; a request unanswered after 60 s of wall cloc'
              'k (answers take milliseconds) while the process lives is a violation. '
              ' '
              'Round 9: lines of 5 KB..70 KB (thorough 1 MB) holding runs of 2-, 3- and 4-byte '
              'UTF-8 characters in every alignment, in ignored fields, key ids, command names a'
              'nd outside JSON. '
              ' '
              'Round 12: a third of the shards run their version-5 manager on the SGX platform,'
              ' a third on the TCPSigner platform. '
              ' '
              'Round 13: clients that send their line and close their writing side at once, the'
              'n read - also after queueing behind another client. '
              ' '
              'Round 14: on the TCP platforms 3% of the lines are served by a device that takes'
              ' 9..301 s over every answer. '
              ' '
              'Round 15: lines in which an object repeats a member name (top level, message / a'
              "uth, nested); every command once, well-formed, on the shard's platform and in bo"
              'th modes. '
              ' '
              'Round 16: blocks and brothers that are RLP strings of 16..21 bytes. '
              ' '
              'Round 17: key ids with elements of more digits than the interpreter converts (en'
              'try-point baits). '
              ' '
              'Round 18: every hexadecimal field of every well-formed request once with a 0x an'
              'd once with a 0X prefix, each on a manager of its own. '
              ' '
              'Round 19: three shards in eight run with logging configured at INFO / WARNING / '
              'CRITICAL instead of the shipped DEBUG. ')
RULE = RULE + " " + RULE_ADDED.strip()
ASSUMPTIONS = [
    "simulated device keeps to its protocol (firmware-like chunking, well-formed answers)",
    "lines up to 16 MiB (thorough) / 1 MiB (quick); memory-exhaustion inputs are out of budget",
    "termination is judged on a logical step budget (sys.monitoring PY_START events), the "
    "wall-clock watchdog only makes a run inconclusive",
]
FLOORS = {"quick": {"nesting_depths_swept": 4000, "socket_level_misbehaviours": 20,
                    "backtracking_baits": 100, "multibyte_run_lines": 500,
                    "evaluations": 10000, "raw_lines": 1500, "json_hostile": 300,
                    "structure_aware": 8000, "live_lines": 100, "answered": 12000,
                    "hostile_leaves": 150},
          "thorough": {"evaluations": 300000, "raw_lines": 40000, "json_hostile": 4000,
                       "structure_aware": 150000, "live_lines": 1200, "answered": 300000,
                       "hostile_leaves": 150}}

STEP_BUDGET = 40_000_000


class StepBudgetExceeded(BaseException):
    pass


class Steps:
    """logical step counter (Python function entries) via sys.monitoring"""
    TOOL = 4

    def __init__(self):
        self.n = 0
        self.budget = None
        self.on = False

    def start(self):
        m = sys.monitoring
        try:
            m.use_tool_id(self.TOOL, "pv-steps")
        except ValueError:
            return

        def cb(code, off):
            self.n += 1
            if self.budget is not None and self.n > self.budget:
                self.budget = None
                raise StepBudgetExceeded()
        m.register_callback(self.TOOL, m.events.PY_START, cb)
        m.set_events(self.TOOL, m.events.PY_START)
        self.on = True

    def stop(self):
        if self.on:
            sys.monitoring.set_events(self.TOOL, 0)
            sys.monitoring.free_tool_id(self.TOOL)
            self.on = False


def enable_logging():
    """format every record like the shipped logging.cfg does (root NOTSET, stream
    handler at DEBUG), into a sink"""
    logging.disable(logging.NOTSET)
    logging.raiseExceptions = False

    class Sink(io.StringIO):
        def write(self, s):
            return len(s)
    root = logging.getLogger()
    for h in list(root.handlers):
        root.removeHandler(h)
    h = logging.StreamHandler(Sink())
    h.setLevel(logging.DEBUG)
    h.setFormatter(logging.Formatter("[%(levelname)s:%(name)s] %(message)s"))
    root.addHandler(h)
    root.setLevel(logging.NOTSET)


def shards(tier, seed):
    n = 16 if tier == "quick" else 32
    return [{"shard": i, "n": n, "tier": tier, "seed": seed} for i in range(n)]


# ---------------------------------------------------------------- generators --

def raw_lines(rng, n, maxlen):
    for i in range(n):
        k = rng.random()
        if k < 0.25:
            yield "raw:random", rng.randbytes(rng.randint(0, 200)).replace(b"\n", b"\x00") + b"\n"
        elif k < 0.4:
            yield "raw:badutf8", b'{"command":"' + rng.choice(
                [b"\xff", b"\xc3\x28", b"\xed\xa0\x80", b"\xf8\x88\x80\x80\x80"]) + b'"}\n'
        elif k < 0.5:
            yield "raw:nul", b"\x00" * rng.randint(1, 50) + b"\n"
        elif k < 0.55:
            yield "raw:empty", rng.choice([b"\n", b"", b"\r\n", b"   \n", b"\t"])
        elif k < 0.65:
            yield "raw:noeol", b'{"command":"version"}'
        elif k < 0.7:
            ln = rng.choice([1000, 65536, maxlen])
            yield "raw:long", b'{"command":"' + b"a" * ln + b'"}\n'
        elif k < 0.8:
            yield "raw:cr", b'{"command":"version"}\r\n'
        elif k < 0.9:
            s = json.dumps({"command": "version"}).encode()
            j = rng.randrange(len(s))
            yield "raw:flip", s[:j] + bytes([s[j] ^ (1 << rng.randrange(8))]) + s[j + 1:] + b"\n"
        else:
            yield "raw:bom", b"\xef\xbb\xbf" + b'{"command":"version"}\n'


def multibyte_runs(rng, quick, shard):
    chars = ["\u00e9", "\u20ac", "\U0001d11e"]          # 2, 3 and 4 bytes in UTF-8
    lengths = [5000, 9000] + ([70000] if shard % 4 == 0 else []) + \
        ([300000, 1100000] if not quick and shard % 8 == 0 else [])
    for ch in chars:
        width = len(ch.encode())
        for shift in range(width):
            for total in lengths:
                run = ch * ((total // width) + 1)
                pad = "a" * shift
                yield "mb:ignored-field-%d" % width, json.dumps(
                    {"command": "version", "memo": pad + run}, ensure_ascii=False).encode() + b"\n"
                yield "mb:keyid-%d" % width, json.dumps(
                    {"command": "getPubKey", "version": 5, "keyId": pad + run},
                    ensure_ascii=False).encode() + b"\n"
                if total <= 9000:
                    yield "mb:command-%d" % width, json.dumps(
                        {"command": pad + run, "version": 5}, ensure_ascii=False).encode() + b"\n"
                    yield "mb:not-json-%d" % width, (pad + run).encode() + b"\n"
                    yield "mb:valid-request-first-%d" % width, json.dumps(
                        {"command": "getPubKey", "version": 5, "keyId": "m/44'/0'/0'/0/0",
                         "note": pad + run}, ensure_ascii=False).encode() + b"\n"


def repeated_members(rng, bases):
    def obj(pairs):
        return "{" + ",".join("%s:%s" % (json.dumps(k), v) for k, v in pairs) + "}"

    def ser(v, depth=0):
        """value -> JSON text, repeating one member of one object in five"""
        if isinstance(v, dict):
            pairs = [(k, ser(x, depth + 1)) for k, x in v.items()]
            if pairs and rng.random() < (0.2 if depth else 0.0):
                k, t = rng.choice(pairs)
                pairs.insert(rng.randrange(len(pairs) + 1), (k, rng.choice([t, "null", '"x"'])))
            return obj(pairs)
        if isinstance(v, list):
            return "[" + ",".join(ser(x, depth + 1) for x in v) + "]"
        return json.dumps(v)
    yield "dup:plain", b'{"command":"version","command":"version"}\n'
    yield "dup:other-value", b'{"command":"version","command":"sign"}\n'
    yield "dup:unknown-member", b'{"command":"version","a":1,"a":2}\n'
    yield "dup:empty-name", b'{"":1,"":2,"command":"version"}\n'
    yield "dup:nested-only", b'{"command":"version","x":{"y":{"z":1,"z":1}}}\n'
    yield "dup:in-array", b'{"command":"version","x":[{"k":1,"k":1}]}\n'
    for name, req in sorted(bases.items()):
        pairs = [(k, ser(v, 1)) for k, v in req.items()]
        for _ in range(2):
            k, t = rng.choice(pairs)
            p2 = list(pairs)
            p2.insert(rng.randrange(len(p2) + 1), (k, rng.choice([t, t, "null", "5", '""'])))
            yield "dup:top:%s" % name, obj(p2).encode() + b"\n"
        for k, v in req.items():
            if isinstance(v, dict) and v:
                inner = [(a, ser(b, 2)) for a, b in v.items()]
                a, t = rng.choice(inner)
                inner.insert(rng.randrange(len(inner) + 1), (a, rng.choice([t, "null", '"00"'])))
                p2 = [(kk, obj(inner) if kk == k else tt) for kk, tt in pairs]
                yield "dup:inside-%s:%s" % (k, name), obj(p2).encode() + b"\n"


def json_hostile(rng, n, big):
    depths = [100, 500, 900, 1000, 1100, 5000, 20000] + ([100000] if big else [])
    digits = [10, 100, 1000, 4299, 4300, 4301, 5000, 10000]
    for i in range(n):
        k = i % 12
        if k == 0:
            d = rng.choice(depths)
            yield "json:deep-array", ("[" * d + "]" * d + "\n").encode()
        elif k == 1:
            d = rng.choice(depths)
            yield "json:deep-object", ('{"a":' * d + "1" + "}" * d + "\n").encode()
        elif k == 2:
            d = rng.choice(depths)
            yield "json:deep-in-field", ('{"command":"sign","version":5,"message":' +
                                         "[" * d + "]" * d + "}\n").encode()
        elif k == 3:
            nd = rng.choice(digits)
            yield "json:bigint-version", ('{"command":"sign","version":' + "9" * nd + "}\n").encode()
        elif k == 4:
            nd = rng.choice(digits)
            yield "json:bigint-top", (("-" if rng.random() < 0.5 else "") + "1" * nd +
                                      "\n").encode()
        elif k == 5:
            yield "json:nan", rng.choice([b'{"command":"version","version":NaN}\n',
                                          b'{"command":"sign","version":Infinity}\n',
                                          b'{"command":"sign","version":-Infinity}\n',
                                          b"NaN\n"])
        elif k == 6:
            yield "json:hugefloat", rng.choice([b'{"command":"sign","version":1e400}\n',
                                                b'{"command":"sign","version":5e-400}\n',
                                                b'{"command":"sign","version":5.' + b"0" * 500 +
                                                b"}\n"])
        elif k == 7:
            yield "json:dupkeys", b'{"command":"version","command":"sign","version":5,"version":4}\n'
        elif k == 8:
            yield "json:surrogate", rng.choice([
                b'{"command":"\\ud800","version":5}\n',
                b'{"command":"getPubKey","version":5,"keyId":"\\udfff"}\n',
                b'{"command":"sign","version":5,"keyId":"m/44\'/0\'/0\'/0/0","message":{"hash":"\\ud800"}}\n'])
        elif k == 9:
            nd = rng.choice(digits)
            yield "json:bigint-input", (
                '{"command":"sign","version":5,"keyId":"m/44\'/0\'/0\'/0/0","message":{"tx":"00",'
                '"input":' + "7" * nd + ',"sighashComputationMode":"legacy"},"auth":{"receipt":'
                '"00","receipt_merkle_proof":["00"]}}\n').encode()
        elif k == 10:
            yield "json:ctrl", b'{"command":"ver\x01sion"}\n'
        else:
            nd = rng.choice([100, 5000])
            yield "json:bigexp", ('{"command":"sign","version":1E' + "9" * nd + "}\n").encode()


HOSTILE_LEAVES = [
    ("cmd-list", ("command",), []), ("cmd-dict", ("command",), {}),
    ("cmd-none", ("command",), None), ("cmd-num", ("command",), 7),
    ("cmd-float", ("command",), 1.5), ("cmd-bool", ("command",), True),
    ("cmd-nested", ("command",), [["sign"]]),
    ("ver-list", ("version",), [5]), ("ver-dict", ("version",), {"a": 5}),
]


class rq_raw(bytes):
    """bytes that are already RLP and must be embedded as they are"""


_orig_rlp_encode = rq.rlp_encode


def _rlp_encode_with_raw(item):
    if isinstance(item, rq_raw):
        return bytes(item)
    if isinstance(item, (bytes, bytearray)):
        return _orig_rlp_encode(item)
    payload = b"".join(_rlp_encode_with_raw(x) for x in item)
    return rq._rlp_len(len(payload), 0xc0) + payload


rq.rlp_encode = _rlp_encode_with_raw


def structure_aware(rng, spec):
    """the C02 grid (already hostile on types) + leaves aimed at conversions"""
    for v1, name, label, req in c02.gen_requests(spec):
        yield "grid:%s" % name, v1, req
    for v1 in (False, True):
        b = c02.bases(random.Random(spec["seed"] + 17), v1)
        for name, base in b.items():
            for lab, path, val in HOSTILE_LEAVES:
                r = copy.deepcopy(base)
                r[path[0]] = val
                yield "leaf:%s:%s" % (name, lab), v1, r
        if v1:
            continue
        for base in ("sign.legacy", "sign.segwit"):
            for lab, val in [("input-neg", -1), ("input-2^32", 2**32), ("input-10^30", 10**30),
                             ("input--2^63", -2**63), ("input-2^32-1", 2**32 - 1)]:
                r = copy.deepcopy(b[base])
                r["message"]["input"] = val
                yield "leaf:%s:%s" % (base, lab), v1, r
            for lab, n in [("proof-256", 256), ("proof-1000", 1000)]:
                r = copy.deepcopy(b[base])
                r["auth"]["receipt_merkle_proof"] = ["aa"] * n
                yield "leaf:%s:%s" % (base, lab), v1, r
            r = copy.deepcopy(b[base])
            r["auth"]["receipt_merkle_proof"] = ["bb" * 300]
            yield "leaf:%s:node-300" % base, v1, r
            r = copy.deepcopy(b[base])
            r["auth"]["receipt"] = "f9ffff" + "00" * 10
            yield "leaf:%s:receipt-lying-header" % base, v1, r
            for lab, tx in [("tx-notatx", "00" * 9), ("tx-one-byte", "01"),
                            ("tx-empty-script", btctx.ser_tx(1, [(bytes(32), 0, b"", 0)], [],
                                                              0).hex()),
                            ("tx-no-inputs", btctx.ser_tx(1, [], [(5, b"\x51")], 0).hex()),
                            ("tx-no-inputs-1out", btctx.ser_tx(2, [], [(1, b"")], 0).hex()),
                            ("tx-huge-count", "01000000" + "ff" * 9 + "00" * 4),
                            ("tx-trunc-push", btctx.ser_tx(1, [(bytes(32), 0, b"\x4c", 0)], [],
                                                           0).hex())]:
                r = copy.deepcopy(b[base])
                r["message"]["tx"] = tx
                yield "leaf:%s:%s" % (base, lab), v1, r
        for lab, n in [("ws-65536", 65536), ("ws-65535", 65535), ("ws-65525", 65525),
                       ("ws-70000", 70000), ("ws-200000", 200000)]:
            r = copy.deepcopy(b["sign.segwit"])
            r["message"]["witnessScript"] = "ab" * n
            yield "leaf:sign.segwit:%s" % lab, v1, r
        for lab, val in [("ov-2^64", 2**64), ("ov-neg", -5), ("ov-10^30", 10**30)]:
            r = copy.deepcopy(b["sign.segwit"])
            r["message"]["outpointValue"] = val
            yield "leaf:sign.segwit:%s" % lab, v1, r
        a = b["advanceBlockchain"]
        bro = a["brothers"][0][0]
        for lab, bl in [("bros-256", [bro] * 256), ("bros-300", [bro] * 300),
                        ("bro-hex-not-rlp", ["aabbcc"]), ("bro-rlp-string", ["83aabbcc"]),
                        ("bro-rlp-short-list", [rq.rlp_encode([b"\x01"] * 3).hex()]),
                        ("bro-17-fields", [gb.gen_block(rng, 17, tiny=True)["raw"].hex()]),
                        ("bro-nested-lists", [rq.rlp_encode([[b"\x01"]] * 19).hex()]),
                        ("bro-cb-short", [rq.rlp_encode([b"\x01"] * 19).hex()]),
                        ("bro-trailing", [bro + "00"]), ("bro-00", ["00"]), ("bro-c0", ["c0"])] + [
                        # (an RLP *string* whose length is a header's field count)
                        ("bro-rlp-string-of-%d-bytes" % n_, [rq.rlp_encode(bytes(range(n_))).hex()])
                        for n_ in (16, 17, 18, 19, 20, 21)]:
            r = copy.deepcopy(a)
            r["brothers"][0] = bl
            yield "leaf:advance:%s" % lab, v1, r
        def deep_rlp(depth, width=0):
            # a valid RLP list nested `depth` levels (what a recursive decoder chokes on)
            item = b"\xc0"
            for _ in range(depth):
                item = rq.rlp_encode([rq_raw(item)] + [b"\x01"] * width)
            return item.hex()
        for d in (100, 500, 990, 1000, 1100, 3000, 20000):
            r = copy.deepcopy(a)
            r["brothers"][0] = [deep_rlp(d)]
            yield "leaf:advance:bro-deep-%d" % d, v1, r
            for cmd in ("advanceBlockchain", "updateAncestorBlock"):
                r = copy.deepcopy(b[cmd])
                r["blocks"][0] = deep_rlp(d)
                yield "leaf:%s:blk-deep-%d" % (cmd[:7], d), v1, r
                r = copy.deepcopy(b[cmd])
                # 19 fields, one of which is the deep list
                r["blocks"][0] = rq.rlp_encode([b"\x01"] * 18 + [rq_raw(bytes.fromhex(
                    deep_rlp(d)))]).hex()
                yield "leaf:%s:blk-deep-field-%d" % (cmd[:7], d), v1, r
        # one field of a 19-field header nested d levels, for every d (step 7, shifted per
        # seed) up to 1500 and in three positions: what decodes may still be too deep to
        # re-encode, hash or walk
        for cmd in ("advanceBlockchain", "updateAncestorBlock"):
            for d in range(1 + spec["seed"] % 7, 1500, 7):
                for pos in (0, 5, 16):
                    fields = [b"\x01"] * 19
                    fields[pos] = rq_raw(bytes.fromhex(deep_rlp(d)))
                    r = copy.deepcopy(b[cmd])
                    r["blocks"][0] = rq.rlp_encode(fields).hex()
                    yield "leaf:%s:blk-field%d-nested-sweep" % (cmd[:7], pos), v1, r
                if cmd == "advanceBlockchain" and d % 21 < 7:
                    fields = [b"\x01"] * 19
                    fields[5] = rq_raw(bytes.fromhex(deep_rlp(d)))
                    r = copy.deepcopy(b[cmd])
                    r["brothers"][0] = [rq.rlp_encode(fields).hex()]
                    yield "leaf:advance:bro-field-nested-sweep", v1, r
        for cmd in ("advanceBlockchain", "updateAncestorBlock"):
            for lab, blk in [("blk-nothex", "zz"), ("blk-odd", "abc"), ("blk-empty", ""),
                             ("blk-not-rlp", "aabbcc"), ("blk-rlp-string", "83aabbcc"),
                             ("blk-c0", "c0"), ("blk-nested", rq.rlp_encode([[b"\x01"]] * 19).hex()),
                             ] + [("blk-rlp-string-of-%d-bytes" % n_,
                                   rq.rlp_encode(bytes(range(1, n_ + 1))).hex())
                                  for n_ in (16, 17, 18, 19, 20, 21)] + [
                             # (an RLP string whose length is a header's field count; also
                             # as the second block, after a good one)
                             ("blk-16", rq.rlp_encode([b"\x01"] * 16).hex()),
                             ("blk-21", rq.rlp_encode([b"\x01"] * 21).hex()),
                             ("blk-cb-short", rq.rlp_encode([b"\x01"] * 19).hex()),
                             ("blk-mm-70000", rq.rlp_encode([bytes(70000)] + [b"\x01"] * 17 +
                                                            [bytes(80)]).hex()),
                             ("blk-mm-65536", rq.rlp_encode([bytes(65500)] + [b"\x22" * 3] * 16 +
                                                            [bytes(80), b"", bytes(100)]).hex()),
                             ("blk-trailing", b[cmd]["blocks"][0] + "00"),
                             ] + [
                             # the compressed coinbase transaction (last field) starts with
                             # an 8-byte count of bytes already hashed, then a 32-byte
                             # midstate: counts at the limits of the hash's length field,
                             # not a multiple of 64, a midstate cut short
                             ("blk-cbtx-" + lab2, rq.rlp_encode(
                                 [bytes(32)] * 6 + [bytes(256)] + [b"\x01"] * 9 +
                                 [bytes(80), b"", cb]).hex())
                             for lab2, cb in [
                                 ("count-2^61", (2**61).to_bytes(8, "big") + bytes(32) + b"t" * 40),
                                 ("count-2^61-64", (2**61 - 64).to_bytes(8, "big") + bytes(32) +
                                  b"t" * 80),
                                 ("count-max", b"\xff" * 8 + bytes(32) + b"t" * 10),
                                 ("count-odd", (65).to_bytes(8, "big") + bytes(32) + b"t" * 10),
                                 ("count-2^63", (2**63).to_bytes(8, "big") + bytes(32) + b"t"),
                                 ("midstate-short", (64).to_bytes(8, "big") + bytes(20)),
                                 ("only-count", (64).to_bytes(8, "big")),
                                 ("empty", b"")]] + [
                             ("blk-lying-header", "f9ffff" + "00" * 20)]:
                r = copy.deepcopy(b[cmd])
                r["blocks"][0] = blk
                yield "leaf:%s:%s" % (cmd[:7], lab), v1, r
            r = copy.deepcopy(b[cmd])
            r["blocks"] = r["blocks"] * 200
            if cmd == "advanceBlockchain":
                r["brothers"] = [[] for _ in r["blocks"]]
            yield "leaf:%s:400-blocks" % cmd[:7], v1, r


# -------------------------------------------------------------------- oracle --

def origin(exc):
    """(exception type, innermost repository frame) of what the server wrapped"""
    e = exc
    while e.__context__ is not None and type(e).__name__.startswith("RequestHandler"):
        e = e.__context__
    frames = traceback.extract_tb(e.__traceback__)
    where = "?"
    for fr in reversed(frames):
        if "/middleware/" in fr.filename:
            where = "%s:%s" % (fr.filename.split("/middleware/")[1], fr.name)
            break
    return type(e).__name__, where, e


def judge(out, exc):
    """-> None if fine, else (mechanism, detail)"""
    if exc is not None:
        if isinstance(exc, StepBudgetExceeded):
            return "step-budget-exceeded", {}
        tname, where, e = origin(exc)
        return "uncaught:%s@%s" % (tname, where), {"exc": repr(e)[:300],
                                                   "reply": out[:100].decode("latin1")}
    if out.count(b"\n") != 1 or not out.endswith(b"\n"):
        return "not-exactly-one-line", {"out": out[:200].decode("latin1")}
    try:
        r = json.loads(out.decode())
    except Exception as e:
        return "reply-not-json", {"out": out[:200].decode("latin1"), "e": repr(e)}
    if not isinstance(r, dict) or type(r.get("errorcode")) is not int:
        return "reply-without-int-errorcode", {"out": out[:200].decode("latin1")}
    return None


def run_shard(spec, acc):
    env.setup()
    enable_logging()
    from ..stack import Stack
    rng = random.Random(spec["seed"] * 977 + spec["shard"])
    quick = spec["tier"] == "quick"
    maxlen = (1 << 20) if quick else (1 << 24)
    steps = Steps()
    steps.start()
    st = {}

    # one manager per mode; every third shard runs its version-5 manager as manager_sgx.py
    # or manager_tcp.py wire it (other dongle class, platform set accordingly)
    plat5 = ["ledger", "sgx", "tcp"][spec["shard"] % 3]
    acc.count("shards_on_platform_" + plat5)
    # three shards in eight run under an operator's quieter logging configuration (-l file
    # with level INFO / WARNING / CRITICAL): what is logged is no part of what is answered
    loglevel = {5: "WARNING", 6: "INFO", 7: "CRITICAL"}.get(spec["shard"] % 8, "DEBUG")
    acc.count("shards_logging_at_" + loglevel)

    def get_stack(v1):
        if v1 not in st:
            plat = "ledger" if v1 else plat5
            dev = c02.make_device(random.Random(5), plat)
            s = Stack(dev, version_one=v1, loglevel=loglevel)
            s.__enter__()
            s.initialize()
            st[v1] = (s, dev)
        return st[v1]

    slow_rng = random.Random(spec["seed"] ^ 0x51)

    def feed(cls, v1, line, case):
        s, dev = get_stack(v1)
        dev.mode = MODE_SIGNER
        steps.n = 0
        steps.budget = STEP_BUDGET
        if not v1 and plat5 != "ledger" and slow_rng.random() < 0.03:
            # over TCP the transport sets no time limit: now and then the device takes its
            # time (seconds to minutes of virtual time) over every answer of a request
            s.bus.slow_cmds = {"*": slow_rng.choice([9.0, 10.5, 11.5, 31.0, 61.0, 301.0])}
            acc.count("lines_served_by_a_slow_device_over_tcp")
        try:
            out, exc = s.handle_line(line)
        except StepBudgetExceeded as e:
            out, exc = b"", e
        s.bus.slow_cmds = None
        steps.budget = None
        acc.evaluations += 1
        acc.counters["max_steps"] = max(acc.counters.get("max_steps", 0), steps.n)
        del s.bus.events[:]
        del dev.sign_records[:]
        del dev.adv_records[:]
        acc.distinct.add(cls)
        v = judge(out, exc)
        if v is None:
            acc.count("answered")
            return True
        mech, detail = v
        detail["class"] = cls
        detail["line"] = line[:300].decode("latin1")
        acc.violation(mech, detail, case)
        # rebuild so that one defect does not mask the rest
        try:
            s.__exit__(None, None, None)
        finally:
            st.pop(v1, None)
        return False

    try:
        # (0) every command once, well-formed, on this shard's platform and in both modes
        for v1_ in (False, True):
            for name_, req_ in sorted(c02.bases(random.Random(spec["seed"] + 29), v1_).items()):
                acc.count("well_formed_requests_of_every_command")
                feed("base:%s:%s" % (name_, "v1" if v1_ else plat5), v1_,
                     json.dumps(req_).encode() + b"\n",
                     {"kind": "req", "v1": v1_, "request": req_})
        # (0b) the same requests with one hexadecimal field written with a 0x / 0X prefix
        # (as nodes print such values): whatever each layer makes of the prefix, the request
        # gets its answer
        def prefixed(v, path=()):
            if isinstance(v, dict):
                for k_, x_ in v.items():
                    yield from prefixed(x_, path + (k_,))
            elif isinstance(v, list):
                for i_, x_ in enumerate(v[:2]):
                    yield from prefixed(x_, path + (i_,))
            elif isinstance(v, str) and len(v) >= 8 and len(v) % 2 == 0 and \
                    all(c_ in "0123456789abcdefABCDEF" for c_ in v):
                yield path

        def with_prefix(req_, path, pre):
            import copy as _copy
            r_ = _copy.deepcopy(req_)
            node = r_
            for k_ in path[:-1]:
                node = node[k_]
            node[path[-1]] = pre + node[path[-1]]
            return r_
        for v1_ in (False, True):
            for name_, req_ in sorted(c02.bases(random.Random(spec["seed"] + 31), v1_).items()):
                for path in list(prefixed(req_))[:6]:
                    for pre_ in ("0x", "0X"):
                        acc.count("requests_with_a_0x_prefixed_hex_field")
                        r_ = with_prefix(req_, path, pre_)
                        # (on a manager of its own: nothing an earlier line left behind - a
                        # pending repair, a device in another app - stands in the way)
                        if v1_ in st:
                            st.pop(v1_)[0].__exit__(None, None, None)
                        feed("%s:%s:%s" % (pre_, name_, ".".join(map(str, path))), v1_,
                             json.dumps(r_).encode() + b"\n",
                             {"kind": "req", "v1": v1_, "request": r_})
        # (1) raw
        for cls, line in raw_lines(rng, 130 if quick else 2000, maxlen):
            acc.count("raw_lines")
            feed(cls, rng.random() < 0.2, line, {"kind": "line", "v1": False,
                                                 "line": line[:4096].hex(),
                                                 "len": len(line)})
        # (1b) long runs of multi-byte characters, in every alignment: whatever byte
        # offset some layer cuts, pads or wraps a line at, one of these has a character
        # sitting across it
        for cls, line in multibyte_runs(rng, quick, spec["shard"]):
            acc.count("multibyte_run_lines")
            feed(cls, rng.random() < 0.2, line, {"kind": "line", "v1": False, "len": len(line),
                                                 "line": line.hex() if len(line) < 20000
                                                 else None})
        # (2) JSON hostile
        for cls, line in json_hostile(rng, 36 if quick else 240, not quick):
            acc.count("json_hostile")
            feed(cls, False, line, {"kind": "json", "cls": cls, "v1": False,
                                    "line": line[:2048].hex() if len(line) < 4096 else None,
                                    "len": len(line), "head": line[:60].decode("latin1")})
        # (2c) objects that repeat a member name (at the top, inside message / auth, in any
        # nested object): well-formed JSON text that no dictionary serialises to - written
        # out by hand here.  Whatever the manager makes of the repetition, it answers.
        for cls, line in repeated_members(rng, c02.bases(random.Random(spec["seed"] + 23),
                                                         False)):
            acc.count("lines_with_a_repeated_member_name")
            feed(cls, rng.random() < 0.15, line, {"kind": "line", "v1": False,
                                                  "len": len(line), "line": line.hex()})
        # (2b) every nesting depth around the interpreter's limits, one by one: between the
        # depth the parser still accepts and the depth other recursive consumers (logging
        # the request, re-serialising it) still accept there are windows a few levels wide
        lo, hi = (900, 2600) if quick else (1, 6000)
        for d in range(lo, hi):
            if d % spec["n"] != spec["shard"]:
                continue
            for cls, line in (
                    ("json:depth-sweep-field-array", '{"command":"version","version":5,"x":' +
                     "[" * d + "]" * d + "}"),
                    ("json:depth-sweep-field-object", '{"command":"sign","version":5,"message":' +
                     '{"a":' * d + "1" + "}" * d + "}"),
                    ("json:depth-sweep-top-array", "[" * d + "]" * d)):
                acc.count("nesting_depths_swept")
                feed(cls, d % 5 == 0, line.encode() + b"\n",
                     {"kind": "depth", "cls": cls, "depth": d, "v1": d % 5 == 0})
        # (3) structure-aware; kept for (4).  The grid is dealt to shards by its own
        # generator; the hand-written leaves are dealt here
        kept = []
        leaf_no = 0
        for cls, v1, req in structure_aware(rng, spec):
            if cls.startswith("leaf:"):
                leaf_no += 1
                if leaf_no % spec["n"] != spec["shard"]:
                    continue
            try:
                line = json.dumps(req).encode() + b"\n"
            except (TypeError, ValueError):
                continue
            acc.count("structure_aware")
            if cls.startswith("leaf:"):
                acc.count("hostile_leaves")
            ok = feed(cls, v1, line, {"kind": "req", "v1": v1, "request": req if len(line) <
                                      20000 else None, "cls": cls})
            if len(kept) < 400 and ok and rng.random() < 0.05:
                kept.append((cls, v1, line))
        # (4) orderings: shuffled replays over the same manager lifetime
        for rnd in range(2 if quick else 20):
            rng.shuffle(kept)
            for cls, v1, line in kept:
                acc.count("sequence_lines")
                feed("seq:" + cls, v1, line, {"kind": "line", "v1": v1, "line": line.hex()
                                              if len(line) < 20000 else None})
        # live server
        live(acc, spec, rng, 8 if quick else 100)
        # the manager as it is really started (its own process, entry point on the main
        # thread) and clients that misbehave at the socket level
        if spec["shard"] % 4 == 1 or not quick:
            entry_point_process(acc, spec, rng)
    finally:
        steps.stop()
        for (s, dev) in st.values():
            s.__exit__(None, None, None)
    if len(acc.samples) < 3:
        acc.sample({"classes_seen": sorted(acc.distinct)[:40]})


def live(acc, spec, rng, n):
    """real TCPServer thread + real sockets: one line per connection, then a probe"""
    from ..stack import Stack
    from comm.server import TCPServer
    dev = c02.make_device(random.Random(6))
    with Stack(dev) as s:
        sock = socket.socket()
        sock.bind(("127.0.0.1", 0))
        port = sock.getsockname()[1]
        sock.close()
        srv = TCPServer("127.0.0.1", port, s.protocol)
        t = threading.Thread(target=lambda: _quiet(srv.run), daemon=True)
        t.start()
        import time
        t0 = time.time()
        while srv.server is None and time.time() - t0 < 10:
            time.sleep(0.005)
        lines = []
        for cls, line in raw_lines(rng, n // 2, 1 << 16):
            lines.append((cls, line if line.endswith(b"\n") else line + b"\n"))
        b = c02.bases(random.Random(spec["seed"] + 17), False)
        for name in list(b)[:n // 2]:
            lines.append(("live:" + name, json.dumps(b[name]).encode() + b"\n"))
        for cls, line in lines:
            acc.count("live_lines")
            acc.evaluations += 1
            dev.mode = MODE_SIGNER
            got = _client(port, line)
            probe = _client(port, b'{"command":"version"}\n')
            case = {"kind": "live", "line": line[:4096].hex()}
            v = judge(got, None) if got is not None else ("live-no-answer", {})
            if v is not None:
                acc.violation("live:" + v[0], dict(v[1], cls=cls), case)
            elif probe is None or judge(probe, None) is not None or \
                    json.loads(probe.decode()).get("errorcode") != 0:
                acc.violation("live:server-gone-after-line", {"cls": cls,
                                                              "line": line[:200].decode("latin1")},
                              case)
                break
            else:
                acc.count("answered")
        if srv.server is not None:
            srv.server.shutdown()
        t.join(5)


def entry_point_process(acc, spec, rng):
    """mgr.runner.ManagerRunner.run() - what manager_ledger.py calls - in a child process,
    on its main thread, logging configured from the shipped logging.cfg; clients that hang
    up without reading, reset the connection, send nothing or half a line.  After each of
    them the manager must still be there and answer a probe."""
    import time
    import subprocess
    sock = socket.socket()
    sock.bind(("127.0.0.1", 0))
    port = sock.getsockname()[1]
    sock.close()
    v1 = spec["shard"] % 8 == 5
    import tempfile as _tf
    import shutil as _sh
    mgr_tmp = _tf.mkdtemp(prefix="pv-c03-mgr-")
    envv = dict(os.environ, PYTHONHASHSEED="0", PYTHONDONTWRITEBYTECODE="1", PV_MGR_TMP=mgr_tmp)
    child = subprocess.Popen([sys.executable, "-m", "pv.props.c03", "--manager-child",
                              str(port), "1" if v1 else "0"], cwd=env.VERIF, env=envv,
                             stdout=subprocess.DEVNULL, stderr=subprocess.DEVNULL)
    try:
        t0 = time.time()
        up = False
        while time.time() - t0 < 20 and child.poll() is None:
            if _client(port, b'{"command":"version"}\n'):
                up = True
                break
            time.sleep(0.05)
        if not up:
            acc.notes.append("entry-point child did not come up (rc=%r)" % child.poll())
            return
        acc.count("entry_point_processes")
        ver = 1 if v1 else 5
        good = json.dumps({"command": "getPubKey", "version": ver,
                           "keyId": "m/44'/0'/0'/0/0"}).encode() + b"\n"

        def hangup(line, how):
            cs = socket.create_connection(("127.0.0.1", port), timeout=5)
            if line:
                cs.sendall(line)
            if how == "rst":
                import struct as _st
                cs.setsockopt(socket.SOL_SOCKET, socket.SO_LINGER, _st.pack("ii", 1, 0))
            elif how == "shut-wr":
                cs.shutdown(socket.SHUT_WR)
                time.sleep(0.05)
            elif how == "linger":
                time.sleep(0.05)
            cs.close()
        behaviours = [("close-without-reading", good, "close"),
                      ("close-without-reading-again", good, "close"),
                      ("reset-without-reading", good, "rst"),
                      ("connect-and-close", b"", "close"),
                      ("half-a-line", good[:20], "close"),
                      ("half-a-line-reset", good[:20], "rst"),
                      ("shutdown-write-side", good, "shut-wr"),
                      ("two-lines-then-close", good + good, "linger"),
                      ("garbage-then-close", rng.randbytes(200) + b"\n", "close")]
        rng.shuffle(behaviours)
        for name, line, how in behaviours:
            acc.evaluations += 1
            acc.count("socket_level_misbehaviours")
            try:
                hangup(line, how)
            except OSError:
                pass
            time.sleep(0.05)
            probe = _client(port, b'{"command":"version"}\n')
            ok = probe is not None and judge(probe, None) is None and \
                json.loads(probe.decode()).get("errorcode") == 0
            if child.poll() is not None or not ok:
                acc.violation("entry-point:manager-gone-after-client-%s" % name,
                              {"exit_status": child.poll(), "probe": repr(probe)[:80],
                               "legacy_mode": v1}, {"kind": "entry", "behaviour": name})
                return
            acc.count("answered")
        # ---- clients that send their line and close their writing side at once (what
        # `nc -N`, a piped client or HTTP-style one-shot clients do), then read: they get
        # their one line like anybody else - also when they had to queue behind another
        # client meanwhile (the half-close is long there when their turn comes)
        for k in range(6):
            acc.evaluations += 1
            acc.count("half_closing_clients")
            line = [good, b'{"command":"version"}\n',
                    json.dumps({"command": "blockchainState", "version": ver}).encode() + b"\n"
                    ][k % 3]
            try:
                first = None
                if k >= 3:
                    first = socket.create_connection(("127.0.0.1", port), timeout=10)
                    time.sleep(0.05)      # (the server now waits for this client's line)
                cs = socket.create_connection(("127.0.0.1", port), timeout=20)
                cs.sendall(line)
                cs.shutdown(socket.SHUT_WR)
                if first is not None:
                    time.sleep(0.1)
                    first.sendall(b'{"command":"version"}\n')
                    first.makefile("rb").readline()
                    first.close()
                reply = b""
                while True:
                    ch = cs.recv(65536)
                    if not ch:
                        break
                    reply += ch
                cs.close()
            except OSError as e:
                reply = None
            if reply is None or reply.count(b"\n") != 1 or judge(reply, None) is not None \
                    or child.poll() is not None:
                acc.violation("entry-point:half-closing-client-not-answered%s" % (
                    "-after-queueing" if k >= 3 else ""),
                    {"exit_status": child.poll(), "reply": repr(reply)[:120],
                     "legacy_mode": v1, "line": line.decode()[:80]},
                    {"kind": "entry", "behaviour": "half-close"})
                return
            acc.count("answered")
        # ---- requests whose string fields invite catastrophic backtracking or any other
        # super-linear scan: a long run of characters that are valid where they stand,
        # followed by one that is not.  Every field the documents name is tried.  The
        # manager answers such a line in milliseconds; one left unanswered for
        # BAIT_WAIT_S (wall clock, four orders of magnitude above that) while the process
        # is alive is a request that never gets its reply - and, the server being
        # single-threaded, neither does anybody else's.
        for name, req in backtracking_baits(rng, ver):
            acc.evaluations += 1
            acc.count("backtracking_baits")
            line = json.dumps(req).encode() + b"\n"
            t1 = time.time()
            reply = _client(port, line, timeout=BAIT_WAIT_S)
            took = time.time() - t1
            acc.counters["max_bait_answer_ms"] = max(acc.counters.get("max_bait_answer_ms", 0),
                                                     int(took * 1000))
            if reply is None and took >= BAIT_WAIT_S - 1 and child.poll() is None:
                acc.violation("entry-point:request-never-answered:%s" % name,
                              {"waited_s": round(took, 1), "legacy_mode": v1,
                               "request": repr(req)[:300]},
                              {"kind": "bait", "name": name, "request": req, "v1": v1})
                return
            if reply is None or judge(reply, None) is not None or child.poll() is not None:
                acc.violation("entry-point:bad-answer-to:%s" % name,
                              {"exit_status": child.poll(), "reply": repr(reply)[:120],
                               "legacy_mode": v1},
                              {"kind": "bait", "name": name, "request": req, "v1": v1})
                return
            acc.count("answered")
    finally:
        if child.poll() is None:
            child.kill()
        child.wait(10)
        _sh.rmtree(mgr_tmp, ignore_errors=True)


BAIT_WAIT_S = 60


def backtracking_baits(rng, ver):
    """(name, request) pairs"""
    path = "m/44'/0'/0'/0/0"
    runs = []
    for n in (4300, 4301, 5000):
        # (more digits than the interpreter converts to a number without being told)
        runs += [("digits-only-%d" % n, "m/44'/0'/0'/0/" + "9" * n),
                 ("zeros-only-%d" % n, "m/44'/0'/0'/0/" + "0" * n),
                 ("digits-hardened-%d" % n, "m/" + "1" * n + "'/0'/0'/0/0")]
    for n in (40, 64, 400):
        runs += [("digits-then-letter-%d" % n, "m/44'/0'/0'/0/" + "9" * n + "h"),
                 ("digits-then-blank-%d" % n, "m/44'/0'/0'/0/" + "1" * n + " "),
                 ("hardened-run-%d" % n, "m/" + "1'" * n + "x"),
                 ("elements-run-%d" % n, "m/" + "1/" * n + "x"),
                 ("slashes-run-%d" % n, path + "/" * n + "x"),
                 ("quotes-run-%d" % n, "m/44" + "'" * n + "/0"),
                 ("m-run-%d" % n, "m/" * n + "0"),
                 ("zeros-then-quote-quote-%d" % n, "m/" + "0" * n + "''")]
    out = []
    for nm, kid in runs:
        out.append(("keyId:" + nm, {"command": "getPubKey", "version": ver, "keyId": kid}))
    for nm, kid in rng.sample(runs, 6):
        out.append(("sign.keyId:" + nm, {"command": "sign", "version": ver, "keyId": kid,
                                         "message": {"hash": "aa" * 32}}))
    hexruns = []
    for n in (64, 400, 5000):
        hexruns += [("hex-then-g-%d" % n, "ab" * n + "g"),
                    ("hex-then-blank-%d" % n, "ab" * n + " "),
                    ("0x-run-%d" % n, "0x" * n + "zz"),
                    ("odd-hex-%d" % n, "a" * (2 * n + 1)),
                    ("hex-then-newline-%d" % n, "ab" * n + "\n"),
                    ("blank-run-%d" % n, " " * n + "ab")]
    for nm, hx in hexruns:
        out.append(("hash:" + nm, {"command": "sign", "version": ver, "keyId": path,
                                   "message": {"hash": hx}}))
        out.append(("tx:" + nm, {"command": "sign", "version": ver, "keyId": path,
                                 "auth": {"receipt": "aa", "receipt_merkle_proof": ["aa"]},
                                 "message": {"tx": hx, "input": 0,
                                             "sighashComputationMode": "legacy"}}))
    for nm, hx in rng.sample(hexruns, 8):
        out.append(("receipt:" + nm, {"command": "sign", "version": ver, "keyId": path,
                                      "auth": {"receipt": hx, "receipt_merkle_proof": [hx]},
                                      "message": {"tx": "aa", "input": 0,
                                                  "sighashComputationMode": "legacy"}}))
        out.append(("witnessScript:" + nm,
                    {"command": "sign", "version": ver, "keyId": path,
                     "auth": {"receipt": "aa", "receipt_merkle_proof": ["aa"]},
                     "message": {"tx": "aa", "input": 0, "sighashComputationMode": "segwit",
                                 "witnessScript": hx, "outpointValue": 1}}))
        out.append(("blocks:" + nm, {"command": "advanceBlockchain", "version": ver,
                                     "blocks": [hx], "brothers": [[hx]]}))
        out.append(("ancestor:" + nm, {"command": "updateAncestorBlock", "version": ver,
                                       "blocks": [hx]}))
        out.append(("udValue:" + nm, {"command": "signerHeartbeat", "version": ver,
                                      "udValue": hx}))
        out.append(("mode:" + nm, {"command": "sign", "version": ver, "keyId": path,
                                   "auth": {"receipt": "aa", "receipt_merkle_proof": ["aa"]},
                                   "message": {"tx": "aa", "input": 0,
                                               "sighashComputationMode": hx}}))
        out.append(("command:" + nm, {"command": hx, "version": ver}))
    rng.shuffle(out)
    return out


def manager_child(argv):
    """child process: the manager's real entry path on the main thread"""
    import logging as _l
    from types import SimpleNamespace
    port, v1 = int(argv[0]), argv[1] == "1"
    env.setup()
    _l.disable(_l.NOTSET)
    from ..simdev.transport import Bus, HidPatch, VirtualClock
    from comm.platform import Platform
    from mgr.runner import ManagerRunner
    from ledger.hsm2dongle import HSM2Dongle
    import ledger.protocol as lp
    import manager_ledger
    import tempfile
    dev = c02.make_device(random.Random(6))
    bus = Bus(dev, VirtualClock())
    slow = os.environ.get("PV_SLOW_EXCHANGES")
    if slow:
        # (every exchange takes that many real seconds: a slow device)
        bus.read_latency = float(slow)
    if os.environ.get("PV_APDU_LOG"):
        bus.nested_log = os.environ["PV_APDU_LOG"]
    lp.HSM2ProtocolLedger.OPEN_APP_WAIT = 0
    Platform.set(Platform.LEDGER)
    # (the parent kills this process when it is done with it: the directory is the
    # parent's to make and to remove)
    d = os.environ.get("PV_MGR_TMP") or tempfile.mkdtemp(prefix="pv-c03-mgr-")
    pinp = os.path.join(d, "pin.txt")
    with open(pinp, "wb") as f:
        f.write(b"abcd1234")
    os.chdir(os.path.join(env.REPO, "middleware"))
    opts = SimpleNamespace(host="127.0.0.1", port=port, io_debug=False, pin_file=pinp,
                           force_pin_change=False, logconfigfilepath="logging.cfg",
                           version_one=v1)
    with HidPatch(bus):
        ManagerRunner("powHSM manager", lambda o: HSM2Dongle(o.io_debug),
                      manager_ledger.load_pin).run(opts)
    return 0


def _quiet(fn):
    try:
        fn()
    except BaseException:    # noqa
        pass


def _client(port, line, timeout=10):
    try:
        cs = socket.create_connection(("127.0.0.1", port), timeout=timeout)
        cs.sendall(line)
        data = b""
        while True:
            chunk = cs.recv(65536)
            if not chunk:
                break
            data += chunk
        cs.close()
        return data
    except OSError:
        return None


def replay(case, acc):
    env.setup()
    enable_logging()
    from ..stack import Stack
    if case["kind"] == "req" and case.get("request") is not None:
        line = json.dumps(case["request"]).encode() + b"\n"
    elif case.get("line"):
        line = bytes.fromhex(case["line"])
    elif case["kind"] == "bait":
        import time
        import subprocess
        sock = socket.socket()
        sock.bind(("127.0.0.1", 0))
        port = sock.getsockname()[1]
        sock.close()
        import tempfile as _tf
        import shutil as _sh
        mgr_tmp = _tf.mkdtemp(prefix="pv-c03-mgr-")
        child = subprocess.Popen([sys.executable, "-m", "pv.props.c03", "--manager-child",
                                  str(port), "1" if case.get("v1") else "0"], cwd=env.VERIF,
                                 env=dict(os.environ, PV_MGR_TMP=mgr_tmp),
                                 stdout=subprocess.DEVNULL, stderr=subprocess.DEVNULL)
        try:
            t0 = time.time()
            while time.time() - t0 < 20 and not _client(port, b'{"command":"version"}\n'):
                time.sleep(0.05)
            t1 = time.time()
            reply = _client(port, json.dumps(case["request"]).encode() + b"\n",
                            timeout=BAIT_WAIT_S)
            if reply is None or judge(reply, None) is not None:
                acc.violation("entry-point:request-never-answered:%s" % case["name"],
                              {"waited_s": round(time.time() - t1, 1),
                               "reply": repr(reply)[:100]}, case)
        finally:
            child.kill()
            child.wait(10)
            _sh.rmtree(mgr_tmp, ignore_errors=True)
        return
    elif case["kind"] == "depth":
        # (the stack depth of the replay differs from the run's: neighbours too)
        d = case["depth"]
        dev = c02.make_device(random.Random(5))
        with Stack(dev, version_one=case.get("v1", False)) as s:
            s.initialize()
            for dd in range(max(1, d - 40), d + 40):
                body = {"json:depth-sweep-field-array": '{"command":"version","version":5,"x":' +
                        "[" * dd + "]" * dd + "}",
                        "json:depth-sweep-field-object":
                        '{"command":"sign","version":5,"message":' + '{"a":' * dd + "1" +
                        "}" * dd + "}"}.get(case["cls"], "[" * dd + "]" * dd)
                out, exc = s.handle_line(body.encode() + b"\n")
                v = judge(out, exc)
                if v is not None:
                    acc.violation(v[0], dict(v[1], depth=dd), case)
                    return
        return
    else:
        acc.notes.append("case too large to store; re-run the tier")
        return
    dev = c02.make_device(random.Random(5))
    with Stack(dev, version_one=case.get("v1", False)) as s:
        s.initialize()
        out, exc = s.handle_line(line)
        v = judge(out, exc)
        if v is not None:
            acc.violation(v[0], v[1], case)


if __name__ == "__main__":
    if len(sys.argv) > 2 and sys.argv[1] == "--manager-child":
        sys.exit(manager_child(sys.argv[2:]))
