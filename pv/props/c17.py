# C17 - signer authorizations contain what the device will check
import os
import json
import random
import shutil
import tempfile

from .. import env
from ..gen import ihex, certv1 as g1
from ..oracle.hashes import keccak256
from ..simdev.genuine import GenuineLedger
from ..simdev.device import MODE_BOOTLOADER
from .c19 import run_main, verify_der

ID = "C17"
LEVEL = "exploration"
RULE = ("random 32-byte hashes x iterations {0, 1, 255, 256, 65535, random, -1, 65536, 2^32, "
        "decimal and 0x strings, floats, bools, None, non-numeric strings}: SignerVersion's "
        "message text, EIP-191 wrapping and Keccak-256 digest compared with an independent "
        "computation (own Keccak); in-process signapp.main() 'message' / 'key' / 'manual' runs "
        "over generated Intel-HEX apps: every produced signature verifies (OpenSSL) under the "
        "signing key for that digest, files survive save/load unchanged, malformed hash / "
        "iteration / signature are refused; the real do_authorize_signer against a simulated UI "
        "with 0..10 signatures and device thresholds k in {1..n, never}: the UI receives "
        "OP_SIGVER | hash | BE16(iteration), then the signatures in file order until it reports "
        "'authorized', and the command fails iff it never does. distinct = (iteration class, "
        "#signatures, threshold, operation); non-trivial = all")
RULE_ADDED = (
              'Also: key runs naming another version on an existing file or creating the file; '
              'look-alike hashes (only blanks between digits may be tolerated, and then '
              'canonically); the same signature repeated in the file; half of the authorize '
              'dialogues through adm_ledger main() '
              ' '
              "Round 8: a quarter of the device dialogues end with the transport's close() rais"
              'ing (judged in one direction: never success when the device never authorized). '
              ' '
              'Round 9: tool command lines spelled with long options and -v / --verbose now and'
              ' then. '
              ' '
              'Round 10: other spellings of a valid signature (0x, 0X, upper case, blanks): ref'
              'used with the file untouched, or the written file loads and holds that signature'
              '; hashes with zero bytes at an end. '
              ' '
              'Round 11: message -o runs over files that already hold signatures (same version,'
              ' other iteration, other image). '
              ' '
              'Round 12: authorization files with 11, 12 and 16 signatures (thresholds up to th'
              'e last one). '
              ' '
              'Round 13: authorization objects used on after add_signature refused a signature '
              '(more signatures, save, load). '
              ' '
              'Round 14: keys given with 0x / 0X prefixes and in upper case, keys with leading '
              'or trailing zero digits: refused, or the signature is by the key the digits deno'
              'te. '
              ' '
              'Round 15: `signapp eth` against a simulated Ethereum app, honest and dishonest i'
              'n five ways; key runs reading the image through a pipe. '
              ' '
              'Round 18: loaded authorizations saved unmodified to a fresh path (or over anothe'
              "r signer's file), and once more from the re-loaded object. "
              ' '
              "Round 20: honest Ethereum apps whose signature's r or s begins with 0x80, 0xff, "
              '0x00 or 0x7f (nonces ground). ')
RULE = RULE + " " + RULE_ADDED.strip()
ASSUMPTIONS = [
    "own Keccak-256 (pv/oracle/hashes.py) and OpenSSL verification are the oracles",
    "simulated UI (pv/simdev/genuine.py) answers the signer-authorization dialogue",
]
FLOORS = {"quick": {"evaluations": 1500, "digests_compared": 500, "signatures_verified": 150,
                    "device_dialogues": 150, "refusals_checked": 400, "roundtrips": 150},
          "thorough": {"evaluations": 400000, "digests_compared": 100000,
                       "signatures_verified": 20000, "device_dialogues": 20000,
                       "refusals_checked": 200000, "roundtrips": 8000}}

GOOD_ITERS = [0, 1, 255, 256, 65535, "0", "1", "65535", "0x0", "0xffff", "0x10", "010"]
BAD_ITERS = [-1, 65536, 2**32, "-1", "65536", "0x10000", "abc", "", "1.5", 1.5, True, None,
             [1], "0x"]


def shards(tier, seed):
    if tier == "quick":
        return [{"seed": seed * 1000 + i, "n": 12} for i in range(16)]
    return [{"seed": seed * 1000 + i, "n": 500} for i in range(32)]


def expect_iter(it):
    if isinstance(it, str):
        return int(it, 16) if it.startswith("0x") else int(it, 10)
    return it


def run_case(acc, cseed, tmpdir):
    from admin.signer_authorization import SignerVersion, SignerAuthorization
    from admin.authorize_signer import do_authorize_signer
    import signapp
    rng = random.Random(cseed)
    run_main.vary = random.Random(cseed ^ 0x5a5a5a)
    case = {"seed": cseed}

    def bad(mech, **d):
        acc.violation(mech, d, case)

    # ---------------------------------------------------- message and digest --
    for it in GOOD_ITERS + [rng.randrange(65536), str(rng.randrange(65536)),
                            hex(rng.randrange(65536))]:
        h = rng.randbytes(32)
        k_ = rng.random()
        if k_ < 0.3:
            # hashes that begin or end with zero bytes, or are mostly zero: 32 bytes all the same
            z = rng.choice([1, 1, 2, 4, 16, 31, 32])
            h = (bytes(z) + h)[:32] if rng.random() < 0.6 else (h + bytes(z))[-32:]
            acc.count("hashes_with_zero_bytes_at_an_end")
        hx = h.hex() if rng.random() < 0.7 else h.hex().upper()
        acc.evaluations += 1
        try:
            sv = SignerVersion(hx, it)
        except Exception as e:
            bad("valid-signer-version-refused", hash=hx, iteration=it, exc=repr(e))
            continue
        n = expect_iter(it)
        text = "RSK_powHSM_signer_%s_iteration_%d" % (h.hex(), n)
        wrapped = b"\x19Ethereum Signed Message:\n" + str(len(text)).encode() + text.encode()
        acc.count("digests_compared")
        if sv.msg != text:
            bad("authorization-text-differs", got=sv.msg, want=text)
        if sv.get_authorization_msg() != wrapped:
            bad("eip191-wrapping-differs", got=sv.get_authorization_msg().hex()[:120])
        if sv.get_authorization_digest() != keccak256(wrapped):
            bad("authorization-digest-differs", iteration=it)
        if sv.iteration != n or sv.hash != h.hex():
            bad("signer-version-fields-differ", got=(sv.hash, sv.iteration))
        acc.distinct.add("msg|%s" % (type(it).__name__ + (":hex" if isinstance(it, str) and
                                                          it.startswith("0x") else "")))
    for it in BAD_ITERS:
        acc.evaluations += 1
        acc.count("refusals_checked")
        try:
            SignerVersion(rng.randbytes(32).hex(), it)
            bad("malformed-iteration-accepted:%r" % (it,), iteration=repr(it))
        except Exception:
            pass
    for hx in [rng.randbytes(31).hex(), rng.randbytes(33).hex(), "zz" * 32, "",
               "0x" + rng.randbytes(32).hex(), rng.randbytes(32).hex()[:-1], None, 5,
               rng.randbytes(32)]:
        acc.evaluations += 1
        acc.count("refusals_checked")
        try:
            SignerVersion(hx, 1)
            bad("malformed-hash-accepted", hash=repr(hx)[:80])
        except Exception:
            pass
    # look-alikes of a good hash: same or nearly the same length, one or two characters
    # exchanged (signs, prefixes, underscores, non-ASCII digits, blanks ...).  Anything
    # that is not 64 hex digits must be refused - except that blanks between the digits
    # may be tolerated, in which case the text to sign must be that of the 32 bytes
    good = rng.randbytes(32).hex()
    from .c02 import string_variants
    extra = [("0x-62", "0x" + good[2:]), ("minus-63", "-" + good[1:]), ("plus-63", "+" + good[1:]),
             ("underscore-in", good[:4] + "_" + good[5:]), ("nl-63", good[1:] + "\n"),
             ("blank-63", " " + good[1:]), ("spaced", " ".join(good[i:i + 2] for i in
                                                              range(0, 64, 2))),
             ("nl-first", "\n" + good), ("tab-last", good + "\t")]
    for lab, hx in string_variants(good) + extra:
        acc.evaluations += 1
        acc.count("refusals_checked")
        strict = len(hx) == 64 and all(c in "0123456789abcdefABCDEF" for c in hx)
        try:
            lenient = bytes.fromhex(hx) if all(c in "0123456789abcdefABCDEF \t\n\r\x0b\x0c"
                                               for c in hx) else None
        except ValueError:
            lenient = None
        try:
            sv = SignerVersion(hx, 3)
        except Exception:
            if strict:
                bad("valid-signer-version-refused", hash=hx, variant=lab)
            continue
        want = None
        if strict:
            want = hx.lower()
        elif lenient is not None and len(lenient) == 32:
            want = lenient.hex()
        if want is None:
            bad("malformed-hash-accepted:%s" % lab.split("-")[0], hash=repr(hx)[:90])
        elif sv.msg != "RSK_powHSM_signer_%s_iteration_3" % want or sv.hash != want:
            bad("text-to-sign-not-canonical:hash-with-blanks", hash=repr(hx)[:90],
                text=sv.msg[:100])

    # ------------------------------------------------------- signapp in-process --
    areas = ihex.gen_areas(rng, max_areas=3, multi_zone=False)
    app = os.path.join(tmpdir, "signer.hex")
    ihex.write(rng, areas, app)
    app_hash = ihex.expected_hash(areas)
    it = rng.choice([0, 1, 255, 256, 65535, rng.randrange(65536)])
    it_arg = rng.choice([str(it), hex(it)])
    out = os.path.join(tmpdir, "auth.json")
    if os.path.exists(out):
        os.unlink(out)
    acc.evaluations += 1
    code, so = run_main(signapp.main, ["signapp.py", "message", "-a", app, "-i", it_arg])
    text = "RSK_powHSM_signer_%s_iteration_%d" % (app_hash.hex(), it)
    if code != 0 or ("\\x19Ethereum Signed Message:\\n%d%s" % (len(text), text)) not in so:
        bad("signapp-message-differs", code=code, out=so[-200:], want=text)
    code, so = run_main(signapp.main, ["signapp.py", "message", "-a", app, "-i", it_arg,
                                       "-o", out])
    if code != 0 or not os.path.exists(out):
        bad("signapp-message-file-not-written", code=code, out=so[-200:])
        return
    wrapped = b"\x19Ethereum Signed Message:\n" + str(len(text)).encode() + text.encode()
    digest = keccak256(wrapped)
    # the unsigned authorization (what `message -o` leaves): the device can never
    # authorize it, so the command must fail
    device_dialogues(acc, rng, out, app_hash, it, bad, do_authorize_signer)
    nsig = rng.choice([0, 1, 2, 3, 5, 10, 11, 12, 16])
    keys = []
    # another image / iteration, named on the command line of some `key` runs although
    # the output file already exists and names (app_hash, it)
    areas2 = ihex.gen_areas(rng, max_areas=2, multi_zone=False)
    app2 = os.path.join(tmpdir, "signer-other.hex")
    ihex.write(rng, areas2, app2)
    it2 = rng.choice([it, (it + 1) % 65536, rng.randrange(65536)])
    for j in range(nsig):
        sk = g1.new_key(rng)
        keys.append(sk)
        d = sk.privkey.secret_multiplier.to_bytes(32, "big").hex()
        # (a 0x-prefixed key passes the tool's validation but then fails in
        # bytes.fromhex: the tool refuses, which the property allows; not exercised)
        karg = d if rng.random() < 0.5 else d.upper()
        argv = ["signapp.py", "key", "-o", out, "-k", karg]
        r = rng.random()
        if r < 0.15:
            argv += ["-a", app2, "-i", str(it2)]
            acc.count("key_runs_naming_another_version")
        elif r < 0.25:
            argv += ["-a", app, "-i", str(it2)]
            acc.count("key_runs_naming_another_version")
        elif r < 0.35:
            argv += ["-a", app, "-i", it_arg]
        code, so = run_main(signapp.main, argv)
        acc.evaluations += 1
        if code != 0:
            bad("signapp-key-failed", code=code, out=so[-200:], argv=argv[1:3] + argv[6:])
            return
        # whatever version the file names after the run, every signature in it was made
        # by one of the keys used so far for THAT version's digest
        dj = json.load(open(out))
        sg = dj.get("signer", {})
        tj = "RSK_powHSM_signer_%s_iteration_%s" % (sg.get("hash"), sg.get("iteration"))
        dgj = keccak256(b"\x19Ethereum Signed Message:\n" + str(len(tj)).encode() + tj.encode())
        for sig in dj.get("signatures", []):
            acc.count("signatures_verified")
            if not any(verify_der(g1.pub65(k).hex(), bytes.fromhex(sig), dgj) for k in keys):
                bad("file-holds-signature-for-another-version", file_signer=sg,
                    argv=argv[1:3] + argv[6:])
                return
    doc = json.load(open(out))
    if doc.get("signer") != {"hash": app_hash.hex(), "iteration": it} or \
            len(doc.get("signatures", [])) != nsig:
        bad("authorization-file-content-differs", doc=str(doc)[:300],
            want={"hash": app_hash.hex(), "iteration": it, "signatures": nsig})
        return
    for sk, sig in zip(keys, doc["signatures"]):
        acc.count("signatures_verified")
        if not verify_der(g1.pub65(sk).hex(), bytes.fromhex(sig), digest):
            bad("produced-signature-does-not-verify", iteration=it)
    # `message -o` over a file that already holds signatures (for this very version, for
    # the same image at another iteration, for another image): what it leaves is an
    # authorization for the version it was given - and no signature made for any other text
    if nsig and rng.random() < 0.5:
        import shutil as _sh
        o4 = os.path.join(tmpdir, "auth-regenerated.json")
        _sh.copyfile(out, o4)
        which = rng.choice(["same-version", "other-iteration", "other-iteration", "other-image"])
        a4, h4, i4 = app, app_hash.hex(), it
        if which == "other-iteration":
            i4 = (it + rng.choice([1, 2, 255, 65535])) % 65536
        elif which == "other-image":
            a4, h4 = app2, ihex.expected_hash(areas2).hex()
        code, so = run_main(signapp.main, ["signapp.py", "message", "-a", a4, "-i", str(i4),
                                           "-o", o4])
        acc.evaluations += 1
        acc.count("message_runs_over_a_file_with_signatures")
        try:
            d4 = json.load(open(o4))
        except Exception:
            d4 = {}
        t4 = "RSK_powHSM_signer_%s_iteration_%d" % (h4, i4)
        dg4 = keccak256(b"\x19Ethereum Signed Message:\n" + str(len(t4)).encode() + t4.encode())
        if code == 0:
            if d4.get("signer") != {"hash": h4, "iteration": i4}:
                bad("message-run-over-existing-file-names-another-version:%s" % which,
                    doc=str(d4)[:200])
            else:
                for sg in d4.get("signatures", []):
                    if not any(verify_der(g1.pub65(sk_).hex(), bytes.fromhex(sg), dg4)
                               for sk_ in keys):
                        bad("message-run-carries-signatures-made-for-another-text:%s" % which,
                            signatures=len(d4.get("signatures", [])))
                        break
        elif open(o4).read() != open(out).read():
            bad("refused-message-run-changed-the-file:%s" % which)
    # `key` as the first operation: it creates the file for the version it is given
    if rng.random() < 0.3:
        o3 = os.path.join(tmpdir, "auth-fresh.json")
        if os.path.exists(o3):
            os.unlink(o3)
        sk = g1.new_key(rng)
        d = sk.privkey.secret_multiplier.to_bytes(32, "big").hex()
        if rng.random() < 0.3:
            # (the image handed over through a pipe: a thing that can be read once)
            from .c19 import as_pipe
            acc.count("key_runs_reading_the_image_through_a_pipe")
            with as_pipe(app2) as pp:
                code, so = run_main(signapp.main, ["signapp.py", "key", "-o", o3, "-k", d,
                                                   "-a", pp, "-i", str(it2)])
        else:
            code, so = run_main(signapp.main, ["signapp.py", "key", "-o", o3, "-k", d, "-a",
                                               app2, "-i", str(it2)])
        acc.evaluations += 1
        acc.count("key_runs_creating_the_file")
        h2 = ihex.expected_hash(areas2).hex()
        t2 = "RSK_powHSM_signer_%s_iteration_%d" % (h2, it2)
        dg2 = keccak256(b"\x19Ethereum Signed Message:\n" + str(len(t2)).encode() + t2.encode())
        try:
            d3 = json.load(open(o3))
        except Exception:
            d3 = {}
        if code != 0 or d3.get("signer") != {"hash": h2, "iteration": it2} or \
                len(d3.get("signatures", [])) != 1 or \
                not verify_der(g1.pub65(sk).hex(), bytes.fromhex(d3["signatures"][0]), dg2):
            bad("key-run-creating-the-file-wrong", code=code, doc=str(d3)[:200])
    # ---- the key given in another spelling (0x prefix, upper case) and keys whose hex
    # form begins or ends with zero digits: the tool may turn a spelling down - but what it
    # signs, it signs with the key those digits denote
    if rng.random() < 0.5:
        import ecdsa as _ec
        o4 = os.path.join(tmpdir, "auth-keyspelling.json")
        for k_ in range(3):
            if os.path.exists(o4):
                os.unlink(o4)
            x = rng.getrandbits(rng.choice([256, 256, 248, 200])) % (_ec.SECP256k1.order - 1) + 1
            z = rng.choice([0, 0, 4, 8, 12])
            x = ((x >> z) << z) or 16
            sk4 = _ec.SigningKey.from_secret_exponent(x, curve=_ec.SECP256k1)
            d4 = x.to_bytes(32, "big").hex()
            spelled = rng.choice(["0x" + d4, "0x" + d4, "0X" + d4, d4.upper(), "0x" + d4.upper(),
                                  d4])
            code, so = run_main(signapp.main, ["signapp.py", "key", "-o", o4, "-k", spelled,
                                               "-a", app2, "-i", str(it2)])
            acc.evaluations += 1
            acc.count("key_spellings_checked")
            h2 = ihex.expected_hash(areas2).hex()
            t2 = "RSK_powHSM_signer_%s_iteration_%d" % (h2, it2)
            dg2 = keccak256(b"\x19Ethereum Signed Message:\n" + str(len(t2)).encode() +
                            t2.encode())
            try:
                d5 = json.load(open(o4))
            except Exception:
                d5 = None
            if code != 0:
                if d5 and d5.get("signatures"):
                    bad("refused-key-spelling-left-a-signature", spelling=spelled[:6] + "..")
                continue
            acc.count("key_spellings_accepted")
            sigs5 = (d5 or {}).get("signatures") or []
            if len(sigs5) != 1 or not verify_der(g1.pub65(sk4).hex(), bytes.fromhex(sigs5[0]),
                                                 dg2):
                bad("signature-not-made-by-the-key-that-was-given",
                    spelling=spelled[:4] + ".." + spelled[-6:], trailing_zero_bits=z)
    if rng.random() < 0.3:
        eth_runs(acc, rng, tmpdir, app2, it2, areas2, bad)
    # manual addition: valid DER accepted, malformed refused and file untouched
    extra = g1.sign(g1.new_key(rng), b"x", rng).hex()
    code, so = run_main(signapp.main, ["signapp.py", "manual", "-o", out, "-g", extra])
    acc.evaluations += 1
    if code != 0 or json.load(open(out))["signatures"] != doc["signatures"] + [extra]:
        bad("manual-signature-not-appended", code=code)
    # the very same signature once more (two authorizers' files merged by hand, a command
    # repeated): the file is a list, in order, repetitions included
    ndup = rng.choice([0, 1, 1, 2])
    for _ in range(ndup):
        code, so = run_main(signapp.main, ["signapp.py", "manual", "-o", out, "-g", extra])
        acc.evaluations += 1
    if ndup:
        acc.count("repeated_signatures_in_file")
        if json.load(open(out))["signatures"] != doc["signatures"] + [extra] * (1 + ndup):
            bad("repeated-signature-not-kept", code=code, ndup=ndup)
    before = open(out).read()
    for badsig in ["zz", "", "30", extra[:-2], "31" + extra[2:], extra + "00" * 0 + "zz"]:
        acc.count("refusals_checked")
        acc.evaluations += 1
        code, so = run_main(signapp.main, ["signapp.py", "manual", "-o", out, "-g", badsig])
        if code == 0 or open(out).read() != before:
            bad("malformed-signature-accepted", sig=badsig[:40], code=code)
    # other spellings of a valid signature (prefix, case, blanks): refused and the file
    # untouched - or, where the spelling is tolerated, the file that was written loads
    # again and holds that very signature
    other = g1.sign(g1.new_key(rng), b"y", rng).hex()
    for lab, spelled in [("0x", "0x" + other), ("0X", "0X" + other), ("upper", other.upper()),
                         ("blank-in-front", " " + other), ("newline-at-end", other + "\n"),
                         ("spaced", " ".join(other[i:i + 2] for i in range(0, len(other), 2))),
                         ("0x-upper", "0x" + other.upper())]:
        acc.count("signature_spellings_checked")
        acc.evaluations += 1
        before = open(out).read()
        code, so = run_main(signapp.main, ["signapp.py", "manual", "-o", out, "-g", spelled])
        if code != 0:
            if open(out).read() != before:
                bad("refused-signature-changed-the-file:%s" % lab)
            continue
        try:
            again = SignerAuthorization.from_jsonfile(out)
            sigs_now = [bytes.fromhex(x) for x in again.to_dict()["signatures"]]
        except Exception as e:
            bad("accepted-signature-spelling-makes-the-file-unloadable:%s" % lab,
                exc=repr(e)[:200])
            with open(out, "w") as f:
                f.write(before)
            continue
        if not sigs_now or sigs_now[-1] != bytes.fromhex(other):
            bad("accepted-signature-spelling-stored-as-something-else:%s" % lab)
        with open(out, "w") as f:
            f.write(before)
    for bad_it in ["-1", "65536", "abc"]:
        acc.count("refusals_checked")
        acc.evaluations += 1
        o2 = os.path.join(tmpdir, "auth2.json")
        if os.path.exists(o2):
            os.unlink(o2)
        code, so = run_main(signapp.main, ["signapp.py", "message", "-a", app, "-i", bad_it,
                                           "-o", o2])
        if code == 0 or os.path.exists(o2):
            bad("signapp-accepted-malformed-iteration", iteration=bad_it)
    # ------------------------------------------------------------- round trip --
    sa = SignerAuthorization.from_jsonfile(out)
    p2 = os.path.join(tmpdir, "auth-rt.json")
    # (a fresh path, or one that holds another authorization - of another signer)
    if os.path.exists(p2) and rng.random() < 0.5:
        os.unlink(p2)
    acc.count("roundtrips")
    acc.evaluations += 1
    try:
        sa.save_to_jsonfile(p2)
        sa2 = SignerAuthorization.from_jsonfile(p2)
        same = sa.to_dict() == sa2.to_dict() and json.load(open(p2)) == json.load(open(out))
        # ... and once more, from the loaded object to a third path
        p2b = os.path.join(tmpdir, "auth-rt2.json")
        if os.path.exists(p2b):
            os.unlink(p2b)
        sa2.save_to_jsonfile(p2b)
        same = same and json.load(open(p2b)) == json.load(open(out))
    except Exception as e:
        same = False
        bad("authorization-does-not-survive-save-load", exc=repr(e)[:200])
    else:
        if not same:
            bad("authorization-file-changes-on-save-load")
    # ---- a signature refused by add_signature is refused: the object goes on as if it had
    # never been offered (a script that collects signatures from several people and skips
    # the ones turned down) - what it saves loads back and holds the accepted ones, in order
    sa3 = SignerAuthorization.from_jsonfile(out)
    held = list(sa3.to_dict()["signatures"])
    offered = 0
    for k_ in range(rng.randint(2, 5)):
        if rng.random() < 0.5:
            junk = rng.choice(["zz", "3000", "", "30060201010201", held[0][:-2] if held else "00",
                               5, None, "0x" + (held[0] if held else "00")])
            try:
                sa3.add_signature(junk)
                # (accepted after all: then it is a signature like any other)
                held.append(junk)
            except Exception:
                offered += 1
        else:
            good_ = g1.sign(g1.new_key(rng), rng.randbytes(32), rng).hex()
            try:
                sa3.add_signature(good_)
                held.append(good_)
            except Exception as e:
                bad("well-formed-signature-refused-after-a-refused-one" if offered else
                    "well-formed-signature-refused", exc=repr(e)[:200])
                break
    acc.count("objects_used_on_after_refusing_a_signature", 1 if offered else 0)
    acc.evaluations += 1
    if list(sa3.to_dict()["signatures"]) != held:
        bad("object-holds-other-signatures-than-the-accepted-ones",
            holds=[str(x)[:20] for x in sa3.to_dict()["signatures"]], accepted=len(held),
            refused=offered)
    else:
        p4 = os.path.join(tmpdir, "auth-collected.json")
        try:
            sa3.save_to_jsonfile(p4)
            if SignerAuthorization.from_jsonfile(p4).to_dict() != sa3.to_dict():
                bad("authorization-file-changes-on-save-load:after-a-refused-signature")
        except Exception as e:
            bad("authorization-object-does-not-survive-save-load:after-a-refused-signature",
                exc=repr(e)[:200])
    # loader refuses malformed files
    for mut in ("hash", "iteration", "signature", "version"):
        d2 = json.load(open(out))
        if mut == "hash":
            d2["signer"]["hash"] = rng.choice(["zz" * 32, d2["signer"]["hash"][:-2], 5])
        elif mut == "iteration":
            d2["signer"]["iteration"] = rng.choice([-1, 65536, "x", None, 1.5])
        elif mut == "signature":
            d2["signatures"] = d2["signatures"] + [rng.choice(["zz", "3000", 5, ""])]
        else:
            d2["version"] = rng.choice([2, "1", None])
        p3 = os.path.join(tmpdir, "auth-bad.json")
        json.dump(d2, open(p3, "w"))
        acc.count("refusals_checked")
        acc.evaluations += 1
        try:
            SignerAuthorization.from_jsonfile(p3)
            bad("malformed-authorization-file-loaded:%s" % mut, doc=str(d2)[:200])
        except Exception:
            pass
    device_dialogues(acc, rng, out, app_hash, it, bad, do_authorize_signer)
    if len(acc.samples) < 2:
        acc.sample({"authorization_file": json.load(open(out)), "message": text,
                    "digest": digest.hex()})

class EthApp:
    """the Ledger Ethereum app as `signapp eth` talks to it (E0 02 public key, E0 08 sign
    personal message), honest or not: behind the real ledgerblue HID transport"""
    pending_link = None

    def __init__(self, rng, mode):
        import ecdsa as _ec
        self._ec = _ec
        self.rng = rng
        self.mode = mode
        self.key = _ec.SigningKey.from_secret_exponent(
            rng.getrandbits(255) + 2, curve=_ec.SECP256k1)
        self.other = _ec.SigningKey.from_secret_exponent(
            rng.getrandbits(255) + 3, curve=_ec.SECP256k1)
        self.signed = []
        self.grind = rng.choice([None, None, ("r", 0x80), ("r", 0x80), ("r", 0x00),
                                 ("r", 0xff), ("r", 0x7f), ("s", 0x00), ("s", 0x80)]) \
            if mode == "honest" else None
        self.ground = False

    def note_fault(self, apdu, fault):
        pass

    def pub(self, k):
        return b"\x04" + k.get_verifying_key().to_string()

    def exchange(self, apdu):
        if len(apdu) < 5 or apdu[0] != 0xE0:
            return b"", 0x6E00
        if apdu[1] == 0x02:
            k = self.other if self.mode == "reports-another-key" else self.key
            p = self.pub(k)
            addr = b"00" * 20
            return bytes([len(p)]) + p + bytes([len(addr)]) + addr, 0x9000
        if apdu[1] == 0x08:
            npath = apdu[5]
            body = apdu[6 + 4 * npath:]
            n = int.from_bytes(body[:4], "big")
            msg = bytes(body[4:4 + n])
            self.signed.append(msg)
            pre = b"\x19Ethereum Signed Message:\n" + str(len(msg)).encode() + msg
            dg = keccak256(msg if self.mode == "signs-without-the-prefix" else pre)
            if self.mode == "signs-another-text":
                dg = keccak256(b"\x19Ethereum Signed Message:\n5hello")
            k = self.other if self.mode == "signs-with-another-key" else self.key
            sig = k.sign_digest_deterministic(dg, sigencode=self._ec.util.sigencode_string)
            if self.mode == "honest" and self.grind is not None:
                # a signature - any nonce gives a good one - whose r (or s) begins with a
                # chosen byte: 0x80 and 0xff (sign bit set), 0x00 (a short integer), 0x7f
                which, first = self.grind
                for _ in range(5000):
                    cand = k.sign_digest(dg, sigencode=self._ec.util.sigencode_string,
                                         k=self.rng.randrange(1, self._ec.SECP256k1.order))
                    if cand[0 if which == "r" else 32] == first:
                        sig = cand
                        self.ground = True
                        break
            r, s_ = sig[:32], sig[32:]
            if self.mode == "s-altered":
                s_ = bytes([s_[0] ^ 0x01]) + s_[1:]
            return bytes([27]) + r + s_, 0x9000
        return b"", 0x6D00


def eth_runs(acc, rng, tmpdir, app2, it2, areas2, bad):
    """`signapp eth` against a simulated Ethereum app: what it stores is a signature, by the
    key the app reported, of this authorization's digest - or nothing"""
    import signapp
    from ..simdev.transport import Bus, HidPatch, VirtualClock
    h2 = ihex.expected_hash(areas2).hex()
    t2 = "RSK_powHSM_signer_%s_iteration_%d" % (h2, it2)
    dg2 = keccak256(b"\x19Ethereum Signed Message:\n" + str(len(t2)).encode() + t2.encode())
    o5 = os.path.join(tmpdir, "auth-eth.json")
    if os.path.exists(o5):
        os.unlink(o5)       # (left by an earlier case: it names another version)
    for mode in rng.sample(["honest", "honest", "signs-with-another-key",
                            "signs-without-the-prefix", "signs-another-text", "s-altered",
                            "reports-another-key"], 3):
        existed = rng.random() < 0.5 and os.path.exists(o5)
        if not existed and os.path.exists(o5):
            os.unlink(o5)
        before = open(o5).read() if existed else None
        app = EthApp(rng, mode)
        with HidPatch(Bus(app, VirtualClock())):
            code, so = run_main(signapp.main, ["signapp.py", "eth", "-o", o5, "-a", app2, "-i",
                                               str(it2)])
        acc.evaluations += 1
        acc.count("eth_runs")
        after = open(o5).read() if os.path.exists(o5) else None
        if mode == "honest":
            try:
                sigs = json.loads(after)["signatures"]
            except Exception:
                sigs = []
            if code != 0 or not sigs or app.signed != [t2.encode()] or \
                    not verify_der(app.pub(app.key).hex(), bytes.fromhex(sigs[-1]), dg2):
                bad("eth-run-with-an-honest-app-failed", code=code, out=so[-200:],
                    signed=[m[:60].decode("latin1") for m in app.signed])
                return
            acc.count("eth_runs_with_an_honest_app")
            if app.ground:
                acc.count("eth_signatures_whose_r_or_s_begins_with_a_chosen_byte")
            continue
        acc.count("eth_runs_with_a_dishonest_app")
        if code == 0 or after != before:
            bad("signature-from-the-app-stored-although-it-does-not-verify:%s" % mode,
                code=code, file_changed=(after != before), out=so[-200:])
            return


def device_dialogues(acc, rng, out, app_hash, it, bad, do_authorize_signer):
    """the real authorize command against the simulated UI, for thresholds 1..n and
    'never', on the authorization file as it is now"""
    from ..admstack import AdminEnv, options
    sigs = json.load(open(out))["signatures"]
    n = len(sigs)
    for thr in sorted({1, max(n, 1), rng.randint(1, max(1, n)), None},
                      key=lambda x: (x is None, x)):
        if thr is not None and thr > max(n, 1):
            continue
        gd = GenuineLedger(rng, onboarded=True, mode=MODE_BOOTLOADER, pin=b"abcd1234")
        gd.sigauth_threshold = thr
        # a quarter of the dialogues end with the transport reporting an error on close
        # (unplugged or rebooted device): whatever the command then reports, it may not be
        # success when the device never authorized the signer
        close_fails = rng.random() < 0.25
        with AdminEnv(gd.dev, "ledger") as ae:
            if close_fails:
                from ledgerblue.commException import CommException
                cexc = CommException("Error while closing the device", 0x6F00)
                # (from the moment the authorization dialogue has begun)
                ae.bus.close_fault = lambda: cexc if gd.sigauth_log else None
                acc.count("dialogues_ending_with_a_failing_close")
            o = options(pin="abcd1234", signer_authorization_file_path=out)
            if rng.random() < 0.5:
                # through adm_ledger's own command line (parser, defaults, dispatch table)
                acc.count("authorize_through_the_command_line")
                ok, so, exc = ae.run_cli("authorize_signer", o)
            else:
                ok, so, exc = ae.run(do_authorize_signer, o)
        acc.count("device_dialogues")
        acc.evaluations += 1
        acc.distinct.add("dev|%d|%s" % (n, thr))
        log = gd.sigauth_log
        want_first = ("sigver", app_hash + it.to_bytes(2, "big"))
        should_succeed = thr is not None and thr <= n
        k = thr if should_succeed else n
        want = [want_first] + [("sign", bytes.fromhex(s)) for s in sigs[:k]]
        if log != want:
            bad("device-exchange-differs", threshold=thr, nsig=n,
                got=[(a, b.hex()[:24]) for a, b in log][:6],
                want=[(a, b.hex()[:24]) for a, b in want][:6])
        if close_fails and should_succeed:
            continue
        if ok != should_succeed:
            bad("authorize-%s-although-device-%s" % (
                "succeeded" if ok else "failed",
                "never authorized" if not should_succeed else "authorized"),
                threshold=thr, nsig=n, exc=repr(exc)[:200])


def run_shard(spec, acc):
    env.setup()
    if spec.get("shard", spec.get("seed", 0)) % 4 >= 2 and env.on_other_fs():
        acc.count("shards_with_files_on_another_file_system_than_the_temp_directory")
    rng = random.Random(spec["seed"])
    tmpdir = env.mkdtemp("c17", spec.get("shard", spec.get("seed", 0)) % 2 == 1,
                         other_fs=spec.get("shard", spec.get("seed", 0)) % 4 >= 2)
    try:
        for i in range(spec["n"]):
            run_case(acc, rng.getrandbits(48), tmpdir)
    finally:
        shutil.rmtree(tmpdir, ignore_errors=True)


def replay(case, acc):
    env.setup()
    tmpdir = env.mkdtemp("c17")
    try:
        run_case(acc, case["seed"], tmpdir)
    finally:
        shutil.rmtree(tmpdir, ignore_errors=True)
