# C11 - link failures get a device-error reply and are repaired on the next request
import random
import zlib

from .. import env
from ..simdev.transport import Fault
from ..simdev.device import MODE_BOOTLOADER
from . import faultlib as fl

ID = "C11"
LEVEL = "fault_enumeration"
RULE = ("for each of 15 request shapes (v5) and 3 (v1) and every exchange index k of the "
        "fault-free run, a write error / read error (APDU processed or not) / time-out is "
        "injected at k on a fresh stack over the fake HID transport; then follow-up requests "
        "(same shape, and other commands) are issued with the re-enumeration failing j in "
        "0..3 times, optionally with the device found rebooted into the bootloader, and "
        "(thorough + sampled in quick) a second link fault during the repair itself. The "
        "monitor checks the faulted reply (-905 / -2, no exception), and on the follow-up the "
        "order of transport events: close of the old handle, enumerate/open, the four bring-up "
        "exchanges, only then command APDUs on the new handle. distinct = (shape, k, fault "
        "kind, follow-up, j, variant) cells; all non-trivial")
RULE_ADDED = (
              'Also: faults late in a repair that goes through the bootloader; time-outs as second '
              'faults; a re-open that finds no device inside the repair; a `version` request in '
              'between; the early-success and heartbeat-ends-elsewhere shapes; a third of the cases '
              'with --iodebug '
              ' '
              'Round 8: flapping links (2..16 requests in a row, each repaired and failing agai'
              "n at the command's first exchange) and outages of up to 20 failed reconnections;"
              " follow-ups run with the follow-up shape's own device settings. "
              ' '
              'Round 9: link failures right after a request that timed out. '
              ' '
              'Round 10: link failures by power cycle (from the faulted exchange on the device '
              'is locked in the bootloader). '
              ' '
              'Round 11: second faults also at the very first exchange of the repair (known fin'
              'ding). '
              ' '
              'Round 14: quiet periods (121 s .. a day on the clock the middleware reads) betwe'
              'en the bring-up and the link failure; header-cut-short shapes. '
              ' '
              'Round 15: the commands TCPSigner / SGX have also over those transports; the faul'
              'ted request right after one the device refused; faults in the bootloader part of'
              ' a repair (mode .. unlock) - a stop at the retries query is a known finding. '
              ' '
              'Round 16: repairs through the bootloader with exactly two PIN retries left. '
              ' '
              'Round 17: minutes to a day of silence between two failed reconnections of one ou'
              'tage. '
              ' '
              'Round 20: the re-opened device refuses one of the bring-up exchanges of a repair'
              " with an error status of the firmware's own range: device error, and the next re"
              'quest repairs. ')
RULE = RULE + " " + RULE_ADDED.strip()
ASSUMPTIONS = [
    "fault kinds are those of the HID transport (write() < 0, read error, time-out) as the "
    "property quantifies; over the TCP transports the same exception shapes are raised by the "
    "fake socket (a dropped TCP link as the real socket reports it - ConnectionError, "
    "struct.error - is another exception class, not classified by the dongle layer, and is "
    "judged in C03 / C09 where the property speaks about it)",
    "exit_app / exit_menu steps are excluded from the -905 obligation (the code's contract "
    "treats a link drop there as the normal outcome); they are still run and must not raise",
]
FLOORS = {"quick": {"evaluations": 1500, "followups_checked": 1000, "reconnect_failures": 300,
                    "timeouts": 150},
          "thorough": {"evaluations": 40000, "followups_checked": 30000,
                       "reconnect_failures": 30000, "timeouts": 5000}}
EXHAUSTIVE = {"quick": False, "thorough": False}

BRINGUP = ["onboard", "mode", "onboard", "params"]


def shards(tier, seed):
    n = 16 if tier == "quick" else 32
    return [{"shard": i, "n": n, "tier": tier, "seed": seed} for i in range(n)]


def dev_code(v1):
    return -2 if v1 else -905


def run_shard(spec, acc):
    env.setup()
    rng = random.Random(spec["seed"] * 7919 + spec["shard"])
    thorough = spec["tier"] == "thorough"
    cell = 0
    for v1 in (False, True):
        all_shapes = fl.shapes(v1)
        followers = [s for s in all_shapes if s.name in
                     ("getPubKey", "state", "sign.hash", "parameters", "advance.nobrothers")]
        for shape in all_shapes:
            K, roles, base = baseline(shape)
            for k in range(K):
                for kind in ("write_error", "read_error", "read_error_processed", "timeout"):
                    cell += 1
                    if cell % spec["n"] != spec["shard"]:
                        continue
                    if thorough:
                        fus = [shape] + [f for f in all_shapes if f.name != shape.name and
                                         f.name not in ("uiHeartbeat.hbmode", "version")]
                        js = [0, 1, 2, 3]
                    else:
                        fus = [shape, rng.choice(followers)]
                        js = [0, rng.choice([1, 2, 3])]
                    if rng.random() < (0.3 if thorough else 0.1):
                        js = js + [rng.choice([5, 6, 7, 9, 12, 20])]   # a long outage
                    for fu in fus:
                        for j in js:
                            variants = ["plain"]
                            if j == 0 and (thorough or rng.random() < 0.3):
                                variants.append("reboot")
                            if j == 0 and kind != "timeout" and \
                                    (thorough or rng.random() < 0.3):
                                variants.append("powercycle")
                            if (thorough and j < 2) or rng.random() < 0.2:
                                variants.append("vbetween")
                            if j == 0 and (thorough or rng.random() < 0.15):
                                variants.append("reboot-noreopen")
                            if j == 0 and fu.name != "uiHeartbeat.hbmode" and \
                                    (thorough or rng.random() < 0.3):
                                # (hbmode: the follow-up's own exchange count depends on
                                # the mode the device is left in, so the learned length of
                                # the bring-up would not apply)
                                variants.append("rebootlate:%d:%s" % (
                                    rng.randrange(3),
                                    rng.choice(["timeout", "timeout", "read_error",
                                                "write_error"])))
                                variants.append("rebootlate-early:%d:%s" % (
                                    rng.randrange(40),
                                    rng.choice(["timeout", "timeout", "read_error",
                                                "write_error"])))
                            if j == 0 and kind != "timeout" and \
                                    not fu.name.startswith("uiHeartbeat") and \
                                    rng.random() < (0.5 if thorough else 0.15):
                                variants.append("after-timeout")
                            if j == 0 and not fu.name.startswith("uiHeartbeat") and \
                                    rng.random() < (0.5 if thorough else 0.12):
                                variants.append("flap:%d" % rng.choice([2, 5, 6, 7, 10, 16]))
                            if j == 0 and not fu.name.startswith("uiHeartbeat") and \
                                    fu.name != "version" and \
                                    rng.random() < (0.5 if thorough else 0.15):
                                variants.append("after-refusal:%04x" % rng.choice(
                                    [0x6A8F, 0x6A8F, 0x6B10, 0x69A0, 0x6BFF, 0x6D00]))
                            if j >= 2 and rng.random() < (0.5 if thorough else 0.3):
                                variants.append("quiet-outage:%d" % rng.choice(
                                    [130, 601, 3601, 86401]))
                            if j == 0 and rng.random() < (0.5 if thorough else 0.15):
                                variants.append("quiet:%d" % rng.choice([121, 130, 601, 3601,
                                                                         86401]))
                            if thorough or rng.random() < 0.25:
                                variants.append("double:%d:%s" % (
                                    rng.randrange(0, 4),
                                    rng.choice(["write_error", "read_error", "timeout"])))
                            if thorough or rng.random() < 0.25:
                                # ... or the re-opened device answers one of the bring-up's
                                # exchanges with an error status of the firmware's own range
                                # (0x69A0..0x6BFF, 0x6D00): the connection was not
                                # re-established - device error, and the next request repairs.
                                # (Other status words at these exchanges are C04's matter.)
                                variants.append("double:%d:sw%04x" % (
                                    rng.randrange(0, 4),
                                    rng.choice([0x6B01, 0x6A99, 0x6D00, 0x6A8F, 0x6B0C,
                                                0x69A0, 0x6BFF])))
                            for var in variants:
                                run_case(acc, {"v1": v1, "shape": shape.name, "k": k,
                                               "kind": kind, "fu": fu.name, "j": j,
                                               "variant": var}, roles)
                                # the same over the TCP transports (TCPSigner, SGX) - the
                                # commands these have, transient failures
                                if j == 0 and (var in ("plain", "vbetween") or
                                               var.startswith("quiet:")) and \
                                        "eartbeat" not in shape.name + fu.name and \
                                        rng.random() < (0.5 if thorough else 0.25):
                                    run_case(acc, {"v1": v1, "shape": shape.name, "k": k,
                                                   "kind": kind, "fu": fu.name, "j": j,
                                                   "variant": var,
                                                   "plat": rng.choice(["tcp", "sgx"])}, roles)


_base_cache = {}
_reboot_cache = {}
_reboot_roles = {}


def reboot_bringup_len(shape, fu, v1):
    """number of exchanges a fault-free repair through the bootloader takes before the
    follow-up command's own exchanges (learned by running it once)"""
    from ..stack import Stack
    key = (fu.name, v1)
    if key not in _reboot_cache:
        dev = fl.make_device(fu)
        n = None
        with Stack(dev, version_one=v1) as s:
            s.initialize()
            s.bus.arm({0: Fault("read_error")})
            s.request({"command": "getPubKey", "version": 1 if v1 else 5,
                       "keyId": "m/44'/0'/0'/0/0"})
            s.bus.arm({})
            dev.mode = MODE_BOOTLOADER
            dev.unlocked = False
            dev.pending_link = None
            if fu.post and fu.name != "uiHeartbeat.hbmode":
                fu.post(dev)
            mark = len(s.bus.events)
            r, e, _ = s.request(fu.request)
            if e is None and isinstance(r, dict) and \
                    r.get("errorcode") == baseline(fu)[2].get("errorcode"):
                n = len(s.bus.apdus(mark)) - baseline(fu)[0]
                _reboot_roles[key] = [fl.role_of(e_["apdu"]) for e_ in s.bus.apdus(mark)][:n]
        _reboot_cache[key] = n
    return _reboot_cache[key]


def baseline(shape):
    key = (shape.name, shape.v1)
    if key not in _base_cache:
        from .c04 import run_cell
        reply, exc, apdus, dev, out = run_cell(shape, {})
        _base_cache[key] = (len(apdus), [fl.role_of(e["apdu"]) for e in apdus], reply)
    return _base_cache[key]


def shape_by_name(name, v1):
    return [s for s in fl.shapes(v1) if s.name == name][0]


def rng_kind(c, rnd):
    return ("read_error", "write_error")[(zlib.crc32(repr(sorted(c.items())).encode()) + rnd) % 2]


_QUIET = {}


def run_case(acc, c, roles=None):
    """(variant quiet:<seconds>: the clock the middleware reads - the name `time` in its
    modules - jumps ahead by that much between the bring-up and the faulted request: a
    link that fails after a quiet night fails like any other)"""
    if not c["variant"].startswith(("quiet:", "quiet-outage:")):
        return run_case_(acc, c, roles)
    from .c12 import JumpClock
    jc = JumpClock()
    jc.install()
    _QUIET["jc"] = jc
    try:
        acc.count("link_failures_after_a_quiet_period")
        return run_case_(acc, c, roles)
    finally:
        jc.uninstall()
        _QUIET.pop("jc", None)


def run_case_(acc, c, roles=None):
    from ..stack import Stack
    v1 = c["v1"]
    shape = shape_by_name(c["shape"], v1)
    fu = shape_by_name(c["fu"], v1)
    if roles is None:
        roles = baseline(shape)[1]
    k = c["k"]
    role = roles[k]
    kind = c["kind"]
    fault = Fault("read_error", processed=True) if kind == "read_error_processed" else Fault(kind)
    want = dev_code(v1)
    acc.evaluations += 1
    acc.distinct_disjoint += 1

    def bad(mech, **d):
        d.update(c)
        d["role"] = role
        acc.violation(mech, d, c)

    plat = c.get("plat", "ledger")
    dev = fl.make_device(shape, also=[fu], platform=plat)
    if plat == "sgx":
        dev.unlocked = True
    if plat != "ledger":
        acc.count("cases_on_the_tcp_platforms")
    # a third of the cases with the manager's low-level I/O debugging option on
    iodebug = (zlib.crc32(repr(sorted(c.items())).encode()) % 3 == 0)
    if iodebug:
        acc.count("cases_with_iodebug_on")
    with Stack(dev, version_one=v1, iodebug=iodebug) as s:
        # (over TCP the link failures come in the shapes the dongle layer classifies)
        s.bus.tcp_faults_as_hid = True
        s.initialize()
        if c["variant"] == "after-timeout":
            # the request before the faulted one ended in a time-out (no answer at all from
            # the device, nothing to repair): what the link failure then needs is the same
            if fu.post:
                fu.post(dev)
            s.bus.arm({0: Fault("timeout")})
            rt, et, _ = s.request(fu.request)
            acc.count("link_failures_right_after_a_timeout")
            if et is not None or not isinstance(rt, dict) or rt.get("errorcode") != want:
                return bad("timed-out-request-not-device-error:%s" % fu.command, reply=rt,
                           exc=repr(et))
            dev.mode = 0x03
            dev.pending_link = None
            dev.adv_policy = {}
            for k_ in ("hb_back_mode", "hb_exit_mode"):
                dev.cfg[k_] = shape.devcfg.get(k_)
        if c["variant"].startswith("after-refusal:"):
            # the request before the faulted one was turned down by the device (an error
            # status of its own range on one exchange - nothing wrong with the link): what
            # the link failure then needs is the same
            if fu.post:
                fu.post(dev)
            s.bus.arm({0: Fault("sw", sw=int(c["variant"].split(":")[1], 16))})
            rt, et, _ = s.request(fu.request)
            s.bus.arm({})
            acc.count("link_failures_right_after_a_refusal_by_the_device")
            if et is not None or not isinstance(rt, dict) or \
                    type(rt.get("errorcode")) is not int:
                return bad("refused-request-no-verdict:%s" % fu.command, reply=rt,
                           exc=repr(et))
            dev.mode = 0x03
            dev.pending_link = None
            dev.adv_policy = {}
            if hasattr(dev, "reset_adv"):
                dev.reset_adv()
            dev.reset_sign()
            for k_ in ("hb_back_mode", "hb_exit_mode"):
                dev.cfg[k_] = shape.devcfg.get(k_)
        if c["variant"].startswith("quiet:") and "jc" in _QUIET:
            _QUIET["jc"].offset += float(c["variant"].split(":")[1])
        if shape.post:
            shape.post(dev)
        s.bus.arm({k: fault})
        if c["variant"] == "powercycle":
            # the link fails because the device loses power: from the faulted exchange on
            # it is a device that has just booted (locked, in the bootloader) - whatever
            # the faulted request itself still does on the link finds it that way
            def cycle(bus, apdu, _k=k):
                if bus.n_apdu - 1 == _k:
                    dev.mode = MODE_BOOTLOADER
                    dev.unlocked = False
            s.bus.exchange_hook = cycle
            acc.count("link_failures_by_power_cycle")
        reply, exc, out = s.request(shape.request)
        s.bus.exchange_hook = None
        is_exit = (role == "exit")
        if exc is not None:
            return bad("exception-escaped:%s:%s:%s:%s" % (shape.command, role, kind,
                                                          type(exc).__name__), exc=repr(exc))
        if not isinstance(reply, dict) or type(reply.get("errorcode")) is not int:
            return bad("no-verdict:%s:%s:%s" % (shape.command, role, kind), reply=reply)
        if kind == "timeout":
            acc.count("timeouts")
        if not is_exit or kind == "timeout":
            if reply["errorcode"] != want:
                return bad("faulted-request-not-device-error:%s:%s:%s:got%d" % (
                    shape.command, role, kind, reply["errorcode"]), reply=reply)
        # ---- follow-up(s)
        if kind == "timeout":
            s.bus.arm({})
            r2, e2, _ = s.request(fu.request)
            acc.count("followups_after_timeout")
            if e2 is not None or not isinstance(r2, dict) or type(r2.get("errorcode")) is not int:
                return bad("followup-after-timeout-no-verdict:%s" % fu.command, reply=r2,
                           exc=repr(e2))
            return
        if is_exit:
            # only recorded: the connection was re-opened inside the same request
            acc.count("exit_step_link_faults")
            return
        # the device's dialogue state is lost with the link
        # (a fault in the middle of a UI heartbeat can leave the device in another
        # app; the follow-up is judged with the device back in the signer, i.e. a
        # transient link failure)
        dev.mode = 0x03
        dev.pending_link = None
        dev.adv_policy = {}
        # from here on the device behaves as the follow-up's shape says (where a faulted
        # uiHeartbeat shape has it come back in another mode, the follow-up's own setting -
        # by default: back in the signer - applies to the follow-up)
        for k_ in ("hb_back_mode", "hb_exit_mode"):
            dev.cfg[k_] = fu.devcfg.get(k_)
        if fu.post and fu.name != "uiHeartbeat.hbmode":
            fu.post(dev)
        if c["variant"] in ("reboot", "powercycle") or c["variant"].startswith("rebootlate"):
            dev.mode = MODE_BOOTLOADER
            dev.unlocked = False
            if zlib.crc32(repr(sorted(c.items())).encode()) % 5 < 2:
                # (the device has just enough PIN attempts left for the manager to try: two)
                dev.retries = 2
                acc.count("repairs_through_the_bootloader_with_two_retries_left")
        old_handle = s.bus.handle_seq
        s.bus.enumerate_fail = c["j"]
        if c["variant"] == "reboot-noreopen":
            # repair through the bootloader; after the signer is opened (exit), the device
            # is not found again: the connection could not be re-established, so this
            # request gets the device-error code and the next one repairs
            s.bus.enumerate_fail = 1
            s.bus.enumerate_skip = 1
            dev.mode = MODE_BOOTLOADER
            dev.unlocked = False
            s.bus.arm({})
            mark = len(s.bus.events)
            r2, e2, _ = s.request(fu.request)
            acc.count("reopen_failures_inside_repair")
            if e2 is not None:
                return bad("exception-escaped-while-reopening-inside-repair:%s:%s" % (
                    fu.command, type(e2).__name__), exc=repr(e2))
            if not isinstance(r2, dict) or r2.get("errorcode") != want:
                return bad("failed-reopen-inside-repair-not-device-error:%s" % fu.command,
                           reply=r2)
            s.bus.enumerate_fail = 0
            s.bus.enumerate_skip = 0
            mark = len(s.bus.events)
            r3, e3, _ = s.request(fu.request)
            roles3 = [fl.role_of(e["apdu"]) for e in s.bus.apdus(mark)]
            if e3 is not None or not isinstance(r3, dict) or \
                    r3.get("errorcode") != baseline(fu)[2].get("errorcode"):
                return bad("not-repaired-after-failed-reopen:%s" % fu.command, reply=r3,
                           exc=repr(e3), roles=roles3[:8])
            return
        if c["variant"] == "vbetween":
            # a request that needs no device ("version") neither repairs nor fails,
            # and leaves the repair pending for the next device request
            mark = len(s.bus.events)
            rv, ev, _ = s.request({"command": "version"})
            acc.count("version_between")
            if ev is not None or not isinstance(rv, dict) or rv.get("errorcode") != 0:
                return bad("version-request-failed-while-repair-pending", reply=rv,
                           exc=repr(ev))
            if any(e["ev"] == "apdu" for e in s.bus.events[mark:]):
                return bad("version-request-sent-apdus-while-repair-pending")
        for attempt in range(c["j"]):
            if attempt >= 1 and c["variant"].startswith("quiet-outage:") and "jc" in _QUIET:
                # (the outage lasts: minutes to a day go by between two requests that find
                # no device - the next one gets the same answer and tries again)
                _QUIET["jc"].offset += float(c["variant"].split(":")[1])
                acc.count("failed_reconnections_after_a_long_silence")
            s.bus.arm({})
            mark = len(s.bus.events)
            r2, e2, _ = s.request(fu.request)
            acc.count("reconnect_failures")
            apd = s.bus.apdus(mark)
            if e2 is not None:
                return bad("exception-escaped-while-disconnected:%s:%s" % (
                    fu.command, type(e2).__name__), exc=repr(e2), attempt=attempt)
            if not isinstance(r2, dict) or r2.get("errorcode") != want:
                return bad("disconnected-request-not-device-error:%s" % fu.command, reply=r2,
                           attempt=attempt)
            if not any(e["ev"] == "enumerate" for e in s.bus.events[mark:]):
                return bad("repair-not-retried-while-disconnected:%s" % fu.command,
                           attempt=attempt)
            if apd:
                return bad("apdu-sent-while-disconnected:%s" % fu.command,
                           apdus=[a["apdu"].hex() for a in apd if a["apdu"]][:4])
        if c["variant"].startswith("flap:"):
            # a flapping link: every repair succeeds (connection re-opened, full bring-up),
            # then the command's own first exchange fails again - n requests in a row.
            # Each gets the device-error code, each next one repairs again; the manager
            # never gives up and never stops.
            for rnd in range(int(c["variant"].split(":")[1])):
                s.bus.arm({len(BRINGUP): Fault(rng_kind(c, rnd))})
                mark = len(s.bus.events)
                rf, ef, _ = s.request(fu.request)
                acc.count("flapping_link_rounds")
                rolesf = [fl.role_of(e["apdu"]) for e in s.bus.apdus(mark)]
                if ef is not None:
                    return bad("exception-escaped-on-flapping-link:%s:%s" % (
                        fu.command, type(ef).__name__), exc=repr(ef), round=rnd)
                if rolesf[:len(BRINGUP)] != BRINGUP:
                    return bad("no-full-bring-up-on-flapping-link:%s" % fu.command,
                               roles=rolesf[:8], round=rnd, reply=rf)
                if len(rolesf) <= len(BRINGUP):
                    break           # this command needs no exchange of its own
                if not isinstance(rf, dict) or rf.get("errorcode") != want:
                    return bad("flapping-link-round-not-device-error:%s" % fu.command,
                               reply=rf, round=rnd)
                dev.mode = 0x03
                dev.pending_link = None
                dev.adv_policy = {}
                if fu.post:
                    fu.post(dev)
            old_handle = s.bus.handle_seq
        plan = {}
        if c["variant"].startswith("double"):
            _, m, dk = c["variant"].split(":")
            plan = {int(m): Fault(dk)}
            if dk.startswith("sw"):
                plan = {int(m): Fault("sw", sw=int(dk[2:], 16))}
                acc.count("status_words_inside_the_bring_up_of_a_repair")
        if c["variant"].startswith("rebootlate"):
            # the repair goes through the bootloader (unlock, open the signer, reconnect);
            # one of the last three bring-up exchanges (mode, version, parameters - after
            # the signer was opened) then fails: the repair did not complete
            _, j, dk = c["variant"].split(":")
            nb = reboot_bringup_len(shape, fu, v1)
            if nb is None:
                acc.count("rebootlate_skipped")
                return
            plan = {nb - 3 + int(j): Fault(dk)}
            acc.count("faults_late_in_repair_through_bootloader")
            if c["variant"].startswith("rebootlate-early"):
                # ... or one of the exchanges before the signer is opened (mode, UI version,
                # echo, retries, PIN bytes, unlock): the repair did not complete either, the
                # device is still what it was, and the next request repairs
                rr = _reboot_roles.get((fu.name, v1), [])
                stop_ = rr.index("exit") if "exit" in rr else 0
                if stop_ < 3:
                    acc.count("rebootlate_skipped")
                    return
                plan = {1 + int(j) % (stop_ - 1): Fault(dk)}
                acc.count("faults_early_in_repair_through_bootloader")
        s.bus.arm(plan)
        mark = len(s.bus.events)
        r2, e2, _ = s.request(fu.request)
        acc.count("followups_checked")
        evs = s.bus.events[mark:]
        if e2 is not None and c["variant"].startswith("double:0:"):
            # (initialize_device() answers a failing onboard query - the first exchange of
            # any bring-up, also of a repair's - with "stop the manager")
            acc.count("faults_at_the_onboard_query_of_a_repair")
            return bad("stopped-by-a-fault-at-the-onboard-query-of-a-repair",
                       exc=repr(e2), reply=r2)
        if e2 is not None and c["variant"].startswith("rebootlate-early") and plan and \
                _reboot_roles.get((fu.name, v1), [])[min(plan)] == "cmd45":
            # (_handle_bootloader() answers any failure of the retries query - "how many PIN
            # attempts are left?" - with "stop the manager", in a repair as at start-up)
            acc.count("faults_at_the_retries_query_of_a_repair")
            return bad("stopped-by-a-fault-at-the-retries-query-of-a-repair",
                       exc=repr(e2), reply=r2)
        if e2 is not None:
            return bad("followup-exception:%s:%s" % (fu.command, type(e2).__name__),
                       exc=repr(e2))
        if not isinstance(r2, dict) or type(r2.get("errorcode")) is not int:
            return bad("followup-no-verdict:%s" % fu.command, reply=r2)
        # order of transport events
        seq = [(e["ev"], e.get("h"), fl.role_of(e.get("apdu")) if e["ev"] == "apdu" else None)
               for e in evs]
        names = [x[0] for x in seq]
        if c["j"] == 0:
            if "close" not in names or seq[names.index("close")][1] != old_handle:
                return bad("followup-did-not-close-old-connection:%s" % fu.command,
                           events=seq[:8])
        if ("enumerate" not in names and plat == "ledger") or "open" not in names:
            return bad("followup-did-not-reopen:%s" % fu.command, events=seq[:8])
        i_open = names.index("open")
        if "close" in names and names.index("close") > i_open:
            pass
        new_handle = seq[i_open][1]
        apd = [x for x in seq if x[0] == "apdu"]
        if any(h != new_handle for (_, h, _) in apd[:4]):
            return bad("bring-up-on-old-connection:%s" % fu.command, events=seq[:10])
        first_ = "enumerate" if plat == "ledger" else "open"
        if names.index(first_) > names.index("apdu") if "apdu" in names else False:
            return bad("apdu-before-reconnect:%s" % fu.command, events=seq[:8])
        got_roles = [r for (_, _, r) in apd]
        if plan:
            # second fault during the repair: this request fails too, the next repairs
            if r2["errorcode"] != want:
                return bad("fault-during-repair-not-device-error:%s" % fu.command, reply=r2)
            cmd_roles = [r for r in got_roles if r not in ("onboard", "mode", "params", "none")]
            if c["variant"].startswith("rebootlate"):
                cmd_roles = []      # unlock / exit exchanges legitimately precede the fault
            if cmd_roles and fu.command not in ("blockchainParameters",):
                return bad("command-apdu-after-failed-repair:%s" % fu.command, roles=got_roles)
            s.bus.arm({})
            mark = len(s.bus.events)
            r3, e3, _ = s.request(fu.request)
            acc.count("double_fault_repairs")
            roles3 = [fl.role_of(e["apdu"]) for e in s.bus.apdus(mark)]
            if e3 is not None or not isinstance(r3, dict) or \
                    r3.get("errorcode") != baseline(fu)[2].get("errorcode"):
                return bad("not-repaired-after-double-fault:%s" % fu.command, reply=r3,
                           exc=repr(e3), roles=roles3[:8])
            if roles3[:4] != BRINGUP and not c["variant"].startswith("rebootlate-early"):
                return bad("no-full-bring-up-after-double-fault:%s" % fu.command,
                           roles=roles3[:8])
            return
        if c["variant"] in ("reboot", "powercycle"):
            # bring-up goes through the bootloader: unlock, exit, reconnect, then checks
            if 0xFE not in [e["apdu"][1] for e in s.bus.apdus(mark) if e["apdu"]]:
                return bad("rebooted-device-not-unlocked:%s" % fu.command, roles=got_roles[:12])
            tail_start = max(i for i, r in enumerate(got_roles) if r == "params") \
                if "params" in got_roles else None
            if tail_start is None:
                return bad("no-bring-up-after-reboot:%s" % fu.command, roles=got_roles[:12])
        else:
            if got_roles[:4] != BRINGUP:
                return bad("bring-up-incomplete-before-command:%s" % fu.command,
                           roles=got_roles[:8])
        want_reply = baseline(fu)[2]
        if r2.get("errorcode") != want_reply.get("errorcode"):
            return bad("followup-not-repaired:%s:got%s" % (fu.command, r2.get("errorcode")),
                       reply=r2, roles=got_roles[:10])
        if c["variant"] == "reboot" and fu.name not in ("uiHeartbeat.hbmode",) and \
                zlib.crc32(repr(sorted(c.items())).encode()) % 2 == 0:
            # once more in the same manager: another link failure, the device again back in
            # the bootloader - the second repair through the bootloader must work like the
            # first (nothing used up or dropped by the earlier pass)
            acc.count("second_repairs_through_the_bootloader")
            dev.mode = 0x03
            dev.adv_policy = {}
            if fu.post:
                fu.post(dev)
            s.bus.arm({0: Fault("read_error")})
            s.request(fu.request)
            s.bus.arm({})
            dev.pending_link = None
            dev.adv_policy = {}
            if fu.post:
                fu.post(dev)
            dev.mode = MODE_BOOTLOADER
            dev.unlocked = False
            r4, e4, _ = s.request(fu.request)
            if e4 is not None:
                return bad("exception-escaped-in-second-repair-through-bootloader:%s:%s" % (
                    fu.command, type(e4).__name__), exc=repr(e4))
            if not isinstance(r4, dict) or r4.get("errorcode") != want_reply.get("errorcode"):
                return bad("second-repair-through-bootloader-failed:%s" % fu.command, reply=r4)
        if len(acc.samples) < 3:
            acc.sample({"case": c, "faulted_reply": reply, "followup_reply_code":
                        r2.get("errorcode"), "followup_events": [
                            "%s%s" % (a, ":" + r if r else "") for (a, _, r) in seq[:12]]})


def replay(case, acc):
    env.setup()
    run_case(acc, case)
