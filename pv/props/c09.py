# C09 - bring-up never endangers the device and never serves from an unsafe state
import os
import zlib
import json
import random
import socket
import tempfile
import threading
import itertools

from .. import env
from ..simdev.device import (SimDevice, MODE_BOOTLOADER, MODE_SIGNER, MODE_UI_HEARTBEAT,
                             ECHO_KINDS)

ID = "C09"
LEVEL = "exploration"
RULE = ("device configurations = mode {bootloader, signer, ui-heartbeat, unknown 0xFF, other "
        "byte, error status} x onboarded {yes, no, error status} x UI and signer version "
        "triples (3x7x4 grid around 5.4.1 + random bytes) x retries {0,1,2,3,255,random} x echo "
        "{ok,bad} x unlock {ok,bad} x PIN needs change {y,n} x post-unlock mode x platform "
        "{Ledger over fake HID, SGX and TCPSigner over fake socket}; quick = seeded sample + "
        "full version grids on the otherwise-serving configuration, thorough = full product on "
        "the reduced grid. Each configuration runs the real initialize_device (a sample also "
        "through TCPServer.run on a real socket with a probe client); the monitor counts "
        "SEND_PIN/UNLOCK/SGX_UNLOCK APDUs and compares 'unlock sent' and 'served' with a "
        "reference decision function written from the property statement. distinct = "
        "distinct configurations; non-trivial = all")
RULE_ADDED = (
              'Also: nine kinds of wrong echo; the device refusing / failing the new PIN; time-out / '
              'late answer / read error on the UNLOCK exchange; a quarter of the serving '
              'configurations followed by a link failure, a swap to an unacceptable device and a '
              'repair attempt cut short (nothing may be served afterwards) '
              ' '
              'Round 8: the PIN object built by manager_ledger / manager_sgx load_pin from a pa'
              'rsed command line, a due change being either a missing file or -X with the file '
              'present; the hang-up scenario runs with a device that passes the checks precedin'
              'g the retries check. '
              ' '
              'Round 9: the requests that run into the repair of an unacceptable device are of '
              'every command; a device locked with one retry left must stop the manager within '
              'three requests. '
              ' '
              'Round 10: after the link failure the device may also be locked with an unsupport'
              'ed UI version or a wrong echo: no PIN byte, no unlock. '
              ' '
              'Round 11: a fifth of the Ledger configurations run in legacy (--version-one) mod'
              'e. '
              ' '
              'Round 12: version components of two and three digits (10, 40, 100). '
              ' '
              'Round 13: after a reconnection, a locked device that takes the PIN but whose sig'
              'ner does not come up (still the bootloader, another app): the manager stops and '
              'sends the PIN once. '
              ' '
              'Round 15: version components 127, 128, 200 in the grids; unlock-exchange faults '
              'on SGX too. '
              ' '
              'Round 16: the SGX peer closing the connection right after taking the unlock comm'
              'and. '
              ' '
              'Round 17: a uiHeartbeat after which the device is found locked in the bootloader'
              ' and is no device the bring-up would accept; unsafe devices after a reconnection'
              ' on SGX too. '
              ' '
              'Round 20: a UI whose answer to the retries query carries bytes after the counter'
              ' (20% of the sampled configurations). ')
RULE = RULE + " " + RULE_ADDED.strip()
ASSUMPTIONS = [
    "simulated device + fake transports trusted",
    "'serving' in-process = initialize_device returned normally (comm/server.py calls "
    "serve_forever right after); the live sample checks that equivalence on real sockets",
    "TCPSigner x bootloader mode is not a state that platform has (no PIN is configured "
    "there): only 'no unlock, no serving' is required of it",
]
FLOORS = {"quick": {"evaluations": 5000, "served": 300, "unlock_sent": 500, "refused": 3000,
                    "live_runs": 20, "version_grid_cells": 300,
                    "supports_contract_evaluations": 20000,
                    "reconnections_to_an_unsafe_device": 60},
          "thorough": {"evaluations": 300000, "served": 30000, "unlock_sent": 30000,
                       "refused": 200000, "live_runs": 60, "version_grid_cells": 300,
                       "supports_contract_evaluations": 150000}}
EXHAUSTIVE = {"quick": False, "thorough": True}

MGR = (5, 4, 1)


def supported(v):
    """same major and (minor, patch) not newer than the manager's 5.4.1"""
    return v[0] == MGR[0] and (v[1] < MGR[1] or (v[1] == MGR[1] and v[2] <= MGR[2]))


# (components of one, two and three digits: 10, 40, 100 read as text or as decimals are
# other numbers than as integers)
VERSION_GRID = [(a, b, c) for a in (4, 5, 6, 50)
                for b in (0, 1, 3, 4, 5, 6, 10, 40, 127, 128, 200, 255)
                for c in (0, 1, 2, 9, 10, 11, 100, 127, 128, 200, 255)]
MODES = ["boot", "signer", "uihb", "unknown", "other", "error"]
ONB = [True, False, "error"]
RETRIES = [0, 1, 2, 3, 255]
POST = ["signer", "boot", "uihb", "unknown"]
PLATFORMS = ["ledger", "sgx", "tcp"]
VERS_SMALL = [(5, 4, 1), (5, 4, 2), (5, 3, 9), (4, 4, 1), (6, 0, 0), (5, 5, 0), (5, 4, 10),
              (5, 4, 100), (5, 3, 10), (5, 40, 0)]


def mode_byte(name):
    return {"boot": MODE_BOOTLOADER, "signer": MODE_SIGNER, "uihb": MODE_UI_HEARTBEAT,
            "unknown": 0xFF, "other": 0x07}[name]


def reference(c):
    """-> (unlock_allowed, must_serve) from the statement of C09"""
    onb = c["onboarded"] is True
    mode = c["mode"]
    if c["platform"] == "sgx":
        # SGX reports bootloader iff locked
        mode = "boot" if c["mode"] == "boot" else ("signer" if c["mode"] == "signer" else c["mode"])
    unlock_allowed = (onb and mode == "boot" and supported(c["ui"]) and c["echo"] is True and
                      c["retries"] >= 2)
    if mode == "signer":
        ends_in_signer = True
    elif mode == "boot":
        ends_in_signer = (unlock_allowed and c["unlock"] and not c["change"] and
                          c["post"] == "signer" and not c.get("unlock_fault"))
    else:
        ends_in_signer = False
    must_serve = onb and ends_in_signer and supported(c["signer"])
    return unlock_allowed, must_serve


def shards(tier, seed):
    n = 16 if tier == "quick" else 32
    return [{"shard": i, "n": n, "tier": tier, "seed": seed} for i in range(n)]


def configs(spec):
    rng = random.Random(spec["seed"] * 104729 + spec["shard"])
    sh, n = spec["shard"], spec["n"]
    good = {"mode": "boot", "onboarded": True, "ui": (5, 4, 1), "signer": (5, 4, 1),
            "retries": 3, "echo": True, "unlock": True, "change": False, "post": "signer"}
    # version grids on the otherwise-serving configuration
    i = 0
    for plat in ("ledger", "sgx"):
        for which in ("ui", "signer"):
            for v in VERSION_GRID:
                i += 1
                if i % n == sh:
                    c = dict(good, platform=plat, grid=True)
                    c[which] = v
                    yield c
    for plat in PLATFORMS:
        for v in VERSION_GRID:
            i += 1
            if i % n == sh:
                yield dict(good, platform=plat, mode="signer", signer=v, grid=True)
    nrand = 6500 // n if spec["tier"] == "quick" else 400000 // n
    if True:
        for _ in range(nrand):
            def ver():
                if rng.random() < 0.55:
                    return rng.choice([(5, 4, 1), (5, 4, 0), (5, 3, 7), (5, 0, 0)])
                return rng.choice(VERS_SMALL + [rng.choice(VERSION_GRID),
                                                tuple(rng.randbytes(3))])
            yield {"platform": rng.choice(["ledger", "ledger", "sgx", "sgx", "tcp"]),
                   "mode": rng.choice(["boot"] * 6 + ["signer"] * 2 + MODES),
                   "onboarded": rng.choice([True] * 8 + [False, "error"]),
                   "ui": ver(), "signer": ver(),
                   "retries": rng.choice(RETRIES + [2, 3, 3, rng.randrange(256)]),
                   "echo": True if rng.random() < 0.75 else rng.choice([False] + ECHO_KINDS),
                   "unlock": rng.random() < 0.8,
                   "change": rng.random() < 0.25, "post": rng.choice(POST + ["signer"] * 6),
                   "newpin": rng.choice(["ok", "ok", "refused", "error", "unknown"]),
                   "unlock_fault": rng.choice([None] * 8 + ["timeout", "late", "read_error"]),
                   # (a UI that says more than asked: bytes after the retries counter, which
                   # is the byte after the command's echo whatever follows it)
                   "retries_tail": rng.choice([""] * 8 + ["03", "00", "9000", "0503", "ff"])}
        if spec["tier"] == "quick":
            return
    prod = itertools.product(PLATFORMS, MODES, ONB, VERS_SMALL, VERS_SMALL, RETRIES,
                             [True] + ECHO_KINDS, (True, False), (True, False), POST)
    for j, (pl, mo, ob, ui, sg, rt, ec, ul, ch, po) in enumerate(prod):
        if j % n != sh:
            continue
        if mo != "boot" and (ui != VERS_SMALL[0] or rt != 3 or ec is not True or not ul or ch or
                             po != "signer"):
            continue    # those knobs are unobservable unless the bootloader path runs
        for npn in (["ok", "refused", "error"] if ch and mo == "boot" else ["ok"]):
            for uf in ([None, "timeout", "late"] if mo == "boot" and pl == "ledger" and
                       ec is True and not ch else [None]):
                yield {"platform": pl, "mode": mo, "onboarded": ob, "ui": ui, "signer": sg,
                       "retries": rt, "echo": ec, "unlock": ul, "change": ch, "post": po,
                       "newpin": npn, "unlock_fault": uf}


def make_device(c):
    cfg = dict(platform=c["platform"], ui_version=c["ui"], signer_version=c["signer"],
               retries=c["retries"], echo_ok=c["echo"], unlock_result=c["unlock"],
               onboarded=(c["onboarded"] is True), pin=b"abcd1234",
               retries_tail=bytes.fromhex(c.get("retries_tail", "")))
    if c["onboarded"] == "error":
        cfg["onboard_sw"] = 0x6A99
    if c["mode"] == "error":
        cfg["mode_sw"] = 0x6A99
        cfg["mode"] = MODE_SIGNER
    else:
        cfg["mode"] = mode_byte(c["mode"])
    if c["post"] != "signer":
        cfg["post_exit_mode"] = mode_byte(c["post"])
    if c.get("newpin") not in (None, "ok"):
        # the device turns the new PIN down (invalid PIN / internal error)
        cfg["newpin_sw"] = {"refused": 0x69A0, "error": 0x6A99, "unknown": 0x6F01}[c["newpin"]]
    dev = SimDevice(**cfg)
    if c["platform"] == "sgx":
        # SGX: "bootloader" <=> locked; other mode bytes are forced through the knob
        dev.unlocked = (c["mode"] != "boot")
        if c["mode"] not in ("boot", "signer", "error"):
            orig = dev.reported_mode
            dev.reported_mode = lambda: mode_byte(c["mode"])
            dev._orig_mode = orig
        if c["post"] != "signer":
            # after a successful unlock the enclave reports this instead of signer
            def rm(d=dev, c=c):
                if not d.unlocked:
                    return MODE_BOOTLOADER
                return mode_byte(c["post"])
            if c["mode"] == "boot":
                dev.reported_mode = rm
    return dev


def make_pin(c, tmpdir):
    from ledger.pin import FileBasedPin
    if c["platform"] == "tcp":
        return None
    path = os.path.join(tmpdir, "pin.txt")
    if os.path.exists(path):
        os.unlink(path)
    # a PIN change is due either because there is no PIN file yet or because the operator
    # asked for one (-X) with the file in place; the PIN object is built the way the
    # manager scripts build it (their own load_pin on the parsed command line)
    import zlib
    from .c10 import load_pin_as_the_manager_does
    if c["platform"] == "tcp":
        return None       # manager_tcp.py: load_pin=lambda options: None
    forced = c["change"] and zlib.crc32(json.dumps(c, sort_keys=True, default=str).encode()) % 2
    if not c["change"] or forced:
        with open(path, "wb") as f:
            f.write(b"abcd1234")
    return load_pin_as_the_manager_does(c["platform"], path, bool(forced), b"abcd1234")


def unlock_apdus(apdus):
    n_unlock = 0
    n_pin = 0
    first_unlock_at = None
    for i, e in enumerate(apdus):
        a = e["apdu"]
        if a is None:
            continue
        if a[1] in (0xFE, 0xA3):
            n_unlock += 1
            if first_unlock_at is None:
                first_unlock_at = i
        if a[1] == 0x41:
            n_pin += 1
    return n_unlock, n_pin, first_unlock_at


def run_config(acc, c, tmpdir, live=False):
    from ..stack import Stack
    if c.get("unlock_fault") and c["platform"] == "tcp":
        c["unlock_fault"] = None     # (TCPSigner: no PIN, no unlock exchange)
    if c.get("unlock_fault") == "late" and c["platform"] == "sgx":
        c["unlock_fault"] = "timeout"    # (a byte stream has no late answers of this kind)
    dev = make_device(c)

    class _P:    # pin handed to Stack; FileBasedPin built after Platform is set
        pass
    acc.evaluations += 1
    key = json.dumps({k: c[k] for k in sorted(c) if k != "grid"}, sort_keys=True)
    acc.distinct.add(key)
    if c.get("grid"):
        acc.count("version_grid_cells")
    pin = None
    # a fifth of the non-live Ledger configurations run the manager in legacy
    # (--version-one) mode: same bring-up, other request handlers
    v1 = (not live and c["platform"] == "ledger" and zlib.crc32(key.encode()) % 5 == 0)
    if v1:
        acc.count("configurations_in_legacy_mode")
    with Stack(dev, pin=_P(), version_one=v1) as s:
        pin = make_pin(c, tmpdir)
        s.protocol.pin = pin
        if v1:
            s.protocol.protocol_v2.pin = pin     # (legacy mode delegates to it)
        served = False
        exc = None
        if c.get("unlock_fault"):
            # the unlock exchange itself fails: no answer at all, an answer later than the
            # host's time-out, a read error (the device has compared the PIN in any case)
            from ..simdev.transport import Fault
            f = Fault(c["unlock_fault"], processed=True) if c["unlock_fault"] != "late" \
                else Fault("late")
            s.bus.arm_cmd({0xFE: f, 0xA3: f})
            # (over TCP the failure comes in the shapes the dongle layer classifies - or, for
            # half of the read errors, as what the real transport makes of a peer that took
            # the command and then closed the connection: an empty read, struct.error)
            s.bus.tcp_faults_as_hid = not (c["platform"] == "sgx" and
                                           c["unlock_fault"] == "read_error" and
                                           zlib.crc32(key.encode()) % 2 == 0)
            if not s.bus.tcp_faults_as_hid:
                acc.count("unlock_exchanges_after_which_the_sgx_peer_closes")
            acc.count("unlock_exchange_faults" + ("_sgx" if c["platform"] == "sgx" else ""))
        if live:
            hang = {}
            served, exc = run_live(s, (lambda **kw: hang.update(kw))
                                   if c["platform"] == "ledger" else None)
            acc.count("live_runs")
            if "stopped" in hang:
                acc.count("live_hangups_during_a_stopping_bring_up")
                if not hang["stopped"]:
                    acc.violation("manager-kept-running-after-a-bring-up-that-must-stop-it:"
                                  "client-hung-up", {"config": c}, {"config": c, "live": True})
        else:
            try:
                s.initialize()
                served = True
            except BaseException as e:   # noqa
                if isinstance(e, (KeyboardInterrupt, SystemExit)):
                    raise
                exc = e
        apdus = s.bus.apdus()
        n_unlock, n_pin, at = unlock_apdus(apdus)
        allowed, must_serve = reference(c)

        def bad(mech, **d):
            d.update(config=c, served=served, unlocks=n_unlock, exc=repr(exc),
                     apdus=[e["apdu"].hex() for e in apdus if e["apdu"]][:40])
            acc.violation(mech, d, {"config": c, "live": live})

        if n_unlock > 1:
            return bad("unlock-sent-%d-times" % n_unlock)
        if (n_unlock or n_pin) and not allowed:
            why = ("not-onboarded" if c["onboarded"] is not True else
                   "mode-" + c["mode"] if c["mode"] != "boot" else
                   "ui-version" if not supported(c["ui"]) else
                   "echo" if c["echo"] is not True else "retries")
            return bad("pin-or-unlock-sent-without-precondition:%s" % why)
        if n_unlock:
            acc.count("unlock_sent")
            # the PIN bytes precede the unlock command and are the configured PIN
            if c["platform"] == "ledger":
                sent = bytes(e["apdu"][3] for e in apdus[:at] if e["apdu"] and e["apdu"][1] == 0x41)
                if sent != b"abcd1234":
                    return bad("wrong-pin-sent", sent=sent.hex())
        tcp_boot = (c["platform"] == "tcp" and c["mode"] == "boot")
        if served and not must_serve:
            return bad("served-from-unsafe-state:%s" % (
                "not-onboarded" if c["onboarded"] is not True else
                "signer-version" if not supported(c["signer"]) else
                "pin-changed" if c["change"] and c["mode"] == "boot" else
                "mode"))
        if must_serve and not served and not tcp_boot:
            return bad("refused-although-safe")
        if allowed and not n_unlock and not tcp_boot:
            return bad("unlock-not-attempted-although-required")
        acc.count("served" if served else "refused")
        if served and not live and c["platform"] == "ledger" and \
                zlib.crc32(key.encode()) % 2 == 0:
            unsafe_after_reconnection(acc, c, s, dev, bad, v1)
        elif served and not live and c["platform"] == "ledger" and not v1 and \
                zlib.crc32(key.encode()) % 4 == 1:
            heartbeat_back_in_the_bootloader(acc, c, s, dev, bad)
        elif served and not live and c["platform"] == "sgx" and c["mode"] == "boot" and \
                zlib.crc32(key.encode()) % 2 == 0:
            # (the same on SGX, for the unsafe devices that platform can present; the link
            # failure comes in the shapes the dongle layer classifies)
            s.bus.tcp_faults_as_hid = True
            acc.count("reconnections_to_an_unsafe_device_on_sgx")
            unsafe_after_reconnection(acc, c, s, dev, bad, v1, sgx=True)
        if len(acc.samples) < 3 and (served or n_unlock):
            acc.sample({"config": c, "served": served, "unlock_commands": n_unlock,
                        "outcome": repr(exc) if exc else "initialize_device returned",
                        "apdu_cmds": [("%02x" % e["apdu"][1]) for e in apdus if e["apdu"]]})


def heartbeat_back_in_the_bootloader(acc, c, s, dev, bad):
    """the manager is serving; a uiHeartbeat leaves the signer and, when it is over, the
    device is found locked in the bootloader - and it is no device the bring-up would accept
    (not onboarded any more, or one whose signer is of an unsupported version).  No PIN goes
    to the one, no request is served from the other."""
    from ..gen import der as _der
    rng = random.Random(zlib.crc32(json.dumps(c, sort_keys=True).encode()) ^ 0x77)
    dev.uihb = {"signature": _der.make_sig(rng, "normal")[0],
                "message": b"HSM:UI:HB:" + bytes(40), "tweak": bytes(32), "pubkey": bytes(65)}
    dev.cfg["hb_back_mode"] = MODE_BOOTLOADER
    dev.cfg["echo_ok"] = True
    dev.cfg["ui_version"] = (5, 4, 1)
    dev.cfg["unlock_result"] = True
    dev.cfg["post_exit_mode"] = None
    dev.retries = 3
    how = rng.choice(["not-onboarded", "signer-version"])
    acc.count("heartbeats_after_which_an_unsafe_device_is_in_the_bootloader")
    mark = len(s.bus.events)
    seen_hb = {"done": False}

    def hook(bus, apdu):
        # (the device changes while it is in the heartbeat app)
        if len(apdu) > 1 and apdu[1] == 0x60 and not seen_hb["done"]:
            seen_hb["done"] = True
            if how == "not-onboarded":
                dev.onboarded = False
            else:
                dev.cfg["signer_version"] = rng.choice([(5, 5, 0), (6, 0, 0), (4, 4, 1)])
    s.bus.exchange_hook = hook
    r, e, _ = s.request({"command": "uiHeartbeat", "version": 5, "udValue": "33" * 32})
    s.bus.exchange_hook = None
    sent = [ev["apdu"][1] for ev in s.bus.apdus(mark) if ev["apdu"] is not None]
    if how == "not-onboarded" and (0x41 in sent or 0xFE in sent):
        return bad("pin-or-unlock-sent-without-precondition:not-onboarded:after-a-heartbeat")
    if e is not None:
        return
    r2, e2, _ = s.request({"command": "blockchainParameters", "version": 5})
    if how == "signer-version" and e2 is None and isinstance(r2, dict) and \
            r2.get("errorcode") == 0 and (0x41 in sent or 0xFE in sent):
        return bad("served-from-unsafe-state:signer-version:after-a-heartbeat")


def unsafe_after_reconnection(acc, c, s, dev, bad, v1=False, sgx=False):
    """the manager is serving; the link fails; the device that is there afterwards is one
    the bring-up would never accept (unsupported signer, not onboarded, locked with no
    retries left), and the first repair attempt is cut short by a time-out or an error
    status on one of its exchanges.  From then on no request may be served from it."""
    from ..simdev.transport import Fault
    rng = random.Random(zlib.crc32(json.dumps(c, sort_keys=True).encode()))
    # (a command the simulated device answers in any configuration)
    req = {"command": "blockchainParameters", "version": 5} if not v1 else \
        {"command": "getPubKey", "version": 1, "keyId": "m/44'/137'/0'/0/0"}
    s.bus.arm({0: Fault(rng.choice(["read_error", "write_error"]))})
    s.request(req)
    s.bus.arm({})
    s.bus.arm_cmd({})     # (a fault planned for the bring-up's unlock that never took place)
    dev.pending_link = None
    how = rng.choice(["signer-version", "not-onboarded", "locked-no-retries",
                      "locked-no-retries", "locked-unsupported-ui", "locked-unsupported-ui",
                      "locked-wrong-echo", "locked-signer-does-not-come-up",
                      "locked-signer-does-not-come-up"])
    if sgx:
        how = rng.choice(["signer-version", "not-onboarded", "locked-no-retries"])
    if how == "signer-version":
        dev.cfg["signer_version"] = rng.choice([(5, 5, 0), (6, 0, 0), (4, 4, 1), (5, 4, 2)])
    elif how == "not-onboarded":
        dev.onboarded = False
    elif how in ("locked-unsupported-ui", "locked-wrong-echo"):
        # another device (or this one after a firmware change) is there after the link
        # failure: locked, plenty of retries, but running a UI version the manager does
        # not support / echoing wrongly.  It gets no PIN.
        dev.mode = MODE_BOOTLOADER
        dev.unlocked = False
        dev.retries = 3
        if how == "locked-unsupported-ui":
            dev.cfg["ui_version"] = rng.choice([(5, 5, 0), (6, 0, 0), (4, 0, 0), (5, 4, 2)])
            dev.cfg["echo_ok"] = True
        else:
            dev.cfg["ui_version"] = (5, 4, 1)
            dev.cfg["echo_ok"] = rng.choice(["last", "extended", "truncated"])
    elif how == "locked-signer-does-not-come-up":
        # locked, everything in order, the PIN is accepted - but what is there after the
        # exit from the bootloader is not the signer (it is the bootloader still, or another
        # app): the manager stops, having sent the PIN once
        dev.mode = MODE_BOOTLOADER
        dev.unlocked = False
        dev.retries = 3
        dev.cfg["echo_ok"] = True
        dev.cfg["ui_version"] = (5, 4, 1)
        dev.cfg["unlock_result"] = True
        dev.cfg["post_exit_mode"] = rng.choice([MODE_BOOTLOADER, MODE_BOOTLOADER, 0x04, 0x00])
    else:
        dev.mode = MODE_BOOTLOADER
        dev.unlocked = False
        dev.retries = 1
        # (the checks that precede the retries check pass: it is the retries check that
        # decides, and it decides that the manager stops)
        dev.cfg["echo_ok"] = True
        dev.cfg["ui_version"] = (5, 4, 1)
    # the requests that run into the repair are of any kind (each command's handler has
    # its own call of the reconnection and its own error handling around it)
    from . import c02
    pool = [v for k_, v in sorted(c02.bases(rng, v1).items()) if k_ != "version"]
    cut = rng.choice([None, (0x43, "timeout"), (0x06, "timeout"), (0x11, "sw"),
                      (0x43, "sw"), (0x06, "sw")])
    if cut:
        s.bus.arm_cmd({cut[0]: Fault("timeout") if cut[1] == "timeout" else
                       Fault("sw", sw=0x6B00)})
    acc.count("reconnections_to_an_unsafe_device")
    asked = []
    req = rng.choice(pool)
    mark0 = len(s.bus.events)
    for k in range(3):
        asked.append(req["command"] + ("/" + "".join(sorted(req.get("message", {})))[:12]
                                       if req["command"] == "sign" else ""))
        r, e, _ = s.request(req)
        if how == "locked-signer-does-not-come-up":
            n_un = sum(1 for ev in s.bus.apdus(mark0)
                       if ev["apdu"] is not None and ev["apdu"][1] == 0xFE)
            if n_un > 1:
                bad("unlock-sent-%d-times-after-reconnection-to-a-device-whose-signer-does-"
                    "not-come-up" % n_un, request_no=k, first_repair_cut_by=cut,
                    mode_after_exit=dev.cfg["post_exit_mode"])
                return
        elif how.startswith("locked-") and how != "locked-no-retries" and any(
                ev["apdu"] is not None and ev["apdu"][1] in (0x41, 0xFE)
                for ev in s.bus.apdus(mark0)):
            bad("pin-or-unlock-sent-after-reconnection-to-a-device-with-%s" % how[7:],
                request_no=k, first_repair_cut_by=cut)
            return
        if e is None and isinstance(r, dict) and r.get("errorcode") == 0:
            bad("served-from-unsafe-state:after-reconnection:%s" % how, request_no=k,
                first_repair_cut_by=cut)
            return
        if e is not None:
            return      # the manager stopped: fine
    if how in ("locked-no-retries", "locked-signer-does-not-come-up"):
        # one retry left / no signer after the unlock: the bring-up of the repair ends in "stop" (at the latest on the
        # request after the one whose repair was cut short)
        bad("manager-kept-running-after-a-repair-that-must-stop-it", requests=asked,
            first_repair_cut_by=cut)


def run_live(s, hangup=None):
    """real TCPServer.run() on an ephemeral port + probe client"""
    from comm.server import TCPServer
    sock = socket.socket()
    sock.bind(("127.0.0.1", 0))
    port = sock.getsockname()[1]
    sock.close()
    srv = TCPServer("127.0.0.1", port, s.protocol)
    res = {}

    def target():
        try:
            srv.run()
            res["ret"] = True
        except BaseException as e:   # noqa
            res["exc"] = e
    t = threading.Thread(target=target, daemon=True)
    t.start()
    served = False
    import time
    deadline = time.time() + 5
    while time.time() < deadline:
        if not t.is_alive():
            break
        if srv.server is not None:
            try:
                cs = socket.create_connection(("127.0.0.1", port), timeout=2)
                cs.sendall(b'{"command":"version"}\n')
                data = cs.makefile("rb").readline()
                cs.close()
                if json.loads(data.decode()).get("errorcode") == 0:
                    served = True
                break
            except OSError:
                time.sleep(0.01)
        else:
            time.sleep(0.005)
    if served and hangup is not None and t.is_alive():
        hangup_during_stopping_bringup(s, port, t, hangup)
    if srv.server is not None:
        srv.server.shutdown()
    t.join(5)
    return served, res.get("exc")


def hangup_during_stopping_bringup(s, port, t, report):
    """the manager is serving on real sockets; a request fails on the link; the device that
    is there afterwards makes the repair's bring-up end in a stop (locked, one retry left);
    the client of the request that triggers that repair hangs up without reading the
    answer.  The manager must stop all the same."""
    import time
    from ..simdev.transport import Fault
    dev = s.device

    def ask(line, read=True):
        cs = socket.create_connection(("127.0.0.1", port), timeout=3)
        cs.sendall(line)
        data = None
        if read:
            try:
                data = cs.makefile("rb").readline()
            except OSError:
                data = None
        cs.close()
        return data
    req = b'{"command":"blockchainParameters","version":5}\n'
    s.bus.arm({0: Fault("read_error")})
    ask(req)
    s.bus.arm({})
    dev.pending_link = None
    dev.mode = MODE_BOOTLOADER
    dev.unlocked = False
    dev.retries = 1
    # (the retries check is what stops the manager; the checks before it - UI version,
    # echo - end in a device-error reply and a later retry instead, so they must pass)
    dev.cfg["echo_ok"] = True
    dev.cfg["ui_version"] = (5, 4, 1)
    s.bus.exchange_hook = lambda bus, apdu: time.sleep(0.03)
    try:
        ask(req, read=False)
    except OSError:
        pass
    deadline = time.time() + 4
    while t.is_alive() and time.time() < deadline:
        time.sleep(0.02)
    s.bus.exchange_hook = None
    report(stopped=not t.is_alive())


def install_supports_contract(acc):
    """post-condition on the real HSM2FirmwareVersion.supports (icontract when
    installed, plain wrapper otherwise): same major and (minor, patch) of the running
    version not newer than this one's.  Every evaluation is counted."""
    from ledger.version import HSM2FirmwareVersion as V
    if getattr(V.supports, "_pv_wrapped", False):
        return
    orig = V.supports

    def relation(self, running_version, result):
        want = (self.major == running_version.major and
                (running_version.minor, running_version.patch) <= (self.minor, self.patch))
        acc.count("supports_contract_evaluations")
        if bool(result) != want:
            acc.violation("version-relation-wrong", {
                "manager": (self.major, self.minor, self.patch),
                "device": (running_version.major, running_version.minor,
                           running_version.patch), "got": bool(result)},
                {"config": None, "kind": "supports"})
        return True
    try:
        import icontract
        wrapped = icontract.ensure(relation, error=AssertionError)(orig)
        acc.count("icontract_postcondition_used")
    except ImportError:
        def wrapped(self, running_version):
            r = orig(self, running_version)
            relation(self, running_version, r)
            return r
    wrapped._pv_wrapped = True
    V.supports = wrapped
    # the relation over the whole grid, both arguments varying
    for a in VERSION_GRID[::3]:
        for b in VERSION_GRID:
            V(*a).supports(V(*b))


def run_shard(spec, acc):
    env.setup()
    install_supports_contract(acc)
    tmpdir = tempfile.mkdtemp(prefix="pv-c09-")
    try:
        k = 0
        nlive = 2 if spec["tier"] == "quick" else 4
        for c in configs(spec):
            k += 1
            live = (k % 150 == 1 and nlive > 0) or (k < 40 and c.get("grid") and nlive > 0
                                                    and supported(c["ui"]) and
                                                    supported(c["signer"]))
            if live:
                nlive -= 1
            run_config(acc, c, tmpdir, live=live)
    finally:
        for fn in os.listdir(tmpdir):
            os.unlink(os.path.join(tmpdir, fn))
        os.rmdir(tmpdir)


def replay(case, acc):
    env.setup()
    tmpdir = tempfile.mkdtemp(prefix="pv-c09-")
    try:
        install_supports_contract(acc)
        c = case["config"]
        if c is None:
            return
        c["ui"] = tuple(c["ui"])
        c["signer"] = tuple(c["signer"])
        run_config(acc, c, tmpdir, live=case.get("live", False))
    finally:
        for fn in os.listdir(tmpdir):
            os.unlink(os.path.join(tmpdir, fn))
        os.rmdir(tmpdir)
