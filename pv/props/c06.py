# C06 - a Ledger attestation is accepted only if every link up to the root verifies
import os
import copy
import json
import random
import shutil
import tempfile

from .. import env
from ..gen import certv1 as g
from ..oracle import certv1 as o

ID = "C06"
LEVEL = "exploration"
RULE = ("version-1 certificates over freshly generated secp256k1 keys: random acyclic element "
        "graphs over {device, attestation, ui, signer} (and the canonical chain), random target "
        "subsets, optional tweaks, 65- and 33-byte embedded keys; each genuine certificate plus "
        "single-point corruptions (bit flips in any message / signature / tweak / embedded key, "
        "swapped signatures, signature by another key, signature over another message, tweak "
        "added / removed / changed, re-parenting, wrong root, root = an inner key, high-S "
        "signature) is loaded with HSMCertificate.from_jsonfile and validated; the result map is "
        "compared with an independent verifier (own curve arithmetic + OpenSSL ECDSA). For "
        "verdicts resting on high-S / non-strict DER / hybrid keys only 'code accepts => oracle "
        "accepts' is required. Pairing runs check that corrupting elements off a target's path "
        "does not change that target's verdict. distinct = (graph shape, targets, corruption "
        "kind, on/off path); non-trivial = chain depth >= 2 or a corruption")
RULE_ADDED = (
              'Also: every loaded certificate object is validated again (same root, an unrelated '
              'root, the first root) and has an element of a valid path replaced through add_element '
              '(broken, then put back); bit flips drawn half of the time from the ends of a datum '
              'and from the six structural bytes of the DER signature; a third of the shards under '
              'python -O '
              ' '
              'Round 8: certifier elements whose value is a public key followed or preceded by '
              'extra bytes, genuinely signed; one key in eight has a coordinate beginning or en'
              'ding like an encoding marker (00/02/03/04). '
              ' '
              'Round 9: signatures crafted to a chosen total DER length (64, 65, 63, 9..72 byte'
              "s) by solving for the certifier's key. "
              ' '
              'Round 11: elements carrying members the format does not define (extract, value, '
              'pubkey, type ...). '
              ' '
              'Round 12: tweaks of zero bytes / 0xff; elements that declare a tweak but are sig'
              'ned with the untweaked key. '
              ' '
              'Round 13: elements declaring a void tweak (empty string, null, false, 0) and sig'
              'ned with the untweaked certifier key - never valid, whatever the loader makes of'
              ' them. '
              ' '
              'Round 15: certificate objects built twice from the same dict: same verdicts as f'
              'rom the file, dict unchanged. '
              ' '
              "Round 16: certifier names that are parts of the root's name, or it in another ca"
              'se / padded / doubled. '
              ' '
              'Round 17: a certifier, re-signed by its own certifier, embedding another key wit'
              'h the same x as the one its children were signed with. '
              ' '
              'Round 18: tweaks whose derived scalar begins with a zero byte (ground). '
              ' '
              'Round 19: an element of a valid path replaced (add_element) by one naming anothe'
              'r certifier: judged like a fresh object built from the same elements, and as bef'
              'ore once put back. '
              ' '
              "Round 20 (sweep): a third of the flips in a signature's structure hit the lowest"
              ' bit of one of its three tags. ')
RULE = RULE + " " + RULE_ADDED.strip()
ASSUMPTIONS = [
    "oracle: pv/oracle/certv1.py (own secp256k1 arithmetic, ECDSA by cryptography/OpenSSL); "
    "signing by the pure-Python ecdsa package; the code verifies with libsecp256k1",
    "reported value is compared with the extraction rule of docs/attestation.md "
    "(ui/signer: whole message; device: last 65 bytes; attestation: bytes 1..)",
]
FLOORS = {"quick": {"evaluations": 1200, "targets_compared": 2000, "accepted_targets": 400,
                    "refused_targets": 800, "independence_pairs": 150},
          "thorough": {"evaluations": 40000, "targets_compared": 60000, "accepted_targets": 10000,
                       "refused_targets": 25000, "independence_pairs": 5000}}

CORRUPTIONS = ["flip-message", "flip-signature", "flip-tweak", "flip-key", "swap-signatures",
               "other-key", "other-message", "tweak-added", "tweak-removed", "tweak-changed",
               "reparent", "wrong-root", "root-is-inner-key", "high-s", "truncate-signature",
               "signature-trailing-byte", "flip-signature-structure",
               "flip-signature-structure", "certifier-key-with-extra-bytes",
               "certifier-key-with-extra-bytes", "extra-members", "extra-members",
               "signed-by-the-untweaked-key", "signed-by-the-untweaked-key",
               "certifier-key-with-the-same-x-and-parent-resigned",
               "certifier-key-with-the-same-x-and-parent-resigned"]


def shards(tier, seed):
    if tier == "quick":
        return [{"seed": seed * 1000 + i, "python_O": i % 3 == 2,
                 "n": 14} for i in range(16)]
    return [{"seed": seed * 1000 + i, "python_O": i % 3 == 2,
                 "n": 260} for i in range(32)]


def flip(hexstr, rng):
    """one bit; half of the time at an end of the datum (first two / last two bytes),
    where tags, lengths, prefixes and parity bits live"""
    b = bytearray(bytes.fromhex(hexstr))
    if rng.random() < 0.5 and len(b) >= 4:
        i = rng.choice([0, 0, 1, len(b) - 1, len(b) - 2])
    else:
        i = rng.randrange(len(b))
    b[i] ^= 1 << rng.randrange(8)
    return bytes(b).hex()


def flip_der_structure(hexstr, rng):
    """one bit of one of the six structural bytes of SEQUENCE{INTEGER r, INTEGER s}"""
    b = bytearray(bytes.fromhex(hexstr))
    try:
        rl = b[3]
        pos = [0, 1, 2, 3, 4 + rl, 5 + rl]
        i = rng.choice([p for p in pos if p < len(b)])
    except IndexError:
        i = 0
        rl = 0
    bit = rng.randrange(8)
    if rng.random() < 0.35:
        # a third of the time: the lowest bit of one of the three tags (0x30 -> 0x31,
        # 0x02 -> 0x03: the nearest thing that is not the tag)
        i = rng.choice([p for p in (0, 2, 4 + rl) if p < len(b)] or [0])
        bit = 0
    b[i] ^= 1 << bit
    return bytes(b).hex()


def path_of(doc, target):
    els = {e["name"]: e for e in doc["elements"]}
    p = []
    cur = els[target]
    while True:
        p.append(cur["name"])
        if cur["signed_by"] == "root":
            return p
        cur = els[cur["signed_by"]]


def path_of_safe(doc, target):
    """names from the target upwards as far as they can be followed"""
    els = {e["name"]: e for e in doc["elements"]}
    p, cur = [], els.get(target)
    while cur is not None and cur["name"] not in p:
        p.append(cur["name"])
        cur = els.get(cur["signed_by"])
    return p


def corrupt(rng, doc, info, kind):
    """returns (doc', root_pub', touched element name or None) or None if n/a"""
    d = copy.deepcopy(doc)
    root_pub = g.pub65(info["root"])
    els = {e["name"]: e for e in d["elements"]}
    name = rng.choice(list(els))
    el = els[name]
    if kind == "flip-message":
        el["message"] = flip(el["message"], rng)
    elif kind == "flip-signature":
        el["signature"] = flip(el["signature"], rng)
    elif kind == "flip-signature-structure":
        el["signature"] = flip_der_structure(el["signature"], rng)
    elif kind == "flip-tweak":
        cands = [e for e in els.values() if "tweak" in e]
        if not cands:
            return None
        el = rng.choice(cands)
        name = el["name"]
        el["tweak"] = flip(el["tweak"], rng)
    elif kind == "flip-key":
        # the key embedded in a certifier's message (its children must then fail)
        cands = [n for n in els if any(e["signed_by"] == n for e in els.values())]
        if not cands:
            return None
        name = rng.choice(cands)
        el = els[name]
        m = bytearray(bytes.fromhex(el["message"]))
        i = len(m) - 1 - rng.randrange(min(len(m), 33))
        m[i] ^= 1 << rng.randrange(8)
        el["message"] = bytes(m).hex()
    elif kind == "certifier-key-with-the-same-x-and-parent-resigned":
        # a certifier whose message - properly re-signed by ITS certifier - embeds another
        # key than the one its children were signed with: the negated point (same x, the
        # other y), or the same x with a y that is on no curve.  The children then fail,
        # whatever was worked out about the original key earlier in this process.
        cands = [n for n in els if any(e["signed_by"] == n for e in els.values())]
        if not cands:
            return None
        name = rng.choice(cands)
        el = els[name]
        m = bytearray(bytes.fromhex(el["message"]))
        y = int.from_bytes(m[-32:], "big")
        P_ = 0xFFFFFFFFFFFFFFFFFFFFFFFFFFFFFFFFFFFFFFFFFFFFFFFFFFFFFFFEFFFFFC2F
        y2 = (P_ - y) if rng.random() < 0.6 else (y ^ (1 << rng.randrange(250)))
        m[-32:] = y2.to_bytes(32, "big")
        el["message"] = bytes(m).hex()
        p_ = info["parents"][name]
        sk = info["root"] if p_ == "root" else info["keys"][p_]
        if "tweak" in el:
            sk = g.tweaked_key(sk, bytes.fromhex(el["tweak"]))
        el["signature"] = g.sign(sk, bytes(m), rng).hex()
    elif kind == "swap-signatures":
        if len(els) < 2:
            return None
        other = rng.choice([n for n in els if n != name])
        el["signature"], els[other]["signature"] = els[other]["signature"], el["signature"]
        return d, root_pub, {name, other}
    elif kind == "other-key":
        el["signature"] = g.sign(g.new_key(rng), bytes.fromhex(el["message"]), rng).hex()
    elif kind == "other-message":
        p = info["parents"][name]
        sk = info["root"] if p == "root" else info["keys"][p]
        if "tweak" in el:
            sk = g.tweaked_key(sk, bytes.fromhex(el["tweak"]))
        el["signature"] = g.sign(sk, bytes.fromhex(el["message"]) + b"x", rng).hex()
    elif kind == "tweak-added":
        cands = [e for e in els.values() if "tweak" not in e]
        if not cands:
            return None
        el = rng.choice(cands)
        name = el["name"]
        el["tweak"] = rng.randbytes(32).hex()
    elif kind == "tweak-removed":
        cands = [e for e in els.values() if "tweak" in e]
        if not cands:
            return None
        el = rng.choice(cands)
        name = el["name"]
        del el["tweak"]
    elif kind == "tweak-changed":
        cands = [e for e in els.values() if "tweak" in e]
        if not cands:
            return None
        el = rng.choice(cands)
        name = el["name"]
        el["tweak"] = rng.randbytes(len(el["tweak"]) // 2).hex()
    elif kind == "reparent":
        # a new parent that keeps the graph acyclic: root or a non-descendant
        def descends(a, b):   # is a below b?
            cur = a
            while cur != "root":
                if cur == b:
                    return True
                cur = els[cur]["signed_by"]
            return False
        cands = [p for p in ["root"] + list(els) if p != name and p != el["signed_by"] and
                 (p == "root" or not descends(p, name))]
        if not cands:
            return None
        el["signed_by"] = rng.choice(cands)
    elif kind == "wrong-root":
        root_pub = g.pub65(g.new_key(rng))
        name = None
    elif kind == "root-is-inner-key":
        if not info["keys"]:
            return None
        root_pub = g.pub65(info["keys"][rng.choice(list(info["keys"]))])
        name = None
    elif kind == "high-s":
        p = info["parents"][name]
        sk = info["root"] if p == "root" else info["keys"][p]
        if "tweak" in el:
            sk = g.tweaked_key(sk, bytes.fromhex(el["tweak"]))
        el["signature"] = g.sign(sk, bytes.fromhex(el["message"]), rng, high_s=True).hex()
    elif kind == "certifier-key-with-extra-bytes":
        # a certifier whose value is a public key followed (or preceded) by further
        # bytes, itself genuinely signed: 34+/66+ bytes are not a public key, so what it
        # certifies does not verify (docs/attestation.md: the value IS the key)
        cands = [n for n in els if n != "device" and
                 any(e["signed_by"] == n for e in els.values()) and n in info["keys"]]
        if not cands:
            return None
        name = rng.choice(cands)
        el = els[name]
        m = bytes.fromhex(el["message"])
        extra = rng.choice([b"\x00", b"\x90\x00", b"\x04", rng.randbytes(1),
                            rng.randbytes(2), rng.randbytes(32), b"\x00" * 15])
        if name == "attestation" or rng.random() < 0.7:
            m = m + extra
        else:
            m = extra + m
        el["message"] = m.hex()
        p = info["parents"][name]
        sk = info["root"] if p == "root" else info["keys"][p]
        if "tweak" in el:
            sk = g.tweaked_key(sk, bytes.fromhex(el["tweak"]))
        el["signature"] = g.sign(sk, m, rng).hex()
    elif kind == "signed-by-the-untweaked-key":
        # an element that declares a tweak but is signed with the certifier's key as it is:
        # the declared derivation is part of what is checked
        cands = [e for e in els.values() if "tweak" in e]
        if not cands:
            return None
        el = rng.choice(cands)
        name = el["name"]
        p_ = info["parents"][name]
        sk = info["root"] if p_ == "root" else info["keys"][p_]
        el["signature"] = g.sign(sk, bytes.fromhex(el["message"]), rng).hex()
    elif kind == "extra-members":
        # members the format does not define, on one element or on all: they say nothing
        # about what is signed or by whom - verdicts and values stay what they are
        pool = {"extract": ["10:42", "1:66", ":", "-65:", "0:0"], "value": [g.pub65(g.new_key(rng)).hex()],
                "pubkey": [g.pub65(g.new_key(rng)).hex()], "type": ["x509_pem", "root"],
                "valid": [True], "hash": ["sha512", "none"], "key": [g.pub65(g.new_key(rng)).hex()],
                "message_hex": ["00"], "certifier": ["root"], "signed-by": ["root"],
                "digest": [rng.randbytes(32).hex()], "raw": [True], "skip": [True]}
        for e_ in (list(els.values()) if rng.random() < 0.5 else [el]):
            for k_ in rng.sample(sorted(pool), rng.randint(1, 3)):
                e_[k_] = rng.choice(pool[k_])
        return d, root_pub, None
    elif kind == "truncate-signature":
        el["signature"] = el["signature"][:-2]
    elif kind == "signature-trailing-byte":
        el["signature"] = el["signature"] + "00"
    return d, root_pub, ({name} if name is not None else None)


def run_code(doc, root_pub, tmpdir):
    from admin.certificate import HSMCertificate, HSMCertificateRoot
    p = os.path.join(tmpdir, "cert.json")
    with open(p, "w") as f:
        json.dump(doc, f)
    cert = HSMCertificate.from_jsonfile(p)
    root = HSMCertificateRoot(root_pub.hex())
    first = cert.validate_and_get_values(root)
    # the same certificate object validated again: same root, an unrelated root, the first
    # root once more - a verdict may not depend on what was validated before
    del REVALIDATION[:]

    def norm(r):
        return {k: tuple(v) for k, v in r.items()}
    try:
        if norm(cert.validate_and_get_values(root)) != norm(first):
            REVALIDATION.append("second-validation-differs")
        other = HSMCertificateRoot(
            "0479be667ef9dcbbac55a06295ce870b07029bfcdb2dce28d959f2815b16f81798"
            "483ada7726a3c4655da4fbfc0e1108a8fd17b448a68554199c47d08ffb10d4b8")
        if any(v[0] for v in cert.validate_and_get_values(other).values()):
            REVALIDATION.append("valid-under-an-unrelated-root-after-earlier-validation")
        if norm(cert.validate_and_get_values(root)) != norm(first):
            REVALIDATION.append("validation-after-other-root-differs")
        # an element replaced in the object (add_element with the same name): the next
        # validation judges the certificate as it is now - broken, then whole again
        from admin.certificate import HSMCertificateElement
        valid_targets = [t for t, v in first.items() if v[0]]
        if valid_targets:
            t = valid_targets[0]
            path = path_of(doc, t)
            victim = [e for e in doc["elements"] if e["name"] == path[len(path) // 2]][0]
            broken = dict(victim)
            m = bytearray(bytes.fromhex(broken["message"]))
            m[len(m) // 2] ^= 0x10
            broken["message"] = bytes(m).hex()
            cert.add_element(HSMCertificateElement(broken))
            if cert.validate_and_get_values(root)[t][0]:
                REVALIDATION.append("still-valid-after-an-element-on-the-path-was-replaced")
            cert.add_element(HSMCertificateElement(dict(victim)))
            if norm(cert.validate_and_get_values(root)) != norm(first):
                REVALIDATION.append("not-valid-again-after-the-element-was-put-back")
            # an element of the path replaced by one that names ANOTHER certifier (one further
            # up, or the root): the object is judged as it is now - like an object freshly
            # built from the same elements - and as it was once the element is put back
            for k in sorted({0, len(path) // 2}):
                ups = [n for n in path[k + 2:] + ["root"]] if k + 1 < len(path) else []
                if not ups:
                    continue
                el_k = [e for e in doc["elements"] if e["name"] == path[k]][0]
                doc2 = copy.deepcopy(doc)
                moved = [e for e in doc2["elements"] if e["name"] == path[k]][0]
                moved["signed_by"] = ups[0]
                cert.add_element(HSMCertificateElement(dict(moved)))
                got2 = norm(cert.validate_and_get_values(root))
                fresh2 = norm(HSMCertificate(doc2).validate_and_get_values(root))
                MOVED[0] += 1
                if got2 != fresh2:
                    REVALIDATION.append("judged-otherwise-than-a-fresh-object-after-an-"
                                        "element-was-given-another-certifier")
                cert.add_element(HSMCertificateElement(dict(el_k)))
                if norm(cert.validate_and_get_values(root)) != norm(first):
                    REVALIDATION.append("not-valid-again-after-the-element-got-its-"
                                        "certifier-back")
        # certificate objects built from the document itself (a dict, as a program that
        # holds one would), twice over from the very same dict: the verdicts are those of
        # the file, and the dict is what it was
        snap = copy.deepcopy(doc)
        for n_ in (1, 2):
            again = HSMCertificate(doc).validate_and_get_values(root)
            if norm(again) != norm(first):
                REVALIDATION.append("object-%d-built-from-the-same-document-judges-otherwise"
                                    % n_)
                break
        if doc != snap:
            REVALIDATION.append("building-a-certificate-object-altered-the-document-given")
            doc.clear()
            doc.update(snap)
    except Exception as e:
        REVALIDATION.append("revalidation-raised-%s" % type(e).__name__)
    return first


REVALIDATION = []
MOVED = [0]


def compare(acc, doc, root_pub, tmpdir, label, case):
    """returns the code's result map (or None)"""
    try:
        got = run_code(doc, root_pub, tmpdir)
    except Exception as e:
        acc.violation("validation-raised:%s" % type(e).__name__,
                      {"label": label, "exc": repr(e)[:300]}, case)
        return None
    acc.count("revalidations_on_same_object")
    acc.count("elements_given_another_certifier_inside_an_object", MOVED[0])
    MOVED[0] = 0
    for prob in REVALIDATION:
        acc.violation("verdict-depends-on-earlier-validation:%s" % prob, {"label": label}, case)
    want, soft = o.verify(doc, root_pub)
    for t in doc["targets"]:
        acc.count("targets_compared")
        gv = got.get(t)
        wv = want[t]
        gv = tuple(gv) if gv is not None else None
        if gv is None:
            acc.violation("no-verdict-for-target", {"label": label, "target": t}, case)
            continue
        if gv[0]:
            acc.count("accepted_targets")
        else:
            acc.count("refused_targets")
        if t in soft:
            acc.count("one_directional_comparisons")
            if gv[0] and (not wv[0] or gv != wv):
                acc.violation("accepted-what-the-oracle-refuses", {
                    "label": label, "target": t, "got": gv, "want": wv}, case)
            continue
        if gv != wv:
            if gv[0] and not wv[0]:
                mech = "accepted-invalid-chain:%s" % label
            elif wv[0] and not gv[0]:
                mech = "refused-valid-chain:%s" % label
            elif gv[0]:
                mech = "wrong-value-reported:%s" % label
            else:
                mech = "wrong-failing-element-named:%s" % label
            acc.violation(mech, {"label": label, "target": t, "got": gv, "want": wv,
                                 "path": path_of(doc, t)}, case)
    return got


def run_shard(spec, acc):
    env.setup()
    rng = random.Random(spec["seed"])
    tmpdir = tempfile.mkdtemp(prefix="pv-c06-")
    try:
        for i in range(spec["n"]):
            cseed = rng.getrandbits(48)
            run_case(acc, cseed, tmpdir)
    finally:
        shutil.rmtree(tmpdir, ignore_errors=True)


def run_case(acc, cseed, tmpdir):
    rng = random.Random(cseed)
    case = {"seed": cseed}
    doc, info = g.build(rng)
    root_pub = g.pub65(info["root"])
    acc.evaluations += 1
    for ln in info["crafted"].values():
        acc.count("signatures_of_chosen_length")
        if ln == 64:
            acc.count("valid_der_signatures_of_exactly_64_bytes")
    base = compare(acc, doc, root_pub, tmpdir, "genuine", case)
    depth = max(len(path_of(doc, t)) for t in doc["targets"])
    shape = ",".join("%s<%s" % (n, p) for n, p in sorted(info["parents"].items()))
    if depth >= 2:
        acc.distinct.add("genuine|%s|%s" % (shape, ",".join(sorted(doc["targets"]))))
    if base is not None:
        for t in doc["targets"]:
            if not base[t][0]:
                acc.violation("refused-valid-chain:genuine-by-construction",
                              {"target": t, "got": base[t], "shape": shape}, case)
    if len(acc.samples) < 2:
        acc.sample({"certificate": doc, "root": root_pub.hex(),
                    "result": {k: list(v) for k, v in (base or {}).items()}})
    kinds = list(CORRUPTIONS)
    rng.shuffle(kinds)
    for kind in kinds[:8]:
        r = corrupt(rng, doc, info, kind)
        if r is None:
            continue
        d2, root2, touched = r
        acc.evaluations += 1
        got = compare(acc, d2, root2, tmpdir, kind, case)
        on_path = "-"
        if touched is not None and got is not None and base is not None:
            # independence: targets whose (new) path avoids the touched element keep
            # their verdict
            for t in d2["targets"]:
                pth = path_of(d2, t)
                old_pth = path_of(doc, t)
                if not (touched & set(pth)) and not (touched & set(old_pth)):
                    acc.count("independence_pairs")
                    if tuple(got[t]) != tuple(base[t]):
                        acc.violation("verdict-of-target-depends-on-foreign-element",
                                      {"target": t, "touched": touched, "before": base[t],
                                       "after": got[t], "kind": kind}, case)
                    on_path = "off"
                else:
                    on_path = "on" if on_path == "-" else on_path
        acc.distinct.add("%s|%s|%d|%s" % (kind, on_path, depth, len(doc["targets"])))
    # ---- a certifier name that is not the root's name but a part of it, or it in another
    # case, or with blanks around it: there is no such element, so nothing below it is valid
    # (refusing the file is what the code does)
    if rng.random() < 0.3:
        d2 = copy.deepcopy(doc)
        tops = [e for e in d2["elements"] if e["signed_by"] == "root"]
        if tops:
            el = rng.choice(tops)
            el["signed_by"] = rng.choice(["oot", "roo", "ro", "oo", "ot", "r", "o", "t", "",
                                          "Root", "ROOT", "root ", " root", "rootroot"])
            acc.evaluations += 1
            acc.count("certificates_with_a_certifier_named_almost_like_the_root")
            try:
                got = run_code(d2, root_pub, tmpdir)
            except Exception:
                got = None
                acc.count("certificates_with_a_certifier_named_almost_like_the_root_refused_whole")
            for t in (d2["targets"] if got is not None else []):
                if el["name"] in path_of_safe(d2, t) and got.get(t) is not None and got[t][0]:
                    acc.violation("accepted-invalid-chain:certifier-named-almost-like-the-root",
                                  {"target": t, "element": el["name"],
                                   "signed_by": el["signed_by"], "got": got[t]}, case)
    # ---- an element that declares a tweak which is no tweak ("" / null / false / 0) and is
    # signed with the certifier's key as it is.  The format knows a tweak (a hex string) or
    # no such member; whatever the code makes of this one - refusing the file is what it
    # does - no target below that element is reported valid: its signature verifies under
    # no key derived with a declared tweak.
    cands = [e["name"] for e in doc["elements"] if "tweak" in e]
    if cands and rng.random() < 0.5:
        d2 = copy.deepcopy(doc)
        name = rng.choice(cands)
        el = [e for e in d2["elements"] if e["name"] == name][0]
        el["tweak"] = rng.choice(["", None, False, 0])
        p_ = info["parents"][name]
        sk = info["root"] if p_ == "root" else info["keys"][p_]
        el["signature"] = g.sign(sk, bytes.fromhex(el["message"]), rng).hex()
        acc.evaluations += 1
        acc.count("certificates_with_a_void_tweak")
        try:
            got = run_code(d2, root_pub, tmpdir)
        except Exception:
            got = None
            acc.count("certificates_with_a_void_tweak_refused_whole")
        for t in (d2["targets"] if got is not None else []):
            if name in path_of(d2, t) and got.get(t) is not None and got[t][0]:
                acc.violation("accepted-invalid-chain:void-tweak-signed-by-the-untweaked-key",
                              {"target": t, "element": name, "declared_tweak": repr(el["tweak"]),
                               "got": got[t]}, case)


def replay(case, acc):
    env.setup()
    tmpdir = tempfile.mkdtemp(prefix="pv-c06-")
    try:
        run_case(acc, case["seed"], tmpdir)
    finally:
        shutil.rmtree(tmpdir, ignore_errors=True)
