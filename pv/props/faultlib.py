# Shared by C04 and C11: the command shapes whose exchanges are fault-enumerated,
# the role of each exchange step, and what the documents say about result codes.
import os
import re
import random

from .. import env
from ..gen import blocks as gb, btctx, requests as rq, der
from ..simdev.device import (SimDevice, MODE_SIGNER, MODE_UI_HEARTBEAT, path_to_binary,
                             ALL_PATHS, ChunkPolicy)

GENERIC = {-901, -902, -903, -904, -905, -906}


def documented_codes(v1=False):
    """{command: set of codes} parsed from docs/protocol.md ("This operation can
    return `0`, `-101`, ... and generic errors")"""
    if v1:
        allowed = {0, -2, -666}
        return {c: set(allowed) for c in ("version", "sign", "getPubKey")}
    txt = open(os.path.join(env.REPO, "docs", "protocol.md")).read()
    out = {}
    # sections: "### <Title>" ... '"command": "<name>"' ... "This operation can return ..."
    for sec in re.split(r"\n### ", txt):
        m = re.search(r'"command":\s*"(\w+)"', sec)
        r = re.search(r"This operation can return ([^\n]*?)generic errors", sec)
        if not m or not r:
            continue
        codes = {int(x) for x in re.findall(r"`(-?\d+)`", r.group(1))}
        out[m.group(1)] = codes | GENERIC
    return out


def firmware_errors_by_source():
    """{source file: set of error names it can raise}"""
    base = os.path.join(env.REPO, "firmware", "src", "powhsm", "src")
    out = {}
    for fn in ("auth_path.c", "auth_tx.c", "auth_receipt.c", "auth_trie.c", "bc_advance.c",
               "bc_ancestor.c"):
        txt = open(os.path.join(base, fn)).read()
        out[fn] = set(re.findall(r"(?:THROW|FAIL)\(\s*([A-Z_0-9a-z]+)\s*\)", txt))
    return out


# firmware error name -> the code of the cause the documentation names for it
# (written from the comments of the firmware enums; only unambiguous ones)
EXACT = {
    "ERR_AUTH_INVALID_PATH": -103,
    "ERR_AUTH_TX_HASH_MISMATCH": -102,
    "ERR_AUTH_INVALID_TX_VERSION": -102,
    "ERR_AUTH_INVALID_TX_INPUT_INDEX": -102,
    "ERR_AUTH_INVALID_SIGHASH_COMPUTATION_MODE": -102,
    "ERR_AUTH_INVALID_EXTRADATA_SIZE": -102,
    "ERR_AUTH_RECEIPT_RLP": -101,
    "ERR_AUTH_RECEIPT_INVALID": -101,
    "ERR_AUTH_NODE_INVALID_VERSION": -101,
    "ERR_AUTH_RECEIPT_HASH_MISMATCH": -101,
    "ERR_AUTH_NODE_CHAINING_MISMATCH": -101,
    "ERR_AUTH_RECEIPT_ROOT_MISMATCH": -101,
    "CHAIN_MISMATCH": -201,
    "ANCESTOR_TIP_MISMATCH": -203,
    "BTC_DIFF_MISMATCH": -202,
    "MERKLE_PROOF_MISMATCH": -202,
    "MM_HASH_MISMATCH": -202,
    "CB_TXN_HASH_MISMATCH": -202,
    "BROTHERS_TOO_MANY": -205,
    "BROTHER_PARENT_MISMATCH": -205,
    "BROTHER_SAME_AS_BLOCK": -205,
    "BROTHER_ORDER_INVALID": -205,
    "RLP_INVALID": -204,
    "BLOCK_TOO_OLD": -204,
    "BLOCK_TOO_SHORT": -204,
    "PARENT_HASH_INVALID": -204,
    "RECEIPT_ROOT_INVALID": -204,
    "BLOCK_NUM_INVALID": -204,
    "BLOCK_DIFF_INVALID": -204,
    "UMM_ROOT_INVALID": -204,
    "BTC_HEADER_INVALID": -204,
    "MERKLE_PROOF_INVALID": -204,
    "MM_RLP_LEN_MISMATCH": -204,
    "MERKLE_PROOF_OVERFLOW": -204,
    "CB_TXN_OVERFLOW": -204,
    "BUFFER_OVERFLOW": -204,
}

# step role -> firmware source file whose errors can occur at that step
ROLE_SOURCE = {
    "sign.path": "auth_path.c", "sign.tx": "auth_tx.c", "sign.receipt": "auth_receipt.c",
    "sign.proof": "auth_trie.c",
    "adv.chunk": "bc_advance.c", "adv.bchunk": "bc_advance.c", "adv.blist": "bc_advance.c",
    "upd.chunk": "bc_ancestor.c",
}
# errors that a given role cannot raise even though its source file can
ROLE_EXCLUDE = {
    "adv.blist": lambda n: n not in ("BROTHERS_TOO_MANY", "PROT_INVALID"),
    "adv.chunk": lambda n: n.startswith("BROTHER"),
    "adv.bchunk": lambda n: n == "BROTHERS_TOO_MANY",
}


def role_of(apdu):
    if apdu is None or len(apdu) < 2:
        return "none"
    cmd = apdu[1]
    op = apdu[2] if len(apdu) > 2 else None
    if cmd == 0x43:
        return "mode"
    if cmd == 0x06:
        return "onboard"
    if cmd == 0x11:
        return "params"
    if cmd == 0x04:
        return "pubkey"
    if cmd == 0xFF:
        return "exit"
    if cmd == 0x02:
        return {1: "sign.path", 2: "sign.tx", 4: "sign.receipt", 8: "sign.proof"}.get(
            (op or 0) & 0xf, "sign.?")
    if cmd == 0x20:
        return {1: "state.hash", 2: "state.diff", 3: "state.flags"}.get(op, "state.?")
    if cmd == 0x21:
        return "reset"
    if cmd == 0x10:
        return {2: "adv.init", 3: "adv.meta", 4: "adv.chunk", 7: "adv.blist", 8: "adv.bmeta",
                9: "adv.bchunk"}.get(op, "adv.?")
    if cmd == 0x30:
        return {2: "upd.init", 3: "upd.meta", 4: "upd.chunk"}.get(op, "upd.?")
    if cmd == 0x60:
        return "hb.%d" % (op or 0)
    return "cmd%02x" % cmd


class Shape:
    def __init__(self, name, command, request, devcfg=None, post=None, v1=False,
                 baseline=0):
        self.name = name
        self.command = command
        self.request = request
        self.devcfg = devcfg or {}
        self.post = post       # callable(dev) after bring-up
        self.v1 = v1
        self.baseline = baseline   # expected code of the fault-free run


_shape_cache = {}


def shapes(v1=False, seed=7):
    key = (v1, seed)
    if key not in _shape_cache:
        _shape_cache[key] = _shapes(v1, seed)
    return _shape_cache[key]


def _shapes(v1=False, seed=7):
    rng = random.Random(seed)
    out = []
    hb = {"signature": der.make_sig(rng, "normal")[0], "message": rng.randbytes(70),
          "tweak": rng.randbytes(32), "pubkey": rng.randbytes(65)}
    if v1:
        out.append(Shape("version", "version", {"command": "version"}, v1=True))
        out.append(Shape("getPubKey", "getPubKey",
                         {"command": "getPubKey", "version": 1, "keyId": ALL_PATHS[2]}, v1=True))
        out.append(Shape("sign.hash", "sign",
                         rq.sign_hash_request(ALL_PATHS[3], rng.randbytes(32), version=1),
                         v1=True))
        return out
    out.append(Shape("version", "version", {"command": "version"}))
    tx = btctx.gen_tx(rng, max_in=2, max_out=2)
    receipt = rq.gen_receipt(rng, "long")
    proof = [rng.randbytes(40), rng.randbytes(70)]
    out.append(Shape("sign.legacy", "sign",
                     rq.sign_auth_request(ALL_PATHS[0], tx["raw"], 0, receipt, proof)))
    out.append(Shape("sign.segwit", "sign",
                     rq.sign_auth_request(ALL_PATHS[1], tx["raw"], 1, receipt[:90] if False
                                          else rq.gen_receipt(rng, "short"), proof[:1],
                                          (rng.randbytes(100), 12345))))
    out.append(Shape("sign.hash", "sign", rq.sign_hash_request(ALL_PATHS[2], rng.randbytes(32))))
    out.append(Shape("getPubKey", "getPubKey",
                     {"command": "getPubKey", "version": 5, "keyId": ALL_PATHS[4]}))
    blocks = [gb.gen_block(rng, 19), gb.gen_block(rng, 20, tiny=True)]
    bros = [[gb.gen_block(rng, 19, tiny=True), gb.gen_block(rng, 20, tiny=True)], []]
    adv = {"command": "advanceBlockchain", "version": 5,
           "blocks": [b["raw"].hex() for b in blocks],
           "brothers": [[x["raw"].hex() for x in bl] for bl in bros]}
    out.append(Shape("advance.brothers", "advanceBlockchain", adv))
    out.append(Shape("advance.nobrothers", "advanceBlockchain", adv,
                     post=lambda d: d.adv_policy.update(ask_brothers=False)))
    out.append(Shape("advance.partial", "advanceBlockchain", adv,
                     post=lambda d: d.adv_policy.update(final="partial", ask_brothers=False),
                     baseline=1))
    # the device may report total / partial success before the last announced block (as soon
    # as the chain connects), after a brother list or straight after a header
    out.append(Shape("advance.early-total", "advanceBlockchain", adv,
                     post=lambda d: d.adv_policy.update(stop_after=(1, "total"))))
    out.append(Shape("advance.early-total-nobrothers", "advanceBlockchain", adv,
                     post=lambda d: d.adv_policy.update(stop_after=(1, "total"),
                                                        ask_brothers=False)))
    out.append(Shape("advance.early-partial", "advanceBlockchain", adv,
                     post=lambda d: d.adv_policy.update(stop_after=(1, "partial"),
                                                        ask_brothers=False), baseline=1))
    # ... or move on before a header was sent in full (a block it has validated before:
    # everything past the merge-mining header is skipped)
    out.append(Shape("advance.header-cut-short-partial", "advanceBlockchain", adv,
                     post=lambda d: d.adv_policy.update(header_stop={0: 100, 1: 1},
                                                        final="partial"), baseline=1))
    out.append(Shape("reset", "resetAdvanceBlockchain",
                     {"command": "resetAdvanceBlockchain", "version": 5}))
    out.append(Shape("state", "blockchainState", {"command": "blockchainState", "version": 5}))
    ub = [gb.gen_block(rng, 17, tiny=True), gb.gen_block(rng, 20), gb.gen_block(rng, 18, tiny=True)]
    out.append(Shape("updateAncestor", "updateAncestorBlock",
                     {"command": "updateAncestorBlock", "version": 5,
                      "blocks": [b["raw"].hex() for b in ub]}))
    out.append(Shape("updateAncestor.early-total", "updateAncestorBlock",
                     {"command": "updateAncestorBlock", "version": 5,
                      "blocks": [b["raw"].hex() for b in ub]},
                     post=lambda d: d.adv_policy.update(stop_after=(2, "total"))))
    out.append(Shape("updateAncestor.header-cut-short", "updateAncestorBlock",
                     {"command": "updateAncestorBlock", "version": 5,
                      "blocks": [b["raw"].hex() for b in ub]},
                     post=lambda d: d.adv_policy.update(header_stop={1: 80})))
    out.append(Shape("parameters", "blockchainParameters",
                     {"command": "blockchainParameters", "version": 5}))
    out.append(Shape("signerHeartbeat", "signerHeartbeat",
                     {"command": "signerHeartbeat", "version": 5, "udValue": "11" * 16},
                     devcfg={"hb": dict(hb)}))
    out.append(Shape("uiHeartbeat.signer", "uiHeartbeat",
                     {"command": "uiHeartbeat", "version": 5, "udValue": "22" * 32},
                     devcfg={"uihb": dict(hb)}))
    # the device does not come back to the signer after the heartbeat: it shows up locked
    # in the bootloader, or still in the heartbeat app (the documented answer is -905)
    out.append(Shape("uiHeartbeat.back-in-bootloader", "uiHeartbeat",
                     {"command": "uiHeartbeat", "version": 5, "udValue": "22" * 32},
                     devcfg={"uihb": dict(hb), "hb_back_mode": 0x02}, baseline=-905))
    out.append(Shape("uiHeartbeat.stuck-in-heartbeat", "uiHeartbeat",
                     {"command": "uiHeartbeat", "version": 5, "udValue": "22" * 32},
                     devcfg={"uihb": dict(hb), "hb_back_mode": 0x04}, baseline=-905))
    out.append(Shape("uiHeartbeat.hbmode", "uiHeartbeat",
                     {"command": "uiHeartbeat", "version": 5, "udValue": "22" * 32},
                     devcfg={"uihb": dict(hb)},
                     post=lambda d: setattr(d, "mode", MODE_UI_HEARTBEAT)))
    return out


def make_device(shape, seed=11, also=(), platform="ledger"):
    rng = random.Random(seed)
    fw_hash_ids = [0x01, 0x02, 0x03, 0x05, 0x81, 0x82, 0x84]
    cfg = dict(platform=platform, mode=MODE_SIGNER,
               pubkeys={path_to_binary(p): rng.randbytes(65) for p in ALL_PATHS},
               state={"hashes": {h: rng.randbytes(32) for h in fw_hash_ids},
                      "difficulty": rng.getrandbits(200), "flags": (1, 0, 1)},
               chunk=ChunkPolicy("fw", 80))
    # `also`: shapes of follow-up requests; the device must be able to answer
    # those too (e.g. heartbeat material). The main shape's settings win.
    for sh in list(also) + [shape]:
        for k, v in sh.devcfg.items():
            cfg[k] = dict(v) if isinstance(v, dict) else v
    return SimDevice(**cfg)
