# C08 - verify commands vouch only for the operator's keys and a well-formed message
import io
import os
import re
import copy
import json
import random
import shutil
import tempfile
import contextlib
from types import SimpleNamespace

from .. import env
from ..gen import certv1 as g1, certv2 as g2, ledgeratt as la

ID = "C08"
LEVEL = "exploration"
RULE = ("(attestation file, public-keys file, root of trust) triples for the Ledger and SGX "
        "verify_attestation commands: genuine triples over fresh keys and random message "
        "contents (legacy and current signer framing, compressed and uncompressed key files, any "
        "JSON order), and variants: one key replaced / added / removed, keys swapped between "
        "path names, properly signed messages of length +-1 / +-32, foreign headers (other "
        "prefix, other major, separator variants), missing ui / signer / quote target, UI key of "
        "another seed, wrong / malformed / non-self-signed / expired root, corrupted chain. The "
        "command must return normally exactly for the triples that satisfy the statement's "
        "conjunction (by construction) and then every value it prints must equal what the "
        "generator put at the documented offset; every other triple must raise. distinct = "
        "(platform, framing, variant); non-trivial = all")
RULE_ADDED = (
              'Also: half of the verifications through adm_ledger / adm_sgx main(); forged and '
              'bit-flipped chains with extra / repeated targets; UD values and keys hashes that read '
              'on as text after the header; time zones and near-boundary root validity; a third of '
              'the shards under python -O '
              ' '
              'Round 8: the SGX root of trust delivered as a file, from a URL, or from the buil'
              't-in default URL (stand-in web: same URL, another root in every case; non-200 an'
              'swers). '
              ' '
              'Round 9: a certificate of the SGX chain re-issued by a key of another signature '
              'algorithm. '
              ' '
              "Round 10: the UI vouching for another of the operator's own keys. "
              ' '
              'Round 11: attestation-key message / quote extended without re-signing. '
              ' '
              'Round 12: ui / signer element signed with the untweaked attestation key. '
              ' '
              'Round 13: padded / doubled signed messages with an element member (extract, slic'
              'e, range ...) naming the well-formed part; genuine certificates with such member'
              's. '
              ' '
              'Round 14: a third of the verifications with terminal size, locale and similar va'
              'riables exported (COLUMNS, LINES, TERM, LANG ...). '
              ' '
              "Round 15: attested keys hash equal to the operator's only in its first / last 4."
              '.31 bytes (Ledger and SGX). '
              ' '
              'Round 16: operator key files in hybrid and mixed notations; an attested hash of '
              'the keys as spelled in the file. '
              ' '
              'Round 17: one more key under another spelling (h / H markers, leading zero, uppe'
              'r-case M) of a listed path. '
              ' '
              'Round 19: roots of trust that expired two seconds before the verification. ')
RULE = RULE + " " + RULE_ADDED.strip()
ASSUMPTIONS = [
    "stdout of the commands is parsed by label ('UD value:', 'Hash:', ...)",
    "Ledger UI message length is not constrained by the statement: over-long UI messages are "
    "only required to print the values at the documented offsets if accepted",
]
FLOORS = {"quick": {"evaluations": 500, "genuine_accepted": 60, "variants_refused": 300,
                    "printed_values_compared": 600},
          "thorough": {"evaluations": 20000, "genuine_accepted": 2500, "variants_refused": 12000,
                       "printed_values_compared": 25000}}


def shards(tier, seed):
    if tier == "quick":
        return [{"seed": seed * 1000 + i, "python_O": i % 3 == 2,
                 "tz": [None, "EAST-14", "WEST+12", "Asia/Kolkata"][i % 4],
                 "n": 3} for i in range(16)]
    return [{"seed": seed * 1000 + i, "python_O": i % 3 == 2,
             "tz": [None, "EAST-14", "WEST+12", "Asia/Kolkata"][i % 4],
             "n": 60} for i in range(32)]


def run_cmd(fn, opts, cli=None):
    """cli: 'adm_ledger' / 'adm_sgx' -> the same verification through the tool's own
    command line (argument parser, defaults, dispatch table, exit status)"""
    buf = io.StringIO()
    if cli and all(v is None or (isinstance(v, str) and not v.startswith("-"))
                   for v in vars(opts).values()):
        import sys
        import logging
        import importlib
        mod = importlib.import_module(cli)
        argv = [cli + ".py", "verify_attestation",
                "-t", opts.attestation_certificate_file_path,
                "-b", opts.pubkeys_file_path]
        if opts.root_authority is not None:
            argv += ["-r", opts.root_authority]
        saved = sys.argv
        sys.argv = argv
        try:
            with contextlib.redirect_stdout(buf):
                mod.main()
            return True, buf.getvalue(), None
        except SystemExit as e:
            if e.code in (0, None):
                return True, buf.getvalue(), None
            return False, buf.getvalue(), RuntimeError("exit status %r" % (e.code,))
        except Exception as e:
            return False, buf.getvalue(), e
        finally:
            sys.argv = saved
            logging.disable(logging.CRITICAL)
    try:
        with contextlib.redirect_stdout(buf):
            fn(opts)
        return True, buf.getvalue(), None
    except Exception as e:
        return False, buf.getvalue(), e


def printed(out, label, nth=0):
    vals = re.findall(r"^%s:? ?(.*)$" % re.escape(label), out, flags=re.M)
    return vals[nth].strip() if len(vals) > nth else None


# ------------------------------------------------------------------ Ledger --

LEDGER_VARIANTS = ["genuine", "genuine-reordered", "key-replaced", "btc-key-replaced",
                   "keys-swapped-paths", "key-added", "key-removed", "btc-path-missing",
                   "signer-len+1", "signer-len-1", "signer-len+32", "signer-len-32",
                   "ui-header-dot-wildcard", "signer-header-dot-wildcard",
                   "legacy-header-dot-wildcard", "ui-header-foreign", "signer-header-foreign",
                   "signer-header-major6", "ui-other-seed-key", "missing-ui-target",
                   "missing-signer-target", "wrong-root", "malformed-root", "flip-signature",
                   "ui-extended", "ui-truncated", "pubkeys-not-json", "pubkey-invalid",
                   "legacy-len+1", "legacy-len-1", "legacy-len+32", "genuine-odd-paths",
                   "odd-paths-hash-in-numeric-order", "forged-extra-targets",
                   "forged-extra-targets", "flip-signature-extra-targets",
                   "ui-key-is-another-of-the-operator-keys",
                   "app-message-signed-by-the-untweaked-attestation-key",
                   "message-padded-and-a-member-naming-the-good-part",
                   "message-padded-and-a-member-naming-the-good-part",
                   "genuine-with-members-the-format-does-not-define",
                   "keys-hash-equal-only-in-part", "keys-hash-equal-only-in-part",
                   "key-added-under-another-spelling-of-a-listed-path",
                   "key-added-under-another-spelling-of-a-listed-path"]


def tail_bytes(rng, n):
    """bytes appended to a signed message: random ones, or ones that parsers tend to
    overlook at the end of a value (newline, NUL, blank, CR LF)"""
    if rng.random() < 0.5:
        return rng.randbytes(n)
    one = rng.choice([b"\n", b"\n", b"\x00", b" ", b"\r"])
    return (rng.randbytes(n - 1) + one) if n > 1 and rng.random() < 0.5 else one * n


def odd_paths(rng, must_have=None):
    """operator key sets whose path names sort differently as text and as numbers"""
    import re as _re
    pool = ["m/44'/2'/0'/0/0", "m/44'/10'/0'/0/0", "m/44'/9'/0'/0/0", "m/44'/137'/0'/0/10",
            "m/44'/137'/0'/0/9", "m/44'/100'/0'/0/0", "m/44'/1'/10'/0/0", "m/5'/0'/0'/0/0",
            "m/44'/0'/0'/0/2", "m/44'/0'/0'/0/10", "key10", "key9", "Key1", "a", "B"]
    while True:
        paths = rng.sample(pool, rng.randint(3, 7)) + rng.sample(la.PATHS, rng.randint(0, 4))
        if must_have and must_have not in paths:
            paths.append(must_have)
        paths = list(dict.fromkeys(paths))

        def natural(s):
            return [int(t) if t.isdigit() else t for t in _re.split(r"(\d+)", s)]
        if sorted(paths) != sorted(paths, key=natural):
            return paths, natural


def ledger_case(acc, rng, variant, tmpdir, case):
    from admin.verify_ledger_attestation import do_verify_attestation
    form = rng.choice(["legacy", "current"])
    if variant.startswith("signer-len") or variant in ("signer-header-dot-wildcard",
                                                       "signer-header-foreign",
                                                       "signer-header-major6"):
        form = "current"
    if variant == "legacy-header-dot-wildcard" or variant.startswith("legacy-len"):
        form = "legacy"
    keys = la.operator_keys(rng)
    if variant in ("genuine-odd-paths", "odd-paths-hash-in-numeric-order"):
        paths, natural = odd_paths(rng, la.BTC_PATH)
        keys = la.operator_keys(rng, paths)
    doc, info = la.build(rng, keys, signer_form=form)
    if variant == "odd-paths-hash-in-numeric-order":
        # the device hashed the same keys, but ordered by the numbers in the paths
        import hashlib as _hl
        h = _hl.sha256()
        for pth in sorted(keys, key=natural):
            h.update(g1.pub65(keys[pth]))
        wrong = h.digest()
        m2 = info["signer_msg"].replace(info["keys_hash"], wrong)
        la.resign(doc, info, "signer", m2, rng)
    file_form = rng.choice(["uncompressed", "compressed", "uncompressed", "compressed", "hybrid",
                            "mixed"])
    pk = la.pubkeys_file(keys, file_form)
    root_hex = g1.pub65(info["root"]).hex()
    expect_ok = True
    either = False
    kh = info["keys_hash"]
    if variant == "odd-paths-hash-in-numeric-order":
        expect_ok = False
    if variant == "genuine-reordered":
        items = list(pk.items())
        rng.shuffle(items)
        pk = dict(items)
        rng.shuffle(doc["elements"])
    elif variant == "key-replaced":
        p = rng.choice([x for x in la.PATHS if x != la.BTC_PATH])
        pk[p] = g1.pub65(g1.new_key(rng)).hex()
        expect_ok = False
    elif variant == "btc-key-replaced":
        pk[la.BTC_PATH] = g1.pub65(g1.new_key(rng)).hex()
        expect_ok = False
    elif variant == "keys-swapped-paths":
        a, b = rng.sample(la.PATHS, 2)
        pk[a], pk[b] = pk[b], pk[a]
        expect_ok = False
    elif variant == "key-added":
        pk["m/44'/2'/0'/0/0"] = g1.pub65(g1.new_key(rng)).hex()
        expect_ok = False
    elif variant == "key-added-under-another-spelling-of-a-listed-path":
        # one more key, under a name that spells one of the operator's paths another way
        # (h / H for the hardened marker, a leading zero, upper-case M): it is one more key
        victim = rng.choice(la.PATHS)
        alias = rng.choice([a_ for a_ in (
            victim.replace("'", "h"), victim.replace("'", "H"), victim.replace("m/", "M/"),
            victim.replace("/0'", "/00'", 1), victim + " ", victim.replace("'", "h", 1))
            if a_ != victim])
        rogue = {alias: g1.pub65(g1.new_key(rng)).hex()}
        pk = dict(list(rogue.items()) + list(pk.items())) if rng.random() < 0.5 else \
            dict(list(pk.items()) + list(rogue.items()))
        expect_ok = False
    elif variant == "key-removed":
        del pk[rng.choice([x for x in la.PATHS if x != la.BTC_PATH])]
        expect_ok = False
    elif variant == "btc-path-missing":
        del pk[la.BTC_PATH]
        expect_ok = False
    elif variant.startswith("signer-len"):
        delta = int(variant[len("signer-len"):])
        m = info["signer_msg"]
        m2 = m + tail_bytes(rng, delta) if delta > 0 else m[:delta]
        la.resign(doc, info, "signer", m2, rng)
        expect_ok = False
    elif variant.startswith("legacy-len"):
        delta = int(variant[len("legacy-len"):])
        m = info["signer_msg"]
        m2 = m + tail_bytes(rng, delta) if delta > 0 else m[:delta]
        la.resign(doc, info, "signer", m2, rng)
        expect_ok = False
    elif variant == "ui-header-dot-wildcard":
        m = info["ui_msg"].replace(b"HSM:UI:5.4", b"HSM:UI:5" + rng.choice([b"x", b"_", b":"]) +
                                   b"4")
        la.resign(doc, info, "ui", m, rng)
        expect_ok = False
    elif variant == "signer-header-dot-wildcard":
        m = info["signer_msg"].replace(b"POWHSM:5.4::", b"POWHSM:5" + rng.choice([b"x", b"-"]) +
                                       b"4::")
        la.resign(doc, info, "signer", m, rng)
        expect_ok = False
    elif variant == "legacy-header-dot-wildcard":
        m = info["signer_msg"].replace(b"HSM:SIGNER:5.4", b"HSM:SIGNER:5" +
                                       rng.choice([b"x", b"/"]) + b"4")
        la.resign(doc, info, "signer", m, rng)
        expect_ok = False
    elif variant == "ui-header-foreign":
        m = rng.choice([b"HSM:SIGNER:5.4", b"XSM:UI:5.4", b"HSM:UI:6.0", b"HSM:UI:", b"hsm:ui:5.4"]) \
            + info["ui_msg"][len(b"HSM:UI:5.4"):]
        la.resign(doc, info, "ui", m, rng)
        expect_ok = False
    elif variant == "signer-header-foreign":
        m = rng.choice([b"POWHSM:5.4:", b"HSM:UI:5.4::", b"POWHSN:5.4::", b"POWHSM:54::",
                        b" POWHSM:5.4::"]) + info["signer_msg"][len(b"POWHSM:5.4::"):]
        la.resign(doc, info, "signer", m, rng)
        expect_ok = False
    elif variant == "signer-header-major6":
        m = info["signer_msg"].replace(b"POWHSM:5.4::", b"POWHSM:6.0::")
        la.resign(doc, info, "signer", m, rng)
        expect_ok = False
    elif variant == "ui-other-seed-key":
        m, f = la.ui_message(rng, g1.pub33(g1.new_key(rng)))
        la.resign(doc, info, "ui", m, rng)
        expect_ok = False
    elif variant == "app-message-signed-by-the-untweaked-attestation-key":
        # ui / signer element: tweak (the application's hash) declared, signature made with
        # the attestation key itself - nothing ties the message to that application
        for e in doc["elements"]:
            if e["name"] == rng.choice(["ui", "signer"]) and "tweak" in e:
                e["signature"] = g1.sign(info["attestation"], bytes.fromhex(e["message"]),
                                         rng).hex()
                expect_ok = False
        if expect_ok:
            e = [x for x in doc["elements"] if x["name"] == "ui"][0]
            e["signature"] = g1.sign(info["attestation"], bytes.fromhex(e["message"]), rng).hex()
            expect_ok = False
    elif variant == "message-padded-and-a-member-naming-the-good-part":
        # what the device signed is not a UI / Signer message (bytes before it, after it, a
        # second message with other values in front) and the element carries a member -
        # "extract", "slice", "range", "value" ... - telling which part to look at.  The
        # format defines no such member: the message is the signed one, whole.
        nm = rng.choice(["ui", "signer", "signer"])
        m = info["ui_msg"] if nm == "ui" else info["signer_msg"]
        k_ = rng.choice([1, 5, 9, 32])
        how = rng.choice(["before", "after", "other-message-before"])
        if how == "before":
            m2, sl = rng.randbytes(k_) + m, "%d:" % k_
        elif how == "after":
            m2, sl = m + tail_bytes(rng, k_), ":%d" % len(m)
        else:
            other = bytearray(m)
            for i_ in range(len(m) - 40, len(m) - 8):
                other[i_] ^= 0x55
            m2, sl = bytes(other) + m, "%d:" % len(m)
        la.resign(doc, info, nm, m2, rng)
        e = [x for x in doc["elements"] if x["name"] == nm][0]
        for member in rng.sample(["extract", "extract", "slice", "range", "value", "offset"],
                                 rng.randint(1, 2)):
            e[member] = rng.choice([sl, sl, m.hex()])
        expect_ok = False
        # (bytes after a UI message: as in "ui-extended", the documents give that message
        # no exact length - either verdict)
        either = (nm == "ui" and how == "after")
    elif variant == "genuine-with-members-the-format-does-not-define":
        for e in doc["elements"]:
            if rng.random() < 0.6:
                for member in rng.sample(["extract", "slice", "comment", "value", "valid"],
                                         rng.randint(1, 2)):
                    e[member] = rng.choice(["10:42", ":", "1:", "-65:", "0:0", ":10", True])
    elif variant == "keys-hash-equal-only-in-part":
        n_ = rng.choice([31, 16, 16, 8, 4])
        other = bytearray(rng.randbytes(32))
        if rng.random() < 0.7:
            other[:n_] = info["keys_hash"][:n_]
        else:
            other[-n_:] = info["keys_hash"][-n_:]
        if bytes(other) == info["keys_hash"]:
            other[-1] ^= 1
        la.resign(doc, info, "signer", info["signer_msg"].replace(info["keys_hash"],
                                                                  bytes(other)), rng)
        expect_ok = False
    elif variant == "ui-key-is-another-of-the-operator-keys":
        # the UI vouches for one of the operator's own keys - but not the BTC one
        other = rng.choice([p_ for p_ in keys if p_ != la.BTC_PATH])
        m, f = la.ui_message(rng, g1.pub33(keys[other]))
        la.resign(doc, info, "ui", m, rng)
        expect_ok = False
    elif variant == "missing-ui-target":
        doc["targets"] = ["signer"]
        expect_ok = False
    elif variant == "missing-signer-target":
        doc["targets"] = ["ui"]
        expect_ok = False
    elif variant == "wrong-root":
        root_hex = g1.pub65(g1.new_key(rng)).hex()
        expect_ok = False
    elif variant == "forged-extra-targets":
        # a certificate made by someone who has neither the root nor the device key (the
        # whole chain hangs from another root), listing extra or repeated targets so that
        # the failing ancestor is met more than once
        root_hex = g1.pub65(g1.new_key(rng)).hex()
        doc["targets"] = rng.choice([["device", "ui", "signer"], ["attestation", "ui", "signer"],
                                     ["ui", "ui", "signer"], ["signer", "ui", "signer"],
                                     ["device", "attestation", "ui", "signer"],
                                     ["ui", "signer", "ui", "signer"]])
        expect_ok = False
    elif variant == "flip-signature-extra-targets":
        nm = rng.choice(["device", "attestation", "ui", "signer"])
        e = [x for x in doc["elements"] if x["name"] == nm][0]
        b = bytearray(bytes.fromhex(e["signature"]))
        b[rng.randrange(4, len(b))] ^= 1 << rng.randrange(8)
        e["signature"] = bytes(b).hex()
        doc["targets"] = [nm] * rng.randint(1, 2) + ["ui", "signer"] + \
            ([nm] if rng.random() < 0.5 else [])
        expect_ok = False
    elif variant == "malformed-root":
        root_hex = rng.choice(["zz", "", "04" + "00" * 64, "abcd"])
        expect_ok = False
    elif variant == "flip-signature":
        e = rng.choice(doc["elements"])
        b = bytearray(bytes.fromhex(e["signature"]))
        b[rng.randrange(4, len(b))] ^= 1 << rng.randrange(8)
        e["signature"] = bytes(b).hex()
        expect_ok = False
    elif variant == "ui-extended":
        la.resign(doc, info, "ui", info["ui_msg"] + rng.randbytes(rng.randint(1, 10)), rng)
        either = True
    elif variant == "ui-truncated":
        la.resign(doc, info, "ui", info["ui_msg"][:-rng.randint(35, 60)], rng)
        expect_ok = False
    certp = os.path.join(tmpdir, "att.json")
    pkp = os.path.join(tmpdir, "pk.json")
    la.dump(doc, certp)
    if variant == "pubkeys-not-json":
        with open(pkp, "w") as f:
            f.write(rng.choice(["", "[]", "{", "5"]))
        expect_ok = False
    elif variant == "pubkey-invalid":
        pk[rng.choice(la.PATHS)] = rng.choice(["zz", "04" + "11" * 64, ""])
        la.dump(pk, pkp)
        expect_ok = False
    else:
        la.dump(pk, pkp)
    opts = SimpleNamespace(attestation_certificate_file_path=certp, pubkeys_file_path=pkp,
                           root_authority=root_hex)
    cli = "adm_ledger" if rng.random() < 0.5 else None
    if cli:
        acc.count("verifications_through_the_command_line")
    with env.odd_environ(rng) as oe:
        with env.odd_environ(rng) as oe:
            ok, out, exc = run_cmd(do_verify_attestation, opts, cli)
        if oe.vars:
            acc.count("verifications_with_terminal_or_locale_variables_exported")
    if oe.vars:
        acc.count("verifications_with_terminal_or_locale_variables_exported")
    acc.evaluations += 1
    acc.distinct.add("ledger|%s|%s|%s" % (form, file_form, variant))
    label = "ledger:%s" % variant
    if either:
        acc.count("either_allowed")
    elif ok and not expect_ok:
        acc.violation("verified-although-%s" % label, {"stdout": out[-600:]}, case)
        return
    elif not ok and expect_ok:
        acc.violation("refused-genuine-%s" % label, {"exc": repr(exc)[:300]}, case)
        return
    if not ok:
        acc.count("variants_refused")
        return
    if expect_ok:
        acc.count("genuine_accepted")
    # printed values are those of the signed messages
    uf = info.get("ui_fields")
    ui_msg = bytes.fromhex([e for e in doc["elements"] if e["name"] == "ui"][0]["message"])
    h = len(b"HSM:UI:5.4")
    want = {
        ("UD value", 0): ui_msg[h:h + 32].hex(),
        ("Derived public key (m/44'/0'/0'/0/0)", 0): ui_msg[h + 32:h + 65].hex(),
        ("Authorized signer hash", 0): ui_msg[h + 65:h + 97].hex(),
        ("Authorized signer iteration", 0): str(int.from_bytes(ui_msg[h + 97:h + 99], "big")),
        ("Installed UI hash", 0): info["ui_hash"].hex(),
        ("Installed UI version", 0): "5.4",
        ("Hash", 0): kh.hex(),
        ("Installed Signer hash", 0): info["signer_hash"].hex(),
        ("Installed Signer version", 0): "5.4",
    }
    sf = info.get("signer_fields")
    if sf is not None:
        want.update({
            ("Platform", 0): sf["platform"].decode(),
            ("UD value", 1): sf["ud_value"].hex(),
            ("Best block", 0): sf["best_block"].hex(),
            ("Last transaction signed", 0): sf["last_signed_tx"].hex(),
            ("Timestamp", 0): str(int.from_bytes(sf["timestamp"], "big")),
        })
    for (lab, nth), w in want.items():
        acc.count("printed_values_compared")
        got = printed(out, lab, nth)
        if got != w:
            acc.violation("printed-value-differs:ledger:%s" % lab.split(" (")[0],
                          {"got": got, "want": w, "variant": variant}, case)
    for p, k in keys.items():
        if not p.startswith("m/"):
            continue
        acc.count("printed_values_compared")
        got = printed(out, p)
        if got != g1.pub33(k).hex():
            acc.violation("printed-value-differs:ledger:pubkey", {"path": p, "got": got}, case)
    if len(acc.samples) < 1:
        acc.sample({"platform": "ledger", "variant": variant, "stdout_tail": out[-900:]})


# --------------------------------------------------------------------- SGX --

SGX_VARIANTS = ["genuine", "genuine-reordered", "key-replaced", "keys-swapped-paths",
                "keys-hash-equal-only-in-part", "keys-hash-equal-only-in-part",
                "keys-hash-of-the-keys-as-spelled-in-the-file",
                "key-added-under-another-spelling-of-a-listed-path",
                "key-added-under-another-spelling-of-a-listed-path",
                "key-added", "key-removed", "msg-len+1", "msg-len-1", "msg-len+32",
                "msg-len-32", "header-dot-wildcard", "header-foreign", "header-major6",
                "missing-quote-target", "wrong-root", "root-not-self-signed", "root-expired",
                "root-missing-file", "flip-quote-signature", "custom-data-other",
                "genuine-odd-paths", "odd-paths-hash-in-numeric-order", "forged-extra-targets",
                "forged-extra-targets", "flip-signature-extra-targets",
                "cert-by-key-of-another-algorithm", "cert-by-key-of-another-algorithm",
                "att-message-extended", "quote-extended"]


def sgx_case(acc, rng, variant, tmpdir, case):
    from admin.verify_sgx_attestation import do_verify_attestation
    keys = la.operator_keys(rng)
    natural = None
    if variant in ("genuine-odd-paths", "odd-paths-hash-in-numeric-order"):
        paths, natural = odd_paths(rng)
        keys = la.operator_keys(rng, paths)
    kh = la.keys_hash({p: g1.pub65(k) for p, k in keys.items()})
    sgx_file_form = rng.choice(["uncompressed", "compressed", "uncompressed", "compressed",
                                "hybrid", "mixed"])
    pk = la.pubkeys_file(keys, sgx_file_form)
    signed_kh = kh
    expect_ok = True
    if variant == "odd-paths-hash-in-numeric-order":
        import hashlib as _hl
        h = _hl.sha256()
        for pth in sorted(keys, key=natural):
            h.update(g1.pub65(keys[pth]))
        signed_kh = h.digest()
        expect_ok = False
    if variant == "keys-hash-of-the-keys-as-spelled-in-the-file":
        # the attested hash is that of the keys as the operator's file writes them (hybrid
        # notation) - not of the keys in the notation the device hashes them in
        import hashlib as _hl
        pk = la.pubkeys_file(keys, "hybrid")
        h = _hl.sha256()
        for pth in sorted(pk):
            h.update(bytes.fromhex(pk[pth]))
        signed_kh = h.digest()
        expect_ok = False
    if variant == "keys-hash-equal-only-in-part":
        # the attested hash is the operator's in its first (or last) 4..31 bytes and another
        # elsewhere - one byte, the second half: it is the hash of other keys
        n_ = rng.choice([31, 16, 16, 8, 4])
        other = bytearray(rng.randbytes(32))
        if rng.random() < 0.7:
            other[:n_] = kh[:n_]
        else:
            other[-n_:] = kh[-n_:]
        if bytes(other) == kh:
            other[-1] ^= 1
        signed_kh = bytes(other)
        expect_ok = False
    msg, fields = g2.powhsm_message(rng, signed_kh, platform=b"sgx")
    if variant.startswith("msg-len"):
        delta = int(variant[len("msg-len"):])
        msg = msg + tail_bytes(rng, delta) if delta > 0 else msg[:delta]
        expect_ok = False
    elif variant == "header-dot-wildcard":
        msg = msg.replace(b"POWHSM:5.4::", b"POWHSM:5" + rng.choice([b"x", b"-", b"0"]) + b"4::")
        expect_ok = False
    elif variant == "header-foreign":
        msg = rng.choice([b"POWHSM:5.4:", b"HSM:UI:5.4::", b"POWHSN:5.4::", b"POWHSM:54::",
                          b"\x00POWHSM:5.4::"]) + msg[len(b"POWHSM:5.4::"):]
        expect_ok = False
    elif variant == "header-major6":
        msg = msg.replace(b"POWHSM:5.4::", b"POWHSM:6.0::")
        expect_ok = False
    m = g2.build(rng, custom_data=msg)
    doc = g2.to_doc(m)
    root_cert = m.root_cert
    if variant == "genuine-reordered":
        rng.shuffle(doc["elements"])
        items = list(pk.items())
        rng.shuffle(items)
        pk = dict(items)
    elif variant == "key-replaced":
        pk[rng.choice(la.PATHS)] = g1.pub65(g1.new_key(rng)).hex()
        expect_ok = False
    elif variant == "keys-swapped-paths":
        a, b = rng.sample(la.PATHS, 2)
        pk[a], pk[b] = pk[b], pk[a]
        expect_ok = False
    elif variant == "key-added":
        pk["m/44'/2'/0'/0/0"] = g1.pub65(g1.new_key(rng)).hex()
        expect_ok = False
    elif variant == "key-added-under-another-spelling-of-a-listed-path":
        victim = rng.choice(la.PATHS)
        alias = rng.choice([a_ for a_ in (
            victim.replace("'", "h"), victim.replace("'", "H"), victim.replace("m/", "M/"),
            victim.replace("/0'", "/00'", 1), victim + " ", victim.replace("'", "h", 1))
            if a_ != victim])
        rogue = {alias: g1.pub65(g1.new_key(rng)).hex()}
        pk = dict(list(rogue.items()) + list(pk.items())) if rng.random() < 0.5 else \
            dict(list(pk.items()) + list(rogue.items()))
        expect_ok = False
    elif variant == "key-removed":
        del pk[rng.choice(la.PATHS)]
        expect_ok = False
    elif variant == "missing-quote-target":
        if rng.random() < 0.5:
            doc["targets"] = []
        else:
            for e in doc["elements"]:
                if e["name"] == "quote":
                    e["name"] = "quote2"
            doc["targets"] = ["quote2"]
        expect_ok = False
    elif variant == "wrong-root":
        k = g2.new_key(rng)
        root_cert = g2.make_cert("root", k.public_key(), "root", k)
        expect_ok = False
    elif variant == "cert-by-key-of-another-algorithm":
        # one certificate of the chain re-issued (same subject, key and period, same issuer
        # name) by somebody's Ed25519 / Ed448 / RSA / P-384 ... key
        i = rng.randrange(len(m.certs))
        alg, key = g2.other_algorithm_key(rng)
        c2 = g2.make_cert("ca%d" % i, m.cert_keys[i].public_key(),
                          "root" if i == 0 else "ca%d" % (i - 1), key, serial=98)
        xs = [e for e in doc["elements"] if e["type"] == "x509_pem"]
        by_subject = [e for e in xs if e["message"] == g2.pem_body(m.certs[i])]
        if by_subject:
            by_subject[0]["message"] = g2.pem_body(c2)
            expect_ok = False
    elif variant == "forged-extra-targets":
        k = g2.new_key(rng)
        root_cert = g2.make_cert("root", k.public_key(), "root", k)
        names = [e["name"] for e in doc["elements"] if e["name"] != "quote"]
        doc["targets"] = rng.choice([[rng.choice(names), "quote"], ["quote", "quote"],
                                     names + ["quote"], ["quote", rng.choice(names), "quote"]])
        expect_ok = False
    elif variant == "flip-signature-extra-targets":
        e = [x for x in doc["elements"] if x["name"] == "quote"][0]
        b = bytearray(bytes.fromhex(e["signature"]))
        b[rng.randrange(4, len(b))] ^= 1 << rng.randrange(8)
        e["signature"] = bytes(b).hex()
        doc["targets"] = ["quote", "quote"]
        expect_ok = False
    elif variant == "root-not-self-signed":
        # same subject and key as the genuine root, but issued by someone else
        root_cert = g2.make_cert("root", m.root_key.public_key(), "root", g2.new_key(rng))
        expect_ok = False
    elif variant == "root-expired":
        root_cert = g2.make_cert("root", m.root_key.public_key(), "root", m.root_key,
                                 window=rng.choice(["expired", "expired_recently",
                                                    "valid_soon", "expired_seconds_ago"]))
        expect_ok = False
    elif variant == "flip-quote-signature":
        e = [x for x in doc["elements"] if x["name"] == "quote"][0]
        b = bytearray(bytes.fromhex(e["signature"]))
        b[rng.randrange(4, len(b))] ^= 1 << rng.randrange(8)
        e["signature"] = bytes(b).hex()
        expect_ok = False
    elif variant == "att-message-extended":
        e = [x for x in doc["elements"] if x["type"] == "sgx_attestation_key"][0]
        e["message"] = e["message"] + rng.choice(["00", "00" * 32, rng.randbytes(64).hex(),
                                                  e["message"]])
        expect_ok = False
    elif variant == "quote-extended":
        e = [x for x in doc["elements"] if x["name"] == "quote"][0]
        e["message"] = e["message"] + rng.choice(["00", rng.randbytes(48).hex()])
        expect_ok = False
    elif variant == "custom-data-other":
        e = [x for x in doc["elements"] if x["name"] == "quote"][0]
        e["custom_data"] = g2.powhsm_message(rng, kh, platform=b"sgx")[0].hex()
        expect_ok = False
    certp = os.path.join(tmpdir, "att.json")
    pkp = os.path.join(tmpdir, "pk.json")
    rootp = os.path.join(tmpdir, "root.pem")
    la.dump(doc, certp)
    la.dump(pk, pkp)
    with open(rootp, "w") as f:
        f.write(g2.pem(root_cert))
    if variant == "root-missing-file":
        # a path that is not a file makes the tool try to fetch it as a URL (no network)
        rootp = os.path.join(tmpdir, "nonexistent.pem")
        expect_ok = False
    # how the root of trust reaches the tool: a file (-r path), a URL (-r url) or the
    # built-in default URL (no -r).  The same URLs serve a different root in every case,
    # as a web server whose certificate was replaced would.
    from ..fakenet import FakeWeb
    import admin.verify_sgx_attestation as vsa
    delivery = rng.choice(["file", "file", "url", "default-url"])
    if variant == "root-missing-file":
        delivery = "file"
    web = FakeWeb()
    if delivery == "url":
        rootp = "https://certificates.example/sgx/root.pem"
        web.serve(rootp, g2.pem(root_cert))
    elif delivery == "default-url":
        web.serve(vsa.DEFAULT_ROOT_AUTHORITY, g2.pem(root_cert))
        rootp = None
    if delivery != "file" and expect_ok and rng.random() < 0.1:
        # the server answers, but not with the document
        st = rng.choice([404, 500, 301, 204])
        web.serve(rootp or vsa.DEFAULT_ROOT_AUTHORITY, g2.pem(root_cert), status=st)
        expect_ok = False
        variant += "-http-%d" % st
    acc.count("root_of_trust_delivered_by_" + delivery.replace("-", "_"))
    opts = SimpleNamespace(attestation_certificate_file_path=certp, pubkeys_file_path=pkp,
                           root_authority=rootp)
    cli = "adm_sgx" if rng.random() < 0.5 else None
    if cli:
        acc.count("verifications_through_the_command_line")
    with web:
        ok, out, exc = run_cmd(do_verify_attestation, opts, cli)
    acc.count("root_of_trust_fetches", len(web.fetches))
    acc.evaluations += 1
    acc.distinct.add("sgx|%d|%s" % (len(m.certs), variant))
    label = "sgx:%s" % variant
    if ok and not expect_ok:
        acc.violation("verified-although-%s" % label, {"stdout": out[-600:]}, case)
        return
    if not ok and expect_ok:
        acc.violation("refused-genuine-%s" % label, {"exc": repr(exc)[:300]}, case)
        return
    if not ok:
        acc.count("variants_refused")
        return
    acc.count("genuine_accepted")
    q = m.quote
    want = {
        "Hash": kh.hex(),
        "Installed powHSM MRENCLAVE": q[48 + 64:48 + 96].hex(),
        "Installed powHSM MRSIGNER": q[48 + 128:48 + 160].hex(),
        "Installed powHSM version": "5.4",
        "Platform": fields["platform"].decode(),
        "UD value": fields["ud_value"].hex(),
        "Best block": fields["best_block"].hex(),
        "Last transaction signed": fields["last_signed_tx"].hex(),
        "Timestamp": str(int.from_bytes(fields["timestamp"], "big")),
    }
    for lab, w in want.items():
        acc.count("printed_values_compared")
        got = printed(out, lab)
        if got != w:
            acc.violation("printed-value-differs:sgx:%s" % lab, {"got": got, "want": w}, case)
    if len(acc.samples) < 2:
        acc.sample({"platform": "sgx", "variant": variant, "stdout_tail": out[-700:]})


def run_case(acc, cseed, tmpdir):
    rng = random.Random(cseed)
    for v in LEDGER_VARIANTS:
        ledger_case(acc, random.Random(rng.getrandbits(48)), v, tmpdir,
                    {"seed": cseed, "platform": "ledger", "variant": v})
    for v in SGX_VARIANTS:
        sgx_case(acc, random.Random(rng.getrandbits(48)), v, tmpdir,
                 {"seed": cseed, "platform": "sgx", "variant": v})


def run_shard(spec, acc):
    env.setup()
    if spec.get("shard", spec.get("seed", 0)) % 4 >= 2 and env.on_other_fs():
        acc.count("shards_with_files_on_another_file_system_than_the_temp_directory")
    rng = random.Random(spec["seed"])
    tmpdir = env.mkdtemp("c08", spec.get("shard", spec.get("seed", 0)) % 2 == 1,
                         other_fs=spec.get("shard", spec.get("seed", 0)) % 4 >= 2)
    try:
        for i in range(spec["n"]):
            run_case(acc, rng.getrandbits(48), tmpdir)
    finally:
        shutil.rmtree(tmpdir, ignore_errors=True)


def replay(case, acc):
    env.setup()
    tmpdir = env.mkdtemp("c08")
    try:
        run_case(acc, case["seed"], tmpdir)
    finally:
        shutil.rmtree(tmpdir, ignore_errors=True)
