# C04 - device outcomes map onto the result codes documented for each command
import random

from .. import env
from ..oracle import fwconst
from ..simdev.transport import Fault
from . import faultlib as fl
from ..gen import der

ID = "C04"
LEVEL = "fault_enumeration"
RULE = ("for each of 15 request shapes over the 10 commands in v5 (sign legacy/segwit/hash, "
        "getPubKey, advance with/without brothers and with partial success, reset, state, "
        "updateAncestor, parameters, signerHeartbeat, uiHeartbeat from signer and from heartbeat "
        "mode) and 3 in v1, a fault-free run fixes the number K of device exchanges; then one "
        "outcome is injected at each exchange index k on a fresh stack: a status word (quick: "
        "every code named in the firmware headers, range edges, 64 seeded random; thorough: all "
        "65536), time-out, write error, read error, unexpected opcode, and the transport-"
        "tolerated 0x61xx/0x6Cxx with data kept. Monitors: reply in the set docs/protocol.md "
        "lists for the command + generic codes; 0/1 only on device success and always on the "
        "fault-free run; exact code for firmware errors whose cause the docs name, at the steps "
        "whose firmware source can raise them; no shutdown for status words in 0x69A0..0x6BFF or "
        "0x6D00. distinct = (shape, step index, outcome) cells; every cell is non-trivial")
RULE_ADDED = (
              'Also: shapes where the device reports total / partial success before the last '
              'announced block, and uiHeartbeat shapes that end in the bootloader or stay in the '
              'heartbeat app (baseline -905); 16 success answers per signing / heartbeat shape with '
              'signatures of 8..72 bytes; a fifth of the cells with the --iodebug option on '
              ' '
              'Round 8: logging configured as shipped (everything down to DEBUG formatted) in e'
              'very cell. '
              ' '
              'Round 9: at every step of the sign / advance / update dialogues a well-formed an'
              'swer carrying each other opcode of the command; success is reported only if the '
              "device's last answer reported it. "
              ' '
              'Round 11: every command with a reconnection pending and a status word (12 values'
              " in and out of the device's range) at each of the four exchanges of the repair's"
              ' bring-up. '
              ' '
              'Round 12: the same refusal ten times in a row on one manager at three steps of e'
              'very command - all ten answers are the same. '
              ' '
              'Round 14: advance / updateAncestor shapes whose headers the device cuts short (a'
              'll sweeps apply to them). '
              ' '
              'Round 15: one status word in 32 also over TCPSigner / SGX: same outcome as over '
              'HID. '
              ' '
              'Round 16: on SGX, a repair that goes through the unlock dialogue with the echo /'
              " unlock exchange answered by in-range status words (incl. the SGX system layer's"
              ' own). '
              ' '
              'Round 17: opcodes the command does not have whose bits contain those of a succes'
              's opcode, carrying well-formed data. ')
RULE = RULE + " " + RULE_ADDED.strip()
ASSUMPTIONS = [
    "simulated device + fake HID transport trusted; injected status words carry no data "
    "(as a firmware THROW leaves tx=0), 0x61xx/0x6Cxx keep the genuine data",
    "the firmware-error -> documented-cause table (faultlib.EXACT) is a reading of the enum "
    "comments; it is applied only at steps whose firmware source file can raise the error",
    "single fault per request",
]
FLOORS = {"quick": {"evaluations": 8000, "cells_in_range_sw": 4000, "exact_code_checks": 150,
                    "baselines": 18, "link_or_timeout_cells": 400},
          "thorough": {"evaluations": 3000000, "cells_in_range_sw": 30000,
                       "exact_code_checks": 150, "baselines": 18, "link_or_timeout_cells": 400}}
EXHAUSTIVE = {"quick": False, "thorough": True}
WATCHDOG_S = {"quick": 600, "thorough": 7200}


def named_sws():
    fw = fwconst.get()
    out = {}
    for grp in ("auth", "err", "bc_err", "ui_err"):
        for name, val in fw[grp].items():
            if 0x6000 <= val <= 0x6FFF:
                out.setdefault(val, []).append(name)
    return out


EDGES = [0x699F, 0x69A0, 0x69A1, 0x6A00, 0x6BFF, 0x6C00, 0x6CFF, 0x6D00, 0x6D01, 0x6E00, 0x6F00,
         0x0000, 0xFFFF, 0x9001, 0x6100, 0x61FF, 0x6982, 0x6985, 0x6B00, 0x6A80, 0x8fff]


def shards(tier, seed):
    if tier == "quick":
        named = sorted(named_sws())
        rng = random.Random(seed)
        sws = sorted(set(named + EDGES + [rng.randrange(0x10000) for _ in range(64)]))
        nsh = 16
        return [{"sws": sws[i::nsh], "shard": i, "n": nsh} for i in range(nsh)]
    nsh = 64
    per = 0x10000 // nsh
    return [{"sw_range": [i * per, (i + 1) * per], "shard": i, "n": nsh} for i in range(nsh)]


PRELUDES = ["advance.nobrothers", "updateAncestor", "sign.hash", "state", "advance.brothers",
            "getPubKey"]


def in_range(sw):
    return 0x69A0 <= sw <= 0x6BFF or sw == 0x6D00


def run_cell(shape, plan, prep=None, iodebug=False, prelude=None, platform="ledger"):
    """fresh stack, bring-up, (prelude: another command served first, successfully, by the
    same manager), arm the plan, run the request"""
    from ..stack import Stack
    dev = fl.make_device(shape, also=[prelude] if prelude else (), platform=platform)
    if platform == "sgx":
        dev.unlocked = True
    if prep:
        prep(dev)
    with Stack(dev, version_one=shape.v1, iodebug=iodebug, loglevel="DEBUG") as s:
        s.initialize()
        if prelude is not None:
            if prelude.post:
                prelude.post(dev)
            s.request(prelude.request)
            dev.adv_policy = {}
            dev.mode = 0x03
            del s.bus.events[:]
        if shape.post:
            shape.post(dev)
        s.bus.arm(plan)
        mark = len(s.bus.events)
        reply, exc, out = s.request(shape.request)
        apdus = s.bus.apdus(mark)
        return reply, exc, apdus, dev, out


def run_shard(spec, acc):
    env.setup()
    named = named_sws()
    by_src = fl.firmware_errors_by_source()
    fw_all = {}
    for grp in ("auth", "err", "bc_err", "ui_err"):
        fw_all.update(fwconst.get()[grp])
    if "sws" in spec:
        sws = spec["sws"]
    else:
        sws = list(range(*spec["sw_range"]))
    for v1 in (False, True):
        docs = fl.documented_codes(v1)
        for si, shape in enumerate(fl.shapes(v1)):
            allowed = docs[shape.command]
            # ---- baseline
            reply, exc, apdus, dev, out = run_cell(shape, {})
            K = len(apdus)
            roles = [fl.role_of(e["apdu"]) for e in apdus]
            if spec["shard"] == 0:
                acc.count("baselines")
                acc.evaluations += 1
                if exc is not None or not reply or reply.get("errorcode") != shape.baseline:
                    acc.violation("baseline-not-success:%s" % shape.name,
                                  {"reply": reply, "exc": repr(exc)},
                                  {"shape": shape.name, "v1": v1, "k": None, "fault": None})
                acc.sample({"shape": shape.name, "v1": v1, "exchanges": K, "roles": roles,
                            "baseline_reply": reply}, cap=6)
            base_reply = reply
            if K == 0:
                continue
            # ---- success answers of every well-formed shape: signatures whose r / s
            # are shorter than 32 bytes or carry the DER sign byte, total 8..72 bytes
            if shape.command in ("sign", "signerHeartbeat", "uiHeartbeat") and \
                    shape.baseline == 0 and si % spec["n"] == spec["shard"] % spec["n"]:
                srng = random.Random(1000 + si)
                for j in range(16):
                    sig, rs = der.make_sig(srng, ["normal", "normal", "short", "min"][j % 4])

                    def prep(dev, sig=sig):
                        dev.signatures = iter([sig] * 4)
                        for hb in (dev.hb, dev.uihb):
                            if hb:
                                hb["signature"] = sig
                    r2, e2, _, _, _ = run_cell(shape, {}, prep)
                    acc.count("success_answers_of_other_shapes")
                    acc.evaluations += 1
                    got = (r2 or {}).get("signature") or {}
                    if e2 is not None or not r2 or r2.get("errorcode") != 0 or \
                            (int(got.get("r", "0") or "0", 16), int(got.get("s", "0") or "0", 16)) \
                            != (int(rs[0] or "0", 16), int(rs[1] or "0", 16)):
                        acc.violation("device-success-not-code-0:%s:signature-of-%d-bytes" % (
                            shape.command, len(sig)), {"reply": r2, "exc": repr(e2),
                                                       "signature": sig.hex()},
                            {"shape": shape.name, "v1": v1, "k": None, "fault": None,
                             "sig": sig.hex()})
            # ---- the cells
            others = []
            gi = si + (100 if v1 else 0)
            if gi % spec["n"] == spec["shard"] % spec["n"] or \
                    (v1 and (si + 15) % spec["n"] == spec["shard"]):
                others = [Fault("timeout"), Fault("write_error"), Fault("read_error"),
                          Fault("read_error", processed=True), Fault("badop"),
                          Fault("sw_keep", sw=0x6100), Fault("sw_keep", sw=0x61AB),
                          Fault("sw_keep", sw=0x6C00), Fault("sw_keep", sw=0x6C10)]
            # ---- the same with a repair pending: the request first re-opens the link and
            # repeats the bring-up (onboard query, mode, version, parameters); a status word
            # answered to one of THOSE exchanges is an outcome of this request too
            if not v1 and gi % spec["n"] == spec["shard"] % spec["n"]:
                for k in range(4):
                    for sw in REPAIR_SWS:
                        check_repair_cell(acc, shape, k, sw, allowed)
            if not v1 and shape.name in ("getPubKey", "sign.hash", "state", "parameters") and \
                    gi % spec["n"] == spec["shard"] % spec["n"]:
                check_sgx_locked_repair(acc, shape, allowed)
            # ---- the same refusal many times in a row on one manager: the tenth answer is
            # the first one's (nothing counts refusals)
            if not v1 and gi % spec["n"] == spec["shard"] % spec["n"]:
                check_streak(acc, shape, roles, allowed)
            # ---- a well-formed answer (status 9000) that carries another opcode of the
            # same command than the step calls for: the device asking for a header after
            # the last block, announcing brothers in the middle of a header, ...  Whatever
            # the manager makes of it, success is reported only if the device's last
            # answer of the dialogue reports success
            fam = shape_family(roles)
            if fam and gi % spec["n"] == spec["shard"] % spec["n"]:
                for k in range(K):
                    if roles[k].split(".")[0] != fam:
                        continue
                    for opc in FAMILY_OPCODES[fam]:
                        check_misplaced_opcode(acc, shape, v1, k, roles[k], opc, allowed, fam)
            # ---- the other transports (TCPSigner, SGX): what the device answers maps
            # onto the same code whatever carries it (one status word in 32 of this shard's
            # range, at every step of the commands these platforms have)
            if "eartbeat" not in shape.name:
                for k in range(K):
                    for sw in sws[(si + k) % 32::32]:
                        if sw == 0x9000 or (sw & 0xFF00) in (0x6100, 0x6C00):
                            continue
                        check_platforms_agree(acc, shape, v1, k, roles[k], sw)
            for k in range(K):
                role = roles[k]
                for sw in sws:
                    if sw == 0x9000 or (sw & 0xFF00) in (0x6100, 0x6C00):
                        continue    # handled as sw_keep below (transport-level success)
                    check_cell(acc, shape, v1, k, role, Fault("sw", sw=sw), allowed, base_reply,
                               named, by_src, fw_all)
                for f in others:
                    check_cell(acc, shape, v1, k, role, f, allowed, base_reply, named, by_src,
                               fw_all)


REPAIR_SWS = [0x69A0, 0x6A87, 0x6A8F, 0x6B10, 0x6B87, 0x6BFF, 0x6D00, 0x6985, 0x6E00, 0x6F00,
              0x6700, 0x9001]


def check_platforms_agree(acc, shape, v1, k, role, sw):
    outcomes = {}
    for plat in ("ledger", ["tcp", "sgx"][(k + sw) % 2]):
        reply, exc, apdus, dev, out = run_cell(shape, {k: Fault("sw", sw=sw)}, platform=plat)
        outcomes[plat] = ((reply or {}).get("errorcode") if isinstance(reply, dict) else None,
                          type(exc).__name__ if exc is not None else None)
    acc.evaluations += 1
    acc.distinct_disjoint += 1
    acc.count("cells_compared_across_transports")
    if len(set(outcomes.values())) != 1:
        acc.violation("same-status-word-other-outcome-over-another-transport:%s:%s" % (
            shape.command, role), {"shape": shape.name, "step": k, "sw": "%04x" % sw,
                                   "outcomes": {p_: list(o_) for p_, o_ in outcomes.items()}},
            {"shape": shape.name, "v1": v1, "k": k, "role": role,
             "fault": ["sw", sw, None, False], "prelude": None, "platforms": True})


SGX_SYSTEM_SWS = [0x6BEE, 0x6BEF, 0x6BF0, 0x6BF1, 0x6BF2, 0x69A0, 0x6A87, 0x6B10, 0x6BFF, 0x6D00]


def check_sgx_locked_repair(acc, shape, allowed):
    """SGX platform: link failure, the enclave back locked, and in the repair the next
    request runs - which goes through the unlock dialogue - the echo or the unlock exchange
    is answered with an error status of the device's own range (the SGX system layer has a
    few of its own: not onboarded, locked, password change ...).  It never stops the manager."""
    from ..stack import Stack
    for cmdbyte, what in ((0xA4, "echo"), (0xA3, "unlock")):
        for sw in SGX_SYSTEM_SWS:
            dev = fl.make_device(shape, platform="sgx")
            dev.unlocked = True
            with Stack(dev, loglevel="DEBUG") as s:
                s.bus.tcp_faults_as_hid = True
                s.initialize()
                s.bus.arm({0: Fault("read_error")})
                s.request(shape.request)
                s.bus.arm({})
                dev.pending_link = None
                dev.unlocked = False
                s.bus.arm_cmd({cmdbyte: Fault("sw", sw=sw)})
                reply, exc, out = s.request(shape.request)
                hit = any(e.get("fault") for e in s.bus.events if e["ev"] == "apdu")
            acc.evaluations += 1
            acc.distinct_disjoint += 1
            acc.count("cells_with_a_status_word_inside_a_repair_on_a_locked_sgx_device")
            case = {"shape": shape.name, "v1": False, "k": None, "role": "sgx-" + what,
                    "fault": ["sw", sw, None, False], "prelude": None, "sgx_locked_repair": True}
            if not hit:
                acc.count("sgx_locked_repair_cells_not_reached")
                continue
            if exc is not None:
                acc.violation("shutdown:sgx-repair-through-unlock:%s:in-range-sw" % what,
                              {"shape": shape.name, "sw": "%04x" % sw, "exc": repr(exc),
                               "reply": reply}, case)
            elif not isinstance(reply, dict) or reply.get("errorcode") not in allowed:
                acc.violation("code-not-documented:%s:sgx-repair-through-unlock" % shape.command,
                              {"shape": shape.name, "sw": "%04x" % sw, "reply": reply}, case)


def check_streak(acc, shape, roles, allowed):
    from ..stack import Stack
    for k in sorted({0, len(roles) // 2, len(roles) - 1}):
        for sw in (0x6A8F, 0x6B10, 0x6A87, 0x6B90):
            dev = fl.make_device(shape)
            with Stack(dev, loglevel="DEBUG") as s:
                s.initialize()
                codes = []
                for rep in range(10):
                    dev.mode = 0x03
                    dev.adv_policy = {}
                    if shape.post:
                        shape.post(dev)
                    s.bus.arm({k: Fault("sw", sw=sw)})
                    reply, exc, out = s.request(shape.request)
                    if exc is not None or not isinstance(reply, dict):
                        codes.append("stopped:%s" % type(exc).__name__)
                        break
                    codes.append(reply.get("errorcode"))
                    if hasattr(dev, "reset_adv"):
                        dev.reset_adv()
                    dev.reset_sign()
            acc.evaluations += 1
            acc.distinct_disjoint += 1
            acc.count("refusal_streaks")
            if len(set(codes)) != 1:
                acc.violation("same-refusal-answered-differently-when-repeated:%s" % shape.command,
                              {"shape": shape.name, "step": k, "role": roles[k],
                               "sw": "%04x" % sw, "codes": codes},
                              {"shape": shape.name, "v1": False, "k": k, "role": roles[k],
                               "fault": ["sw", sw, None, False], "prelude": None, "streak": True})


def check_repair_cell(acc, shape, k, sw, allowed):
    """link failure on the shape's request, then the same request again: its repair's
    k-th bring-up exchange is answered with status sw"""
    from ..stack import Stack
    dev = fl.make_device(shape)
    with Stack(dev, loglevel="DEBUG") as s:
        s.initialize()
        if shape.post:
            shape.post(dev)
        s.bus.arm({0: Fault("read_error")})
        s.request(shape.request)
        dev.pending_link = None
        dev.mode = 0x03
        dev.adv_policy = {}
        if shape.post and shape.name != "uiHeartbeat.hbmode":
            shape.post(dev)
        s.bus.arm({k: Fault("sw", sw=sw)})
        mark = len(s.bus.events)
        reply, exc, out = s.request(shape.request)
        fired = any(e.get("fault") for e in s.bus.events[mark:])
    if not fired:
        return          # (this request did not get that far)
    acc.evaluations += 1
    acc.distinct_disjoint += 1
    acc.count("cells_with_a_status_word_inside_a_repair")
    case = {"shape": shape.name, "v1": False, "k": k, "role": "repair-step-%d" % k,
            "fault": ["sw", sw, None, False], "prelude": None, "repair": True}

    def bad(mech, **d):
        d.update(shape=shape.name, repair_step=k, sw="%04x" % sw, reply=reply,
                 exc=repr(exc) if exc is not None else None)
        acc.violation(mech, d, case)
    step = ["onboard-query", "mode-query", "version-query", "parameters-query"][k]
    if not isinstance(reply, dict) or type(reply.get("errorcode")) is not int or exc is not None:
        if in_range(sw):
            if k == 0:
                # initialize_device() turns a failing onboard query into "stop" on purpose
                return bad("shutdown:repair-bring-up:onboard-query:in-range-sw")
            return bad("shutdown:%s:repair-bring-up:%s:in-range-sw" % (shape.command, step))
        if not isinstance(reply, dict):
            return bad("no-reply:%s:repair-bring-up:%s" % (shape.command, step))
        return
    code = reply["errorcode"]
    if code not in allowed:
        return bad("code-not-documented:%s:%d" % (shape.command, code))
    if code in (0, 1):
        return bad("success-despite-sw:%s:repair-bring-up:%s" % (shape.command, step))


# (the command's own opcodes, and opcodes it does not have whose bits contain / resemble
# those of a success opcode: 0x81 -> 0x83, 0xc3, 0xff ...; 0x05 / 0x06 -> 0x0d, 0x15, 0x85 ...)
FAMILY_OPCODES = {"adv": [0x02, 0x03, 0x04, 0x05, 0x06, 0x07, 0x08, 0x09,
                          0x0d, 0x0e, 0x15, 0x16, 0x85, 0x86, 0xff],
                  "upd": [0x02, 0x03, 0x04, 0x05, 0x06, 0x07, 0x0d, 0x15, 0x85, 0x86, 0xff],
                  "sign": [0x01, 0x02, 0x04, 0x08, 0x81, 0x80, 0x83, 0x85, 0x89, 0x91, 0xc3,
                           0xff]}
SUCCESS_OPCODES = {"adv": (0x05, 0x06), "upd": (0x05, 0x06), "sign": (0x81,)}


def shape_family(roles):
    for r in roles:
        f = r.split(".")[0]
        if f in FAMILY_OPCODES:
            return f
    return None


def check_misplaced_opcode(acc, shape, v1, k, role, opc, allowed, fam):
    fault = Fault("op", n=opc)
    reply, exc, apdus, dev, out = run_cell(shape, {k: fault})
    acc.evaluations += 1
    acc.distinct_disjoint += 1
    acc.count("cells_with_another_opcode_of_the_command")
    case = {"shape": shape.name, "v1": v1, "k": k, "role": role,
            "fault": ["op", None, opc, False], "prelude": None}

    def bad(mech, **d):
        d.update(shape=shape.name, step=k, role=role, opcode=opc, reply=reply,
                 exc=repr(exc) if exc is not None else None)
        acc.violation(mech, d, case)
    if not isinstance(reply, dict) or type(reply.get("errorcode")) is not int:
        return bad("no-verdict:%s:%s:another-opcode" % (shape.command, role))
    code = reply["errorcode"]
    if code not in allowed:
        return bad("code-not-documented:%s:%d" % (shape.command, code))
    answers = [e for e in apdus if e.get("data") is not None and e["apdu"] and
               fl.role_of(e["apdu"]).split(".")[0] == fam]
    last = answers[-1]["data"] if answers else b""
    last_op = last[2] if len(last) > 2 else None
    if code in (0, 1) and last_op not in SUCCESS_OPCODES[fam]:
        return bad("success-although-the-device-last-said-opcode-%s:%s:%s" % (
            "%02x" % last_op if last_op is not None else "none", shape.command, role))


def check_cell(acc, shape, v1, k, role, fault, allowed, base_reply, named, by_src, fw_all):
    # one cell in five with the manager's low-level I/O debugging option on
    iodebug = (k + (fault.sw or 0) + len(fault.kind)) % 5 == 0
    if iodebug:
        acc.count("cells_with_iodebug_on")
    # one cell in four after another command was served by the same manager (what the
    # manager keeps between requests may not change the mapping)
    prelude = None
    if not v1 and (k * 7 + (fault.sw or 0) * 3 + len(fault.kind)) % 4 == 0:
        names = [n for n in PRELUDES if n != shape.name]
        prelude = [x for x in fl.shapes(False)
                   if x.name == names[((fault.sw or 0) + k) % len(names)]][0]
        acc.count("cells_after_another_command")
    reply, exc, apdus, dev, out = run_cell(shape, {k: fault}, iodebug=iodebug, prelude=prelude)
    acc.evaluations += 1
    acc.distinct_disjoint += 1
    case = {"shape": shape.name, "v1": v1, "k": k, "role": role,
            "fault": [fault.kind, fault.sw, fault.n, fault.processed],
            "prelude": prelude.name if prelude else None}
    kind = fault.kind
    sw = fault.sw

    def bad(mech, **d):
        d.update(shape=shape.name, step=k, role=role, fault=repr(fault), reply=reply,
                 exc=repr(exc) if exc is not None else None)
        acc.violation(mech, d, case)

    if kind == "sw":
        if in_range(sw):
            acc.count("cells_in_range_sw")
        else:
            acc.count("cells_out_of_range_sw")
    elif kind in ("timeout", "write_error", "read_error"):
        acc.count("link_or_timeout_cells")
    else:
        acc.count("cells_" + kind)

    # a reply must exist and be a verdict even when a shutdown is requested
    if not isinstance(reply, dict) or type(reply.get("errorcode")) is not int:
        if kind == "sw" and in_range(sw):
            return bad("shutdown-and-no-verdict:%s:%s:in-range-sw" % (shape.command, role))
        if exc is not None:
            return bad("no-verdict:%s:%s:%s:%s" % (shape.command, role, kind,
                                                   type(exc).__name__))
        return bad("no-verdict:%s:%s:%s" % (shape.command, role, kind))
    code = reply["errorcode"]
    # (4) in-range status word never stops the manager
    if kind == "sw" and in_range(sw) and exc is not None:
        return bad("shutdown:%s:%s:in-range-sw" % (shape.command, role))
    # (1) documented set
    if code not in allowed:
        return bad("code-not-documented:%s:%d" % (shape.command, code))
    # (2) success only on device success
    if kind == "sw_keep":
        # the transport turns these into a normal answer: must equal the baseline
        if reply != base_reply:
            return bad("tolerated-status-changes-outcome:%s:%s" % (shape.command, role))
        return
    tolerant_exit = (role == "exit" and kind in ("write_error", "read_error"))
    opcode_checked = role.split(".")[0] in ("sign", "adv", "upd", "state", "reset")
    if code in (0, 1) and not tolerant_exit:
        if kind != "badop" or opcode_checked:
            return bad("success-despite-%s:%s:%s" % (kind, shape.command, role))
    # (3) exact code for named causes
    if kind == "sw" and role in fl.ROLE_SOURCE:
        src = by_src[fl.ROLE_SOURCE[role]]
        excl = fl.ROLE_EXCLUDE.get(role)
        for name in named.get(sw, []):
            if name in src and name in fl.EXACT and not (excl and excl(name)):
                acc.count("exact_code_checks")
                want = fl.EXACT[name]
                if v1:
                    want = -2
                if code != want:
                    return bad("named-cause-wrong-code:%s:%s:%s:got%d" % (shape.command, role,
                                                                          name, code),
                               want=want)


def replay(case, acc):
    env.setup()
    named = named_sws()
    by_src = fl.firmware_errors_by_source()
    fw_all = {}
    shape = [s for s in fl.shapes(case["v1"]) if s.name == case["shape"]][0]
    docs = fl.documented_codes(case["v1"])
    base, exc, apdus, dev, out = run_cell(shape, {})
    if case["k"] is None:
        if exc is not None or (base or {}).get("errorcode") != shape.baseline:
            acc.violation("baseline-not-success:%s" % shape.name, {"reply": base}, case)
        return
    f = case["fault"]
    fault = Fault(f[0], sw=f[1], n=f[2], processed=f[3])
    if case.get("sgx_locked_repair"):
        return check_sgx_locked_repair(acc, shape, docs[shape.command])
    if case.get("platforms"):
        return check_platforms_agree(acc, shape, case["v1"], case["k"], case["role"], f[1])
    check_cell(acc, shape, case["v1"], case["k"], case["role"], fault, docs[shape.command], base,
               named, by_src, fw_all)
