# C10 - the PIN kept on disk always opens the device
#
# One history = a sequence of manager start-ups against one simulated device and
# one PIN file, with device answers, file-system failures and real process
# crashes (child process + os._exit) injected at event boundaries.  After every
# step the shadow state (device PIN, file bytes, default) is checked.
import os
import sys
import json
import time
import random
import shutil
import tempfile
import subprocess

from .. import env
from ..simdev.transport import Fault
from ..simdev.device import SimDevice, MODE_BOOTLOADER, pin_policy_ok

ID = "C10"
LEVEL = "fault_enumeration"
RULE = ("histories of manager start-ups over one simulated device + one PIN file: start "
        "{file present, absent, invalid, forced change} x platform {Ledger, SGX} x outcome "
        "injected at every exchange index of the change phase {refuse 0x69A0, other in-range "
        "status, out-of-range status, time-out, write error, read error, answer lost after the "
        "device processed it; SGX result bytes 0/2} x file-system failure at {open, write, "
        "close} x real process crash (child process, os._exit) at {before the new PIN is sent, "
        "after the device's ack before the file is opened, after the truncating open, after "
        "write before close, after close}, each followed by restarts (depth 2-3). On one "
        "logical clock the monitor checks: file written only after the device acked and with "
        "exactly that PIN; refused/failed change leaves file and device PIN untouched; generated "
        "PINs satisfy the policy (plus direct draws of generate_pin); any change attempt ends in "
        "HSM2ProtocolInterrupt; device PIN in {file PIN, default} at every quiescent point. "
        "distinct = (platform, start, injected outcome @ index, fs fault, crash point, depth)")
RULE_ADDED = (
              'Also: the PIN object is built the way manager_ledger.py / manager_sgx.py do '
              '(UserOptionParser command line, PIN environment variable); histories with a running '
              'manager (link fault, device back locked); SGX link faults in the shapes the dongle '
              'layer classifies; an entropy source that biases every drawing primitive towards '
              'digits '
              ' '
              'Round 8: histories whose repairing request comes from a client that has hung up '
              'by the time the reply is written. '
              ' '
              'Round 9: histories whose PIN file path is a symbolic link into another directory'
              ' (dangling when there is no PIN yet). '
              ' '
              'Round 10: PIN file paths spelled with ./, // and <symlinked directory>/..; scrat'
              'ch files on another file system than the temp directory in half the shards. '
              ' '
              'Round 11: fault-free histories (first change, forced changes, restarts) in a chi'
              'ld process that has given up root (uid 65534), when the check itself runs as roo'
              't. '
              ' '
              'Round 12: the request that runs into the repairing PIN change is of every comman'
              'd. '
              ' '
              'Round 13: PIN files whose name is as long as the file system allows; as an ordin'
              "ary user, a PIN file of one's own in a directory one cannot write to. "
              ' '
              'Round 14: the PIN file touched, rewritten, replaced, created or removed by someb'
              'ody else while a change is pending on a running manager. '
              ' '
              'Round 17: a uiHeartbeat after which the device is locked in the bootloader, with'
              ' a PIN change pending; running-manager histories on SGX. '
              ' '
              "Round 19: one answer of the Ledger change dialogue (a PIN byte's, the change com"
              "mand's) arriving late, alone and followed by a refusal of the change command. ")
RULE = RULE + " " + RULE_ADDED.strip()
ASSUMPTIONS = [
    "simulated device keeps its PIN in a state file written before it acknowledges (its NVM)",
    "crash points are the event boundaries the harness sees (device and file events)",
    "file-system failures are injected through a wrapped open() in ledger.pin's namespace",
]
FLOORS = {"quick": {"evaluations": 300, "pin_draws": 60000, "crash_children": 36,
                    "restarts": 300, "file_writes_checked": 100,
                    "adversarial_entropy_draws": 500,
                    "adversarial_characters_forced": 4000},
          "thorough": {"evaluations": 4000, "pin_draws": 2000000, "crash_children": 500,
                       "restarts": 6000, "file_writes_checked": 3000,
                       "adversarial_entropy_draws": 30000}}

DEFAULT_PIN = b"dflt1234"
CRASH_POINTS = ["before_send", "after_ack_before_open", "after_open_before_write",
                "after_write_before_close", "after_close"]


def shards(tier, seed):
    n = 16 if tier == "quick" else 32
    return [{"shard": i, "n": n, "tier": tier, "seed": seed} for i in range(n)]


# ------------------------------------------------------------------ one step --

class FileMon:
    """wrapped open() installed as ledger.pin.open: logs events on the bus clock,
    injects failures and crashes"""

    def __init__(self, bus, path, fs_fault=None, crash=None):
        self.bus = bus
        self.path = path
        self.fs_fault = fs_fault
        self.crash = crash

    def __call__(self, p, mode="r", *a, **kw):
        mon = self
        writing = "w" in mode or "a" in mode or "+" in mode
        if os.path.abspath(p) != os.path.abspath(self.path):
            return open(p, mode, *a, **kw)
        if writing:
            if self.crash == "after_ack_before_open":
                os._exit(137)
            if self.fs_fault == "open":
                self.bus.log("file_open_failed", mode=mode)
                raise OSError(13, "Permission denied (injected)")
        f = open(p, mode, *a, **kw)
        self.bus.log("file_open", mode=mode)

        class W:
            def __enter__(s):
                return s

            def __exit__(s, *exc):
                s.close()
                return False

            def read(s, *aa):
                return f.read(*aa)

            def write(s, data):
                if mon.crash == "after_open_before_write":
                    os._exit(137)
                if mon.fs_fault == "write":
                    mon.bus.log("file_write_failed")
                    raise OSError(28, "No space left on device (injected)")
                r = f.write(data)
                mon.bus.log("file_write", data=bytes(data))
                if mon.crash == "after_write_before_close":
                    os._exit(137)
                return r

            def close(s):
                if writing and mon.fs_fault == "close":
                    # the data never reaches the disk
                    try:
                        f.truncate(0)
                    except Exception:
                        pass
                    f.close()
                    mon.bus.log("file_close_failed")
                    raise OSError(5, "Input/output error (injected)")
                f.close()
                mon.bus.log("file_close")
                if writing and mon.crash == "after_close":
                    os._exit(137)
        return W()


def read_file(path):
    if not os.path.isfile(path):
        return None
    with open(path, "rb") as f:
        return f.read()


def run_step(step, path, device_pin, devstate_path=None):
    """one manager start-up. step: dict(platform, force, plan {idx: fault spec},
    sgx_result, fs_fault, crash).  Returns an observation dict."""
    from ..stack import Stack
    import ledger.pin as lp
    from ledger.pin import FileBasedPin, PinError
    from comm.protocol import HSM2ProtocolInterrupt, HSM2ProtocolError
    platform = step["platform"]
    dev = SimDevice(platform=platform, mode=MODE_BOOTLOADER, pin=device_pin,
                    newpin_result=step.get("sgx_result"))
    if platform == "sgx":
        dev.unlocked = False
    if step.get("running"):
        # the manager finds the device already unlocked and in the signer (a pending PIN
        # change stays pending); later the link fails, the device comes back locked in
        # the bootloader, and the next request's repair goes through unlock (+ change)
        dev.mode = 0x03
        dev.unlocked = True
    if devstate_path:
        orig_ev = dev.ev

        def ev(*a):
            if a and a[0] == "newpin":
                with open(devstate_path, "w") as f:
                    json.dump({"pin": a[1].hex()}, f)
                    f.flush()
                    os.fsync(f.fileno())
            orig_ev(*a)
        dev.ev = ev
    obs = {"outcome": None, "exc": None, "apdus": 0}
    file_before = read_file(path)

    class _P:
        pass
    with Stack(dev, pin=_P(), version_one=bool(step.get("v1"))) as s:
        # ledgerblue's TCP transport surfaces failures as socket errors, which the dongle
        # layer does not classify; here they come in the shapes it does classify
        s.bus.tcp_faults_as_hid = True
        mon = FileMon(s.bus, path, step.get("fs_fault"), step.get("crash"))
        lp.open = mon
        try:
            try:
                pin = load_pin_as_the_manager_does(platform, path, step.get("force", False))
            except PinError as e:
                obs["outcome"] = "pin_error"
                obs["exc"] = repr(e)
                pin = None
            if pin is not None:
                s.protocol.pin = pin
                if hasattr(s.protocol, "protocol_v2"):
                    s.protocol.protocol_v2.pin = pin     # (legacy mode delegates to it)
                plan = {}
                for k, f in (step.get("plan") or {}).items():
                    plan[int(k)] = Fault(f[0], sw=f[1], processed=f[2])
                s.bus.arm(plan)
                if step.get("crash") == "before_send":
                    def hook(bus, apdu, dev=dev):
                        # first APDU of the change phase: a PIN byte / change command
                        # after the device was unlocked
                        if dev.unlocked and apdu[1] in (0x41, 0x08, 0xA5):
                            os._exit(137)
                    s.bus.exchange_hook = hook
                try:
                    s.initialize()
                    obs["outcome"] = "served"
                    if step.get("running"):
                        obs["outcome"] = running_phase(s, dev, step, platform, path)
                except HSM2ProtocolInterrupt:
                    obs["outcome"] = "interrupt"
                except HSM2ProtocolError as e:
                    obs["outcome"] = "protocol_error"
                    obs["exc"] = repr(e)
                except BaseException as e:   # noqa
                    if isinstance(e, (KeyboardInterrupt, SystemExit)):
                        raise
                    obs["outcome"] = "other:%s" % type(e).__name__
                    obs["exc"] = repr(e)
        finally:
            del lp.open
        evs = s.bus.events
        obs["events"] = [(e["t"], e["ev"], e.get("mode"), e.get("data"),
                          e["apdu"][1] if e["ev"] == "apdu" and e["apdu"] else None,
                          e.get("sw"), e.get("fault")) for e in evs]
        obs["dev_log"] = list(dev.log)
        obs["device_pin"] = dev.pin
        if getattr(s, "outside_file", None):
            # (what the file held after somebody else handled it, before the change)
            file_before = s.outside_file[1]
            obs["outside"] = step.get("outside")
        obs["file_before"] = file_before
        obs["file_after"] = read_file(path)
        obs["apdus"] = len(s.bus.apdus())
        # bytes of new PINs put on the wire (Ledger: length-prefixed via SEND_PIN)
        obs["new_pin_sent"] = new_pin_on_wire(s.bus.apdus(), platform)
        obs["ack_tick"] = None
        for e in evs:
            pass
        # tick at which the device accepted a new PIN
        obs["acked"] = [a[1] for a in dev.log if a and a[0] == "newpin"]
    return obs


def running_phase(s, dev, step, platform, path=None):
    """requests against the started manager: one hit by a link fault, then (device back
    in the bootloader, locked) two more.  -> 'served' if the manager is still answering
    requests at the end, 'interrupt' if it shut down"""
    from comm.server import RequestHandlerShutdown
    req = {"command": "getPubKey", "version": 1 if step.get("v1") else 5,
           "keyId": "m/44'/0'/0'/0/0"}
    if step.get("request_kind") is not None:
        # the requests that run into the repair are of any command (each handler calls
        # the reconnection itself, inside its own error handling)
        from . import c02
        pool = [v for k_, v in sorted(c02.bases(random.Random(step["request_kind"]),
                                                bool(step.get("v1"))).items())
                if k_ not in ("version", "uiHeartbeat")]
        req = pool[step["request_kind"] % len(pool)]
    if step["running"] == "uihb":
        # no link failure at all: a uiHeartbeat after which the device shows up locked in
        # the bootloader instead of back in the signer.  Whatever the manager does about
        # that, a PIN change it attempts stops it
        from ..gen import der as _der
        dev.uihb = {"signature": _der.make_sig(random.Random(7), "normal")[0],
                    "message": b"HSM:UI:HB:" + bytes(40), "tweak": bytes(32), "pubkey": bytes(65)}
        dev.cfg["hb_back_mode"] = MODE_BOOTLOADER
        r1, e1, _ = s.request({"command": "uiHeartbeat", "version": 5, "udValue": "22" * 32})
        if isinstance(e1, RequestHandlerShutdown):
            return "interrupt"
        if e1 is not None:
            return "other:%s" % type(e1).__name__
        dev.cfg["hb_back_mode"] = None
        for _ in range(2):
            r, e, _ = s.request(req)
            if isinstance(e, RequestHandlerShutdown):
                return "interrupt"
            if e is not None:
                return "other:%s" % type(e).__name__
        return "served"
    s.bus.arm({0: Fault(step["running"])})
    r1, e1, _ = s.request(req)
    s.bus.arm({})
    if isinstance(e1, RequestHandlerShutdown):
        return "interrupt"
    dev.mode = MODE_BOOTLOADER
    dev.unlocked = False
    dev.pending_link = None
    if step.get("outside") and path is not None:
        how = step["outside"]
        cur = read_file(path)
        if how == "touch" and cur is not None:
            os.utime(path, ns=(time.time_ns() + 10**9, time.time_ns() + 10**9))
        elif how == "rewrite-same" and cur is not None:
            with open(path, "wb") as f:
                f.write(cur)
            os.utime(path, ns=(time.time_ns() + 2 * 10**9, time.time_ns() + 2 * 10**9))
        elif how == "replace-same" and cur is not None:
            with open(path + ".new", "wb") as f:
                f.write(cur)
            os.replace(path + ".new", path)
        elif how == "create" and cur is None:
            with open(path, "wb") as f:
                f.write(dev.pin)
        elif how == "remove" and cur is not None and not os.path.islink(path):
            os.unlink(path)
        s.outside_file = ("set", read_file(path))
    last = None
    for _ in range(2):
        # (client_gone: the client of these requests has hung up by the time the manager
        # writes its reply - the manager's course does not depend on that)
        r, e, _ = s.request(req, client_gone=bool(step.get("client_gone")))
        if isinstance(e, RequestHandlerShutdown):
            return "interrupt"
        if e is not None:
            return "other:%s" % type(e).__name__
        last = r
    # still answering requests (whatever the result code): the manager carried on
    return "served"


def load_pin_as_the_manager_does(platform, path, force, default=None):
    """the PIN object as manager_ledger.py / manager_sgx.py build it: command line parsed
    by user.options.UserOptionParser (-P <file>, -X), default PIN from the environment"""
    import importlib
    from user.options import UserOptionParser
    mod = importlib.import_module("manager_sgx" if platform == "sgx" else "manager_ledger")
    argv = [mod.__name__ + ".py", "-P", path] + (["-X"] if force else [])
    saved_argv, saved_pin = sys.argv, os.environ.get("PIN")
    sys.argv = argv
    os.environ["PIN"] = (default or DEFAULT_PIN).decode()
    try:
        if platform == "sgx":
            opts = UserOptionParser("mgr", with_pin=True, with_tcpconn=True, host_name="SGX",
                                    default_tcpconn_port=7777).parse()
        else:
            opts = UserOptionParser("mgr", with_pin=True).parse()
        return mod.load_pin(opts)
    finally:
        sys.argv = saved_argv
        if saved_pin is None:
            os.environ.pop("PIN", None)
        else:
            os.environ["PIN"] = saved_pin


def new_pin_on_wire(apdus, platform):
    """the PIN(s) the manager tried to set, reassembled from the APDUs"""
    out = []
    if platform == "sgx":
        for e in apdus:
            if e["apdu"] and e["apdu"][1] == 0xA5:
                out.append(bytes(e["apdu"][3:]))
        return out
    after_unlock = False
    buf = {}
    for e in apdus:
        a = e["apdu"]
        if not a:
            continue
        if a[1] == 0xFE:
            after_unlock = True
            buf = {}
        elif after_unlock and a[1] == 0x41 and len(a) >= 4:
            buf[a[2]] = a[3]
        elif after_unlock and a[1] == 0x08:
            n = buf.get(0, 0)
            out.append(bytes(buf.get(i, 0) for i in range(1, 1 + n)))
    if after_unlock and buf and not out:
        n = buf.get(0, 0)
        out.append(bytes(buf.get(i, 0) for i in range(1, 1 + n) if i in buf))
    return out


# ------------------------------------------------------------------ monitor --

def check_step(acc, case, si, step, obs, shadow):
    """shadow: dict(device_pin, file, default).  Returns False on violation."""
    def bad(mech, **d):
        d.update(step=si, platform=step["platform"], outcome=obs["outcome"],
                 plan=step.get("plan"), fs_fault=step.get("fs_fault"),
                 crash=step.get("crash"), sgx_result=step.get("sgx_result"),
                 file_before=obs["file_before"], file_after=obs["file_after"],
                 device_pin=obs["device_pin"], acked=obs.get("acked"))
        acc.violation(mech, d, case)
        return False
    ok = True
    evs = obs["events"]
    acked = obs["acked"]
    # device PIN can only have become an acked one
    writes = [e for e in evs if e[1] == "file_write"]
    wopens = [e for e in evs if e[1] in ("file_open", "file_open_failed") and e[2] and
              "w" in e[2]]
    # I1: file opened for writing only after the ack, and holds exactly that PIN
    if wopens:
        acc.count("file_writes_checked")
        ack_ticks = [e[0] for e in evs if e[1] == "apdu" and e[4] in (0x08, 0xA5) and
                     e[5] == 0x9000 and e[6] is None]
        if not acked:
            ok = bad("I1:file-opened-for-writing-without-device-ack")
        elif not ack_ticks or min(w[0] for w in wopens) < min(ack_ticks):
            ok = bad("I1:file-opened-before-device-ack")
        for w in writes:
            if not acked or w[3] != acked[-1]:
                ok = bad("I1:file-written-with-other-than-acked-pin", written=w[3])
        if obs["file_after"] != obs["file_before"] and obs["file_after"] not in (b"", None):
            if not acked or obs["file_after"] != acked[-1]:
                ok = bad("I1:file-content-not-acked-pin")
    elif obs["file_after"] != obs["file_before"]:
        ok = bad("I1:file-changed-without-write-event")
    # I2: a change the device did not accept leaves file and device PIN untouched
    if not acked:
        if obs["file_after"] != obs["file_before"]:
            ok = bad("I2:file-changed-although-device-did-not-accept")
        if obs["device_pin"] != shadow["device_pin"]:
            ok = bad("I2:device-pin-changed-without-ack")
    # I3: every PIN the manager tried to set satisfies the policy
    for p in obs["new_pin_sent"]:
        acc.count("pins_on_wire_checked")
        full = (step["platform"] == "sgx") or len(p) == 8
        if full and not pin_policy_ok(p):
            ok = bad("I3:generated-pin-violates-policy", pin=p)
    # I4: after any change attempt the manager stops
    attempted = bool(obs["new_pin_sent"]) or any(a and a[0] in ("newpin", "newpin_refused")
                                                 for a in obs["dev_log"])
    if attempted and obs["outcome"] == "served":
        ok = bad("I4:served-after-pin-change-attempt")
    if attempted and obs["outcome"] not in ("interrupt", "served", None):
        # any stop is acceptable for the statement; recorded
        acc.count("change_attempt_stopped_by_%s" % obs["outcome"].split(":")[0])
    return ok


def classify_lost(step, obs):
    """mechanism name for an unrecoverable PIN, by what was injected and observed.
    Only the windows between the device's acknowledgement and the file being
    durable are known findings; anything else comes out under another name."""
    acked = bool(obs.get("acked"))
    if step.get("crash"):
        return "I5:pin-lost:%s:crash:%s" % ("device-acked" if acked else "no-ack",
                                            step["crash"])
    if step.get("fs_fault"):
        return "I5:pin-lost:%s:file-%s-failed" % ("device-acked" if acked else "no-ack",
                                                  step["fs_fault"])
    plan = step.get("plan") or {}
    for k, f in plan.items():
        # (a late answer is a time-out to the host, of an exchange the device did process)
        if ((f[2] and f[0] in ("read_error", "timeout")) or f[0] == "late") and acked:
            # which command's answer was lost
            cmds = [e[4] for e in obs["events"] if e[1] == "apdu"]
            cmd = cmds[int(k)] if int(k) < len(cmds) else None
            if cmd in (0x08, 0xA5):
                return "I5:pin-lost:device-accepted-change-but-answer-lost-on-link"
    return "I5:pin-lost:unexplained"


def check_recoverable(acc, case, si, step, obs, path):
    fpin = read_file(path)
    dpin = obs["device_pin"]
    candidates = {DEFAULT_PIN}
    if fpin is not None:
        candidates.add(fpin.strip())
    acc.count("recoverability_checks")
    if dpin not in candidates:
        acc.violation(classify_lost(step, obs),
                      {"step": si, "device_pin": dpin, "file": fpin, "default": DEFAULT_PIN,
                       "platform": step["platform"], "crash": step.get("crash"),
                       "fs_fault": step.get("fs_fault"), "plan": step.get("plan")}, case)
        return False
    return True


# ------------------------------------------------------------------ histories --

def learn_indexes(platform, start, tmpdir):
    """fault-free run: exchange indexes of the change phase"""
    path = os.path.join(tmpdir, "learn-pin.txt")
    if os.path.exists(path):
        os.unlink(path)
    if start == "forced":
        with open(path, "wb") as f:
            f.write(b"file5678")
    dpin = b"file5678" if start == "forced" else DEFAULT_PIN
    obs = run_step({"platform": platform, "force": start == "forced"}, path, dpin)
    idx = []
    seen_unlock = False
    i = -1
    for e in obs["events"]:
        if e[1] != "apdu":
            continue
        i += 1
        if e[4] in (0xFE, 0xA3):
            seen_unlock = True
            continue
        if seen_unlock and e[4] in (0x41, 0x08, 0xA5):
            idx.append((i, e[4]))
    os.unlink(path) if os.path.exists(path) else None
    return idx


def gen_histories(spec, tmpdir):
    rng = random.Random(spec["seed"] * 6151 + spec["shard"])
    thorough = spec["tier"] == "thorough"
    cases = []
    for platform in ("ledger", "sgx"):
        for start in ("absent", "forced", "present", "invalid"):
            if start in ("present", "invalid"):
                cases.append({"platform": platform, "start": start, "steps": [
                    {"platform": platform}, {"platform": platform}]})
                continue
            idx = learn_indexes(platform, start, tmpdir)
            outcomes = [("sw", 0x69A0, False), ("sw", 0x6A99, False), ("sw", 0x6E00, False),
                        ("sw", 0x6BF2, False), ("timeout", None, False),
                        ("timeout", None, True), ("write_error", None, False),
                        ("read_error", None, False), ("read_error", None, True)]
            force = (start == "forced")
            for (i, cmd) in idx:
                for o in outcomes:
                    # (on SGX these are reported the way the HID transport reports them:
                    # see run_step)
                    cases.append({"platform": platform, "start": start, "steps": [
                        {"platform": platform, "force": force, "plan": {str(i): list(o)}},
                        {"platform": platform, "force": force},
                        {"platform": platform}]})
            if platform == "ledger":
                # the answer to one exchange of the change dialogue arrives after the host
                # has given up on it (it is still there when the next answer is read) - alone,
                # and followed by a device that turns the change down: whatever is read in
                # whatever order, the file never holds a PIN the device did not take
                pin_bytes = [i for (i, cmd) in idx if cmd == 0x41]
                change = [i for (i, cmd) in idx if cmd == 0x08]
                picks = sorted(set(pin_bytes[:2] + pin_bytes[-2:] +
                                   rng.sample(pin_bytes, min(2, len(pin_bytes)))))
                for i in picks + change:
                    cases.append({"platform": platform, "start": start, "steps": [
                        {"platform": platform, "force": force,
                         "plan": {str(i): ["late", None, False]}},
                        {"platform": platform, "force": force}, {"platform": platform}]})
                    for j in change:
                        if j <= i:
                            continue
                        for sw in (0x69A0, 0x6A99):
                            cases.append({"platform": platform, "start": start, "steps": [
                                {"platform": platform, "force": force,
                                 "plan": {str(i): ["late", None, False],
                                          str(j): ["sw", sw, False]}},
                                {"platform": platform, "force": force},
                                {"platform": platform}]})
            if platform == "sgx":
                for rb in (0, 2, 255):
                    cases.append({"platform": platform, "start": start, "steps": [
                        {"platform": platform, "force": force, "sgx_result": rb},
                        {"platform": platform, "force": force}, {"platform": platform}]})
            for fsf in ("open", "write", "close"):
                cases.append({"platform": platform, "start": start, "steps": [
                    {"platform": platform, "force": force, "fs_fault": fsf},
                    {"platform": platform, "force": force}, {"platform": platform}]})
            for cp in CRASH_POINTS:
                cases.append({"platform": platform, "start": start, "steps": [
                    {"platform": platform, "force": force, "crash": cp},
                    {"platform": platform, "force": force}, {"platform": platform}]})
            # a completed change, then a crash inside a later forced change
            for cp in CRASH_POINTS:
                cases.append({"platform": platform, "start": start, "steps": [
                    {"platform": platform, "force": force},
                    {"platform": platform, "force": True, "crash": cp},
                    {"platform": platform}]})
            # manager started on an unlocked device with the change pending; link fault,
            # device back in the bootloader: the repair performs the change
            for lk in ("read_error", "write_error"):
                # (on SGX the link failure comes in the shapes the dongle layer classifies:
                # run_step sets tcp_faults_as_hid)
                cases.append({"platform": platform, "start": start, "steps": [
                    {"platform": platform, "force": force, "running": lk},
                    {"platform": platform}]})
                # the same with the manager in legacy (--version-one) mode
                cases.append({"platform": platform, "start": start, "steps": [
                    {"platform": platform, "force": force, "running": lk, "v1": True},
                    {"platform": platform, "v1": True}]})
                cases.append({"platform": platform, "start": start, "steps": [
                    {"platform": platform, "force": force, "running": lk, "fs_fault": "write"},
                    {"platform": platform}]})
                # the same with every other command as the one that runs into the repair
                for rk in range(11):
                    cases.append({"platform": platform, "start": start, "steps": [
                        {"platform": platform, "force": force, "running": lk,
                         "request_kind": rk},
                        {"platform": platform}]})
                # the same, and somebody handles the PIN file while the manager is running
                # with the change pending (touches it, rewrites it with what it holds,
                # replaces it by a copy; writes the device's current PIN into a missing one;
                # removes it): the change that follows ends with the new PIN on disk
                for outside in (("touch", "rewrite-same", "replace-same", "remove")
                                if start != "absent" else ("create",)):
                    cases.append({"platform": platform, "start": start, "steps": [
                        {"platform": platform, "force": force, "running": lk,
                         "outside": outside},
                        {"platform": platform}]})
                # the same, and the client whose request triggers the repair has hung up
                # by the time the reply is written
                cases.append({"platform": platform, "start": start, "steps": [
                    {"platform": platform, "force": force, "running": lk, "client_gone": True},
                    {"platform": platform}]})
                cases.append({"platform": platform, "start": start, "steps": [
                    {"platform": platform, "force": force, "running": lk, "client_gone": True,
                     "v1": True},
                    {"platform": platform, "v1": True}]})
            if platform == "ledger":
                # manager running with the change pending; a uiHeartbeat after which the
                # device is found locked in the bootloader
                cases.append({"platform": platform, "start": start, "steps": [
                    {"platform": platform, "force": force, "running": "uihb"},
                    {"platform": platform}]})
            # fault-free change followed by restarts (incl. another forced change)
            for link in (False, True):
                cases.append({"platform": platform, "start": start, "link": link, "steps": [
                    {"platform": platform, "force": force}, {"platform": platform},
                    {"platform": platform, "force": True}, {"platform": platform}]})
            for sp in ("dot", "double-slash", "through-a-symlinked-directory", "longest-name"):
                cases.append({"platform": platform, "start": start, "spelling": sp, "steps": [
                    {"platform": platform, "force": force}, {"platform": platform},
                    {"platform": platform, "force": True}, {"platform": platform}]})
    # sampled deeper histories
    extra = 60 if not thorough else 6000
    for _ in range(extra):
        platform = rng.choice(["ledger", "sgx"])
        start = rng.choice(["absent", "forced"])
        steps = []
        for d in range(rng.randint(2, 3)):
            st = {"platform": platform, "force": rng.random() < 0.5 or (d == 0 and
                                                                        start == "forced")}
            r = rng.random()
            if r < 0.3:
                st["fs_fault"] = rng.choice(["open", "write", "close"])
            elif r < 0.6:
                base = 13 if platform == "ledger" else 7
                k = rng.randrange(base, base + 12)
                o = rng.choice([("sw", 0x69A0, False), ("sw", 0x6A99, False),
                                ("read_error", None, False), ("read_error", None, True)])
                st["plan"] = {str(k): list(o)}
            elif r < 0.68 and thorough:
                st["crash"] = rng.choice(CRASH_POINTS)
            steps.append(st)
        steps.append({"platform": platform})
        lk = rng.random() < 0.3
        cases.append({"platform": platform, "start": start, "steps": steps, "link": lk,
                      "spelling": None if lk or rng.random() < 0.7 else rng.choice(
                          ["dot", "double-slash", "through-a-symlinked-directory",
                           "longest-name"])})
    mine = [c for i, c in enumerate(cases) if i % spec["n"] == spec["shard"]]
    if not thorough:
        # quick: all in-process cases, crash cases limited per shard
        crash = [c for c in mine if any(s.get("crash") for s in c["steps"])]
        other = [c for c in mine if not any(s.get("crash") for s in c["steps"])]
        mine = other + crash
    return mine


def run_history(acc, case, tmpdir):
    path = os.path.join(tmpdir, "pin.txt")
    devstate = os.path.join(tmpdir, "device.json")
    real = os.path.join(tmpdir, "store", "pin-real.txt")
    spelled = case.get("spelling")
    if spelled == "dot":
        path = os.path.join(tmpdir, ".", "pin.txt")
    elif spelled == "double-slash":
        path = tmpdir + "//pin.txt"
    elif spelled == "through-a-symlinked-directory":
        # .../conf/../store2/pin.txt where conf is a link to mounts/secrets/current: for
        # the system this is mounts/secrets/store2/pin.txt - whereas dropping "conf/.."
        # from the text would name store2/pin.txt next to conf (which exists too)
        for d_ in ("mounts/secrets/current", "mounts/secrets/store2", "store2"):
            os.makedirs(os.path.join(tmpdir, d_), exist_ok=True)
        if not os.path.lexists(os.path.join(tmpdir, "conf")):
            os.symlink(os.path.join("mounts", "secrets", "current"), os.path.join(tmpdir, "conf"))
        path = os.path.join(tmpdir, "conf", "..", "store2", "pin.txt")
        decoy = os.path.join(tmpdir, "store2", "pin.txt")
        if os.path.lexists(decoy):
            os.unlink(decoy)
    elif spelled == "longest-name":
        # a file name as long as the file system takes (or nearly): nothing longer than it
        # can be created next to it
        import zlib
        n_ = 255 - zlib.crc32(json.dumps(case["steps"], sort_keys=True).encode()) % 4
        path = os.path.join(tmpdir, "p" * (n_ - 4) + ".txt")
    if case.get("dir") == "not-writable":
        # the PIN file is the user's, the directory it lives in is not (/etc/powhsm owned
        # by root): the file can be rewritten, nothing can be created or removed beside it
        path = os.path.join(case["_rodir"], "pin.txt")
        acc.count("histories_with_a_pin_file_in_a_directory_that_is_not_writable")
    if any(st_.get("outside") for st_ in case["steps"]):
        acc.count("histories_with_the_pin_file_handled_by_somebody_else_while_running")
    if spelled:
        acc.count("histories_with_a_pin_path_spelled_" + spelled.replace("-", "_"))
    for p in (path, devstate, real):
        if os.path.lexists(p) and not (p == path and case.get("dir") == "not-writable"):
            os.unlink(p)
    if case.get("link"):
        # the configured PIN file is a symbolic link into another directory (a mounted
        # secrets volume): dangling when there is no PIN yet
        os.makedirs(os.path.dirname(real), exist_ok=True)
        os.symlink(real, path)
        acc.count("histories_with_a_symlinked_pin_file")
    start = case["start"]
    device_pin = DEFAULT_PIN
    if start in ("present", "forced"):
        with open(path, "wb") as f:
            f.write(b"file5678")
        device_pin = b"file5678"
    elif start == "invalid":
        with open(path, "wb") as f:
            f.write(b"12345678")    # digits only: not a valid PIN
        device_pin = DEFAULT_PIN
    acc.evaluations += 1
    desc = []
    for si, step in enumerate(case["steps"]):
        shadow = {"device_pin": device_pin, "file": read_file(path)}
        if step.get("crash"):
            obs = run_crash_child(step, path, device_pin, devstate, tmpdir)
            acc.count("crash_children")
            if obs is None:
                acc.notes.append("crash point %s not reached" % step["crash"])
                acc.count("crash_point_not_reached")
                obs = run_step(dict(step, crash=None), path, device_pin)
                ok = check_step(acc, case, si, step, obs, shadow)
            else:
                ok = True
                # after a crash only durable state can be judged
                if obs["file_after"] != shadow["file"] and not obs["acked"] and \
                        obs["file_after"] not in (None,):
                    acc.violation("I1:file-changed-before-ack-at-crash",
                                  {"crash": step["crash"], "file": obs["file_after"]}, case)
                    ok = False
        else:
            obs = run_step(step, path, device_pin)
            ok = check_step(acc, case, si, step, obs, shadow)
        if si > 0:
            acc.count("restarts")
        desc.append("%s%s%s%s->%s" % (
            "force " if step.get("force") else "",
            "fs:%s " % step["fs_fault"] if step.get("fs_fault") else "",
            "crash:%s " % step["crash"] if step.get("crash") else "",
            "fault:%s " % step["plan"] if step.get("plan") else "", obs["outcome"]))
        device_pin = obs["device_pin"]
        if start == "invalid" and si == 0:
            if obs["outcome"] != "pin_error" or obs["apdus"]:
                acc.violation("invalid-pin-file-not-refused", {"obs": obs["outcome"]}, case)
        if not check_recoverable(acc, case, si, step, obs, path):
            break     # a lost PIN stays lost: the rest of the history adds nothing
        if not ok:
            break
    first = case["steps"][0]
    acc.distinct.add("%s|%s|%s|%s|%s|%d" % (
        case["platform"], case["start"], json.dumps(first.get("plan"), sort_keys=True),
        first.get("fs_fault"), first.get("crash"), len(case["steps"])))
    if len(acc.samples) < 3:
        acc.sample({"platform": case["platform"], "start": case["start"], "history": desc})


def run_crash_child(step, path, device_pin, devstate, tmpdir):
    """runs the step in a child process that really dies at the crash point;
    returns an observation from durable state only (None: crash point not hit)"""
    if os.path.exists(devstate):
        os.unlink(devstate)
    spec = {"step": step, "path": path, "device_pin": device_pin.hex(), "devstate": devstate}
    envv = dict(os.environ, PYTHONHASHSEED="0", PYTHONDONTWRITEBYTECODE="1")
    r = subprocess.run([sys.executable, "-m", "pv.props.c10", "--child", json.dumps(spec)],
                       cwd=env.VERIF, env=envv, capture_output=True, timeout=120)
    if r.returncode != 137:
        return None
    dpin = device_pin
    acked = []
    if os.path.exists(devstate):
        with open(devstate) as f:
            dpin = bytes.fromhex(json.load(f)["pin"])
        acked = [dpin]
    return {"outcome": "crashed", "device_pin": dpin, "acked": acked,
            "file_after": read_file(path), "file_before": None, "apdus": None,
            "events": [], "dev_log": [], "new_pin_sent": []}


def pin_draws(acc, n):
    from ledger.pin import BasePin
    fn = BasePin.generate_pin
    try:
        import icontract

        class PolicyBroken(Exception):
            pass

        def result_ok(result):
            return isinstance(result, bytes) and pin_policy_ok(result)
        checked = icontract.ensure(result_ok, error=PolicyBroken)(BasePin.generate_pin.__func__)
        fn = lambda: checked(BasePin)    # noqa
        acc.count("icontract_postcondition_used")
    except ImportError:
        pass
    seen_digit_start = 0
    for _ in range(n):
        try:
            p = fn()
        except Exception as e:
            acc.violation("I3:generate_pin-postcondition:%s" % type(e).__name__,
                          {"exc": repr(e)[:300]}, {"kind": "draw"})
            return
        acc.count("pin_draws")
        if not (isinstance(p, bytes) and pin_policy_ok(p)):
            acc.violation("I3:generated-pin-violates-policy", {"pin": p}, {"kind": "draw"})
            return
        if p[:1].isdigit():
            seen_digit_start += 1
    acc.count("draws_starting_with_digit", seen_digit_start)


class AdversarialRandom:
    """stands in for the `random` module inside ledger.pin.  For the first `budget`
    characters every way of drawing from the PIN alphabet lands on a digit - choice,
    choices, sample, an index drawn with randrange / randint / random() for a population
    of 62 - after that a seeded generator takes over.  The generator under test must keep
    going until the policy holds, whichever primitive it uses."""
    DIGITS = "0123456789"

    def __init__(self, budget, seed):
        self._inner = random.Random(seed)
        self.budget = budget
        self.scripted = 0

    def __getattr__(self, name):        # anything else: the seeded generator's
        return getattr(self._inner, name)

    def seed(self, *a, **kw):
        if a or kw:
            self._inner.seed(*a, **kw)  # (random.seed() in generate_pin keeps the script)

    def _take(self):
        if self.budget > 0:
            self.budget -= 1
            self.scripted += 1
            return self._inner.choice(self.DIGITS)
        return None

    def choice(self, seq):
        if isinstance(seq, str) and any(c in seq for c in self.DIGITS):
            d = self._take()
            if d is not None and d in seq:
                return d
        return self._inner.choice(seq)

    def choices(self, population, weights=None, *, cum_weights=None, k=1):
        if isinstance(population, str) and all(c in population for c in self.DIGITS):
            return [self.choice(population) for _ in range(k)]
        return self._inner.choices(population, weights, cum_weights=cum_weights, k=k)

    def sample(self, population, k, *, counts=None):
        if isinstance(population, str) and all(c in population for c in self.DIGITS) and \
                k <= 10 and self.budget >= k:
            self.budget -= k
            self.scripted += k
            return self._inner.sample(self.DIGITS, k)
        return self._inner.sample(population, k, counts=counts)

    def _index62(self):
        d = self._take()
        return None if d is None else 52 + int(d)      # ascii_letters + digits

    def randrange(self, start, stop=None, step=1):
        if stop is None and step == 1 and start == 62:
            i = self._index62()
            if i is not None:
                return i
        return self._inner.randrange(start, stop, step)

    def randint(self, a, b):
        if (a, b) == (0, 61):
            i = self._index62()
            if i is not None:
                return i
        return self._inner.randint(a, b)

    def random(self):
        i = self._index62()
        if i is not None:
            return (i + 0.5) / 62
        return self._inner.random()


def adversarial_entropy(acc, n, seed):
    """entropy that makes the first candidate(s) all digits: the generator must
    keep drawing until the policy holds"""
    import ledger.pin as lp
    rng = random.Random(seed)
    for i in range(n):
        budget = rng.choice([8, 9, 10, 16, 17, 24, rng.randint(8, 40)])
        fake = AdversarialRandom(budget, rng.getrandbits(32))
        saved = lp.random
        lp.random = fake
        try:
            p = lp.BasePin.generate_pin()
        finally:
            lp.random = saved
        acc.count("adversarial_entropy_draws")
        acc.count("adversarial_characters_forced", fake.scripted)
        if not (isinstance(p, bytes) and pin_policy_ok(p)):
            acc.violation("I3:generated-pin-violates-policy:all-digit-candidate-accepted",
                          {"pin": p, "budget": budget}, {"kind": "entropy", "seed": seed})
            return


def run_shard(spec, acc):
    env.setup()
    if spec.get("shard", spec.get("seed", 0)) % 4 >= 2 and env.on_other_fs():
        acc.count("shards_with_files_on_another_file_system_than_the_temp_directory")
    adversarial_entropy(acc, 50 if spec["tier"] == "quick" else 2000,
                        spec["seed"] * 31 + spec["shard"])
    tmpdir = env.mkdtemp("c10", spec.get("shard", spec.get("seed", 0)) % 2 == 1,
                         other_fs=spec.get("shard", spec.get("seed", 0)) % 4 >= 2)
    try:
        for case in gen_histories(spec, tmpdir):
            run_history(acc, case, tmpdir)
        if spec["shard"] % 4 == 1:
            unprivileged_histories(acc, spec)
        pin_draws(acc, 5000 if spec["tier"] == "quick" else 70000)
    finally:
        shutil.rmtree(tmpdir, ignore_errors=True)


def unprivileged_histories(acc, spec):
    """the manager does not run as root in production (its containers and services run it
    as an ordinary user, for whom permission bits count).  Fault-free histories - first
    change, forced change, restarts - in a child process that has given up root, on files
    of its own: what one run leaves behind, the next must be able to work with."""
    if os.getuid() != 0:
        acc.count("unprivileged_histories_skipped_not_root")
        return
    cases = []
    for platform in ("ledger", "sgx"):
        for start in ("absent", "forced"):
            cases.append({"platform": platform, "start": start, "steps": [
                {"platform": platform, "force": start == "forced"}, {"platform": platform},
                {"platform": platform, "force": True}, {"platform": platform},
                {"platform": platform, "force": True}, {"platform": platform}]})
        cases.append({"platform": platform, "start": "forced", "spelling": "longest-name",
                      "steps": [{"platform": platform, "force": True}, {"platform": platform},
                                {"platform": platform, "force": True}, {"platform": platform}]})
        cases.append({"platform": platform, "start": "forced", "dir": "not-writable",
                      "steps": [{"platform": platform, "force": True}, {"platform": platform},
                                {"platform": platform, "force": True}, {"platform": platform}]})
    r = _run_unprivileged(cases)
    try:
        res = json.loads(r.stdout.decode().strip().splitlines()[-1])
    except Exception:
        acc.notes.append("unprivileged child gave no result: rc=%s %s" % (
            r.returncode, r.stderr.decode(errors="replace")[-300:]))
        return
    acc.count("histories_run_without_root", res["histories"])
    for k_, v_ in res.get("counters", {}).items():
        acc.count(k_.replace("histories_with", "histories_without_root_with"), v_)
    acc.evaluations += res["evaluations"]
    for v in res["violations"]:
        acc.violation(v["mech"] + ":as-an-ordinary-user", v["detail"],
                      dict(v["case"] or {}, unprivileged=True))


def _run_unprivileged(cases):
    envv = dict(os.environ, PYTHONHASHSEED="0", PYTHONDONTWRITEBYTECODE="1")
    base = tempfile.mkdtemp(prefix="pv-c10-root-owned-")
    os.chmod(base, 0o755)
    try:
        return subprocess.run([sys.executable, "-m", "pv.props.c10", "--unprivileged",
                               json.dumps(cases), base], cwd=env.VERIF, env=envv,
                              capture_output=True, timeout=600)
    finally:
        shutil.rmtree(base, ignore_errors=True)


def unprivileged_main(argv):
    """child: drop root, then run the histories on a directory of our own"""
    from ..run import Acc
    cases = json.loads(argv[0])
    env.setup()
    for k_, case in enumerate(cases):
        if case.get("dir") == "not-writable":
            # (made while still root: root's directory, the user's file)
            d_ = os.path.join(argv[1], "etc-powhsm-%d" % k_)
            os.mkdir(d_, 0o755)
            with open(os.path.join(d_, "pin.txt"), "wb") as f:
                f.write(b"file5678")
            os.chown(os.path.join(d_, "pin.txt"), 65534, 65534)
            os.chmod(os.path.join(d_, "pin.txt"), 0o600)
            case["_rodir"] = d_
    # (the interpreter lives under root's home in this sandbox: everything is imported by a
    # throw-away run before root is given up)
    warm = tempfile.mkdtemp(prefix="pv-c10-warm-")
    try:
        run_history(Acc(), cases[0], warm)
    finally:
        shutil.rmtree(warm, ignore_errors=True)
    os.setgroups([])
    os.setgid(65534)
    os.setuid(65534)
    acc = Acc()
    tmpdir = tempfile.mkdtemp(prefix="pv-c10-user-")
    try:
        for case in cases:
            run_history(acc, case, tmpdir)
    finally:
        shutil.rmtree(tmpdir, ignore_errors=True)
    print(json.dumps({"histories": len(cases), "evaluations": acc.evaluations,
                      "counters": {k: v for k, v in acc.counters.items()
                                   if k.startswith("histories_with")},
                      "violations": acc.to_json()["violations"]}))
    return 0


def replay(case, acc):
    env.setup()
    if case.get("unprivileged"):
        case = {k: v for k, v in case.items() if k != "unprivileged"}
        return unprivileged_histories_replay(acc, case)
    if case.get("kind") == "draw":
        return pin_draws(acc, 200000)
    if case.get("kind") == "entropy":
        return adversarial_entropy(acc, 2000, case["seed"])
    tmpdir = env.mkdtemp("c10")
    try:
        run_history(acc, case, tmpdir)
    finally:
        shutil.rmtree(tmpdir, ignore_errors=True)


def unprivileged_histories_replay(acc, case):
    case = {k: v for k, v in case.items() if k != "_rodir"}
    r = _run_unprivileged([case])
    res = json.loads(r.stdout.decode().strip().splitlines()[-1])
    for v in res["violations"]:
        acc.violation(v["mech"] + ":as-an-ordinary-user", v["detail"], v["case"])


def child_main(argv):
    spec = json.loads(argv[0])
    env.setup()
    run_step(spec["step"], spec["path"], bytes.fromhex(spec["device_pin"]), spec["devstate"])
    return 0


if __name__ == "__main__":
    if len(sys.argv) > 2 and sys.argv[1] == "--child":
        sys.exit(child_main(sys.argv[2:]))
    if len(sys.argv) > 2 and sys.argv[1] == "--unprivileged":
        sys.exit(unprivileged_main(sys.argv[2:]))
