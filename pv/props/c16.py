# C16 - loading an attestation file always terminates with a usable verdict
import os
import copy
import json
import random
import shutil
import tempfile

from .. import env
from ..gen import certv1 as g1, certv2 as g2
from .c03 import Steps, StepBudgetExceeded

ID = "C16"
LEVEL = "exploration"
RULE = ("JSON documents shaped like version-1 and version-2 certificates, up to 12 elements: "
        "genuine certificates (fresh keys) mutated by field removal / retyping / duplication, "
        "unknown versions and element types, self-signed and mutually signed elements, longer "
        "cycles, dangling signers and targets, duplicate and non-string names, targets moved to "
        "any element kind; plus synthetic documents from field pools. Each is loaded with "
        "HSMCertificate.from_jsonfile under a logical step budget (sys.monitoring PY_START); for "
        "a loaded certificate an independent graph walk over the input (last duplicate wins) "
        "must find a finite cycle-free path to the root for every target, validate_and_get_values "
        "must end within the budget without raising with an entry per target, and save -> load -> "
        "validate must give equal verdicts and values. distinct = (version, mutation kinds, "
        "outcome class)")
RULE_ADDED = (
              'Also: hex fields cut / padded / replaced to 1..1000 bytes; names with non-ASCII '
              'characters, NUL and lone surrogates; elements carrying the reserved root name; a '
              'third of the shards under python -O '
              ' '
              'Round 8: documents whose one-line size sits just below a power of two / ten (1 K'
              'iB .. 4 MiB) so that the saved, indented form sits above it. '
              ' '
              'Round 10: non-finite numbers and huge integers as names, signer references and v'
              'alues. '
              ' '
              'Round 11: x509 elements whose signature algorithm identifier is unknown to the l'
              'ibrary. '
              ' '
              'Round 14: NaN as an element name (every reference the same object), self-certify'
              'ing or not. '
              ' '
              "Round 15: signer references that spell the root's name in another case / padded "
              '/ doubled. '
              ' '
              "Round 16: signer references that are parts of the root's name. "
              ' '
              'Round 19: chains in which a properly issued certificate holds an X25519 / X448 k'
              'ey (which cannot sign) above another certificate. ')
RULE = RULE + " " + RULE_ADDED.strip()
ASSUMPTIONS = [
    "any exception out of from_jsonfile counts as 'reports an error' (the admin tools turn "
    "every exception into an error exit)",
    "step budgets: 2*10^4 Python function entries for load/save (observed maximum ~200), 2*10^6 for validation "
    "(pure-Python curve arithmetic); a shard stops at its first non-termination witness",
]
FLOORS = {"quick": {"evaluations": 9000, "loaded": 1500, "load_errors": 5000,
                    "validations": 1500, "roundtrips": 1200, "valid_targets_seen": 300},
          "thorough": {"evaluations": 600000, "loaded": 60000, "load_errors": 200000,
                       "validations": 60000, "roundtrips": 50000, "valid_targets_seen": 10000}}

BUDGET = 2_000_000
LOAD_BUDGET = 20_000


class Stuck(Exception):
    pass

VALUES = ["<absent>", None, True, 0, 1, 2, 3, 1.5, "", "root", "sgx_root", "device", "ui",
          "quote", "zz", "00", "abcd", [], ["ui"], {}, {"name": "ui"}, "attestation", "signer",
          # numbers a JSON parser hands over as non-finite (1e999, -1e999, NaN) or huge
          float("inf"), float("-inf"), float("nan"), 10 ** 40, -1]


SIZE_MARKS = sorted([2 ** k for k in range(10, 23)] + [10 ** 4, 10 ** 5, 10 ** 6, 65535,
                                                        50000, 3 * 2 ** 16])
SIZE_MARKS_QUICK = len([m for m in SIZE_MARKS if m <= 2 ** 18])


def shards(tier, seed):
    if tier == "quick":
        return [{"seed": seed * 1000 + i, "python_O": i % 3 == 2,
                 "n": 28} for i in range(16)]
    return [{"seed": seed * 1000 + i, "python_O": i % 3 == 2,
                 "n": 700} for i in range(32)]


def mutate(rng, doc, version):
    """returns (doc', labels)"""
    d = copy.deepcopy(doc)
    labels = []
    root_name = "root" if version == 1 else "sgx_root"
    for _ in range(rng.choice([1, 1, 1, 2, 2, 3])):
        k = rng.choice(["top-field", "el-field", "dup-el", "cycle", "self-signed", "dangling",
                        "dangling", "target", "drop-el", "dup-name", "nonstring-name", "type", "grow",
                        "elements-kind", "retarget-any", "hex-resize", "hex-resize",
                        "unicode-name", "root-named-element", "nonfinite-number",
                        "x509-unknown-signature-oid", "certified-by-another-kind"])
        els = d.get("elements")
        ok_els = isinstance(els, list) and els and all(isinstance(e, dict) for e in els)
        if k == "top-field":
            f = rng.choice(["version", "targets", "elements"])
            v = rng.choice(VALUES)
            if v == "<absent>":
                d.pop(f, None)
            else:
                d[f] = v
            labels.append("top:%s" % f)
        elif k == "el-field" and ok_els:
            e = rng.choice(els)
            f = rng.choice(["name", "message", "signature", "signed_by", "tweak", "type", "key",
                            "auth_data", "custom_data"])
            v = rng.choice(VALUES)
            if v == "<absent>":
                e.pop(f, None)
            else:
                e[f] = v
            labels.append("el:%s" % f)
        elif k == "root-named-element" and ok_els:
            # an element carrying the reserved name of the root of trust (a file that also
            # lists the root certificate; somebody's own root), signed by itself, by the
            # root name or by another element
            e = copy.deepcopy(rng.choice(els))
            e["name"] = root_name
            e["signed_by"] = rng.choice([root_name, root_name, rng.choice(els).get("name")])
            els.insert(rng.randrange(len(els) + 1), e)
            if rng.random() < 0.3 and isinstance(d.get("targets"), list):
                d["targets"].append(root_name)
            labels.append("root-named-element")
        elif k == "x509-unknown-signature-oid" and ok_els and version == 2:
            xs = [e for e in els if e.get("type") == "x509_pem" and isinstance(e.get("message"), str)]
            if xs:
                e = rng.choice(xs)
                body = g2.unknown_signature_oid(e["message"])
                if body is not None:
                    e["message"] = body
                    labels.append("x509-unknown-signature-oid")
        elif k == "nonfinite-number" and ok_els:
            # a number where a name is meant, of the kind a JSON parser turns into a
            # non-finite float (1e999, -1e999, NaN) or a huge integer: as the signer
            # reference of an extra element that no target depends on, or as an element's
            # name with every reference to it
            num = rng.choice([float("inf"), float("-inf"), float("nan"), 10 ** 400, 1e308])
            if rng.random() < 0.5:
                e = copy.deepcopy(rng.choice(els))
                e["name"] = "spare"
                e["signed_by"] = num
                els.insert(rng.randrange(len(els) + 1), e)
            else:
                # (NaN as a name equals nothing, itself included: every reference in this
                # document is the very same object, as it is for a JSON parser's NaN)
                e = rng.choice(els)
                old = e.get("name")
                for x in els:
                    if x.get("signed_by") == old:
                        x["signed_by"] = num
                e["name"] = num
                if rng.random() < 0.3:
                    e["signed_by"] = num      # ... and certifies itself
                    labels.append("self-signed")
                if isinstance(d.get("targets"), list):
                    d["targets"] = [num if t == old else t for t in d["targets"]]
            labels.append("nonfinite-number")
        elif k == "unicode-name" and ok_els:
            # a name (and the references to it) with characters outside ASCII: accented,
            # astral, NUL, a lone surrogate (valid JSON escape, not encodable as UTF-8)
            e = rng.choice(els)
            old = e.get("name")
            new = "%s%s" % (old, rng.choice(["\u00e9", "\U0001f511", "\x00", "\ud83d", " ",
                                             "\u202e", "\ud83d\ud83d"]))
            for x in els:
                if x.get("signed_by") == old:
                    x["signed_by"] = new
            e["name"] = new
            if isinstance(d.get("targets"), list):
                d["targets"] = [new if t == old else t for t in d["targets"]]
            if rng.random() < 0.3:
                # or only a signer reference of an element off every target's path
                rng.choice(els)["signed_by"] = rng.choice([new, "nobody\ud83d"])
            labels.append("unicode-name")
        elif k == "hex-resize" and ok_els:
            # still hex, but not the size / structure the element type needs (a quote that
            # is not a whole sgx_quote_t, a key of 3 bytes, DER cut short ...)
            e = rng.choice(els)
            f = rng.choice([x for x in ("message", "message", "signature", "key", "auth_data",
                                        "custom_data", "tweak") if isinstance(e.get(x), str)] or
                           ["message"])
            old = e.get(f) if isinstance(e.get(f), str) else ""
            n = rng.choice([1, 2, 3, 31, 32, 33, 47, 48, 64, 65, 100, 383, 384, 431, 432, 433,
                            436, 1000, max(1, len(old) // 2 - 1), len(old) // 2 + 1])
            how = rng.choice(["cut", "cut", "random", "pad"])
            if how == "cut" and len(old) >= 2 * n:
                e[f] = old[:2 * n]
            elif how == "pad":
                e[f] = old + "00" * n
            else:
                e[f] = rng.randbytes(n).hex()
            labels.append("hex-resize:%s" % f)
        elif k == "dup-el" and ok_els:
            e = copy.deepcopy(rng.choice(els))
            if rng.random() < 0.5 and ok_els:
                e["signed_by"] = rng.choice([x.get("name") for x in els] + [root_name])
            els.insert(rng.randrange(len(els) + 1), e)
            labels.append("dup-el")
        elif k == "cycle" and ok_els and len(els) >= 2:
            n = rng.randint(2, min(len(els), 5))
            ring = rng.sample(els, n)
            for i, e in enumerate(ring):
                e["signed_by"] = ring[(i + 1) % n].get("name")
            labels.append("cycle%d" % n)
        elif k == "self-signed" and ok_els:
            e = rng.choice(els)
            e["signed_by"] = e.get("name")
            labels.append("self-signed")
        elif k == "certified-by-another-kind" and ok_els and len(els) >= 2:
            # an element whose certifier is an element of a kind that certifies nothing (a
            # quote, an attestation key vouching for a certificate ...) or of another kind
            # than the one its own kind expects; the certifier itself stays what it was
            e = rng.choice(els)
            others = [x for x in els if x is not e and x.get("type") != e.get("type") and
                      x.get("signed_by") != e.get("name")]
            if others:
                e["signed_by"] = rng.choice(others).get("name")
                labels.append("certified-by-another-kind")
        elif k == "dangling" and ok_els:
            rng.choice(els)["signed_by"] = rng.choice(
                ["nobody", "", "Root", 5, None,
                 # (the root's name in another case, padded, doubled: not the root's name)
                 root_name.upper(), root_name.capitalize(), root_name.title(),
                 root_name + " ", " " + root_name, root_name.swapcase(), root_name * 2,
                 # (... or a part of it)
                 root_name[1:], root_name[:-1], root_name[:2], root_name[-1:], root_name[:1]])
            labels.append("dangling-signer")
        elif k == "target":
            t = d.get("targets")
            if isinstance(t, list):
                if t and rng.random() < 0.35:
                    # a target given twice (next to each other or apart), then an unsound one
                    i_ = rng.randrange(len(t))
                    t.insert(rng.randint(i_, len(t)), t[i_])
                    labels.append("repeated-target")
                t.append(rng.choice(["nobody", "root", "sgx_root", 5, None, ["ui"], "ui",
                                     "quote", "device"]))
                labels.append("extra-target")
        elif k == "retarget-any" and ok_els:
            d["targets"] = [e.get("name") for e in els if rng.random() < 0.6 and
                            isinstance(e.get("name"), (str, int))]
            labels.append("retarget-any")
        elif k == "drop-el" and ok_els:
            els.pop(rng.randrange(len(els)))
            labels.append("drop-el")
        elif k == "dup-name" and ok_els and len(els) >= 2:
            a, b = rng.sample(els, 2)
            b["name"] = a.get("name")
            labels.append("dup-name")
        elif k == "nonstring-name" and ok_els:
            e = rng.choice(els)
            old = e.get("name")
            new = rng.choice([5, 1.5, None, True, ("%s" % old).upper()])
            for x in els:
                if x.get("signed_by") == old and rng.random() < 0.7:
                    x["signed_by"] = new
            e["name"] = new
            labels.append("nonstring-name")
        elif k == "type" and ok_els:
            rng.choice(els)["type"] = rng.choice(["x509_pem", "sgx_quote", "sgx_attestation_key",
                                                 "unknown", 5, None])
            labels.append("type")
        elif k == "grow" and ok_els:
            while len(els) < rng.randint(5, 12):
                e = copy.deepcopy(rng.choice(els))
                e["name"] = rng.choice(["device", "attestation", "ui", "signer", "n%d" % len(els)])
                e["signed_by"] = rng.choice([x.get("name") for x in els] + [root_name])
                els.append(e)
            labels.append("grow")
        elif k == "elements-kind":
            d["elements"] = rng.choice([{}, {"name": "ui"}, "elements", [["ui"]], [5], [None],
                                        {str(e.get("name", "x")): e for e in els} if ok_els else 7])
            labels.append("elements-kind")
    return d, labels


def synthetic(rng):
    n = rng.randint(0, 12)
    version = rng.choice([1, 2, 1, 2, 3, "1", None])
    names = ["device", "attestation", "ui", "signer"] if version == 1 else \
        ["quote", "attestation", "quoting_enclave", "platform_ca", "a", "b", "c", "sgx_root"]
    root_name = "root" if version == 1 else "sgx_root"
    els = []
    for i in range(n):
        e = {"name": rng.choice(names), "signed_by": rng.choice(names + [root_name, root_name]),
             "message": rng.choice(["00", "abcd", "zz", ""]), "signature": rng.choice(["3000", "aa"])}
        if version == 2:
            e["type"] = rng.choice(["x509_pem", "sgx_quote", "sgx_attestation_key"])
            e.update(key="04" + "11" * 64, auth_data="00", custom_data="00")
        if rng.random() < 0.2:
            e["tweak"] = rng.choice(["aa", "", "zz"])
        els.append(e)
    return {"version": version, "targets": [rng.choice(names) for _ in range(rng.randint(0, 3))],
            "elements": els}, ["synthetic"]


def graph_ok(doc, version):
    """independent walk: every target reaches the root name without a cycle"""
    root_name = "root" if version == 1 else "sgx_root"
    els = {}
    for e in doc["elements"]:
        els[e["name"]] = e
    for t in doc["targets"]:
        seen = set()
        cur = t
        while True:
            if cur not in els:
                return False, "target or signer %r not among the elements" % (cur,)
            if cur in seen:
                return False, "cycle through %r" % (cur,)
            seen.add(cur)
            nxt = els[cur]["signed_by"]
            if nxt == root_name:
                break
            cur = nxt
    return True, None


def run_doc(acc, steps, doc, labels, version, root, tmpdir, case):
    from admin.certificate import HSMCertificate
    acc.evaluations += 1
    p = os.path.join(tmpdir, "c.json")
    try:
        with open(p, "w") as f:
            json.dump(doc, f)
        # the oracle judges the document as the file spells it: a JSON parser hands over ONE
        # object for every NaN token, so two NaNs that were different objects in the
        # generator's dict name the same element once they have been through the file
        with open(p) as f:
            doc = json.load(f)
    except (TypeError, ValueError):
        return

    def budgeted(fn, what):
        # loading is cheap (a few thousand function entries): a tight budget, so that
        # a loop whose cost per step grows is still cut off quickly; validation runs
        # pure-Python elliptic-curve code and gets the large budget
        budget = LOAD_BUDGET if what in ("load", "reload", "save") else BUDGET
        steps.n = 0
        steps.budget = budget
        try:
            return ("ok", fn())
        except StepBudgetExceeded:
            pass
        except Exception as e:
            return ("exc", e)
        finally:
            steps.budget = None
            key = "max_steps_" + ("load" if budget == LOAD_BUDGET else "validate")
            acc.counters[key] = max(acc.counters.get(key, 0), steps.n)
        acc.violation("does-not-terminate:%s" % what, {"labels": labels, "budget": budget}, case)
        raise Stuck()

    st, cert = budgeted(lambda: HSMCertificate.from_jsonfile(p), "load")
    if st == "exc":
        acc.count("load_errors")
        acc.distinct.add("v%s|%s|load-error:%s" % (version, ",".join(sorted(set(labels))),
                                                  type(cert).__name__))
        return
    acc.count("loaded")
    ver = doc.get("version")
    try:
        ok, why = graph_ok(doc, ver)
    except Exception as e:
        ok, why = False, "input not walkable: %r" % e
    if not ok:
        acc.violation("loaded-certificate-without-finite-path-to-root",
                      {"why": why, "labels": labels}, case)
        return
    st, res = budgeted(lambda: cert.validate_and_get_values(root[ver]), "validate")
    acc.count("validations")
    if st == "exc":
        kinds = kind_of_targets(doc)
        if isinstance(res, NotImplementedError) and "can't provide a value" in str(res):
            which = "x509_pem" if "X509" in str(res) else "sgx_attestation_key"
            mech = "validation-raised:NotImplementedError:valid-target-of-valueless-type:" + which
        else:
            mech = "validation-raised:%s@%s" % (type(res).__name__, kinds)
        acc.violation(mech, {"exc": repr(res)[:300], "labels": labels, "target_types": kinds},
                      case)
        return
    for t in doc["targets"]:
        if isinstance(t, float) and t != t:
            # (a NaN target: the loaded certificate holds another NaN object, and NaN
            # never equals NaN - look for any NaN key)
            keys = [k_ for k_ in res if isinstance(k_, float) and k_ != k_]
            if not keys:
                acc.violation("no-verdict-for-target", {"target": "NaN", "labels": labels}, case)
                return
            continue
        if t not in res:
            acc.violation("no-verdict-for-target", {"target": t, "labels": labels}, case)
            return
        if res[t][0]:
            acc.count("valid_targets_seen")
    # save / load / validate again
    p2 = os.path.join(tmpdir, "c2.json")
    st, r = budgeted(lambda: cert.save_to_jsonfile(p2), "save")
    if st == "exc":
        acc.violation("save-raised:%s" % type(r).__name__,
                      {"exc": repr(r)[:300], "labels": labels}, case)
        return
    st, cert2 = budgeted(lambda: HSMCertificate.from_jsonfile(p2), "reload")
    if st == "exc":
        acc.violation("reload-raised:%s" % type(cert2).__name__,
                      {"exc": repr(cert2)[:300], "labels": labels}, case)
        return
    st, res2 = budgeted(lambda: cert2.validate_and_get_values(root[ver]), "revalidate")
    if st != "ok":
        if st == "exc":
            acc.violation("revalidation-raised:%s" % type(res2).__name__, {"labels": labels}, case)
        return
    acc.count("roundtrips")
    if norm(res) != norm(res2):
        acc.violation("verdicts-change-after-save-and-load",
                      {"before": norm(res), "after": norm(res2), "labels": labels}, case)
    acc.distinct.add("v%s|%s|loaded|%s" % (version, ",".join(sorted(set(labels))),
                                           "".join("T" if t in res and res[t][0] else "F"
                                                   for t in doc["targets"])[:6]))


def kind_of_targets(doc):
    try:
        els = {e["name"]: e for e in doc["elements"]}
        return ",".join(sorted({str(els[t].get("type", "v1")) for t in doc["targets"]}))
    except Exception:
        return "?"


def norm(res):
    out = {}
    for k, v in res.items():
        v = list(v)
        if len(v) > 1 and isinstance(v[1], dict):
            v[1] = {kk: (vv.get_raw_data().hex() if hasattr(vv, "get_raw_data") else vv)
                    for kk, vv in v[1].items()}
        out[str(k)] = repr(v)      # (repr: NaN compares unequal to itself)
    return out


def run_shard(spec, acc):
    env.setup()
    if spec.get("shard", spec.get("seed", 0)) % 4 >= 2 and env.on_other_fs():
        acc.count("shards_with_files_on_another_file_system_than_the_temp_directory")
    from admin.certificate import HSMCertificateRoot, HSMCertificateV2ElementX509
    rng = random.Random(spec["seed"])
    tmpdir = env.mkdtemp("c16", spec.get("shard", spec.get("seed", 0)) % 2 == 1,
                         other_fs=spec.get("shard", spec.get("seed", 0)) % 4 >= 2)
    steps = Steps()
    steps.start()
    try:
        for i in range(spec["n"]):
            cseed = rng.getrandbits(48)
            try:
                run_case(acc, steps, cseed, tmpdir, HSMCertificateRoot,
                         HSMCertificateV2ElementX509)
            except Stuck:
                # non-termination is established; the rest of the shard would only
                # repeat it slowly
                break
    finally:
        steps.stop()
        shutil.rmtree(tmpdir, ignore_errors=True)


def run_case(acc, steps, cseed, tmpdir, HSMCertificateRoot, X509):
    rng = random.Random(cseed)
    d1, info = g1.build(rng)
    m2 = g2.build(rng)
    d2 = g2.to_doc(m2, rng.choice(["uncompressed", "raw", "compressed"]))
    root = {1: HSMCertificateRoot(g1.pub65(info["root"]).hex()),
            2: X509.from_pem(g2.pem(m2.root_cert), "sgx_root", "sgx_root")}
    # a version-2 document whose targets are the certificates / the key element
    d2t = copy.deepcopy(d2)
    d2t["targets"] = [e["name"] for e in d2t["elements"]]
    for base, version, lab in ((d1, 1, "genuine"), (d2, 2, "genuine"),
                               (d2t, 2, "genuine-all-targets")):
        run_doc(acc, steps, base, [lab], version, root, tmpdir,
                {"seed": cseed, "which": lab})
    # a chain whose last certificate - valid, properly issued - holds a key that is not a
    # P-256 one: the key element below it gets a verdict, like anything else
    if rng.random() < 0.3:
        from cryptography.hazmat.primitives.asymmetric import ec as _ec
        m3 = g2.build(rng, leaf_curve=rng.choice([_ec.SECP384R1(), _ec.SECP256K1(),
                                                  _ec.SECP521R1()]))
        d3 = g2.to_doc(m3, "uncompressed")
        root3 = dict(root)
        root3[2] = X509.from_pem(g2.pem(m3.root_cert), "sgx_root", "sgx_root")
        run_doc(acc, steps, d3, ["last-certificate-holds-a-key-of-another-curve"], 2, root3,
                tmpdir, {"seed": cseed, "which": "other-curve"})
        acc.count("chains_whose_last_certificate_holds_a_key_of_another_curve")
    # a chain in which a certificate - valid, properly issued - holds a key that cannot
    # sign anything (X25519 / X448: key agreement only), with another certificate under it:
    # what stands below gets a verdict, like anything else
    if rng.random() < 0.3:
        from cryptography.hazmat.primitives.asymmetric import x25519, x448
        m4 = g2.build(rng, depth=rng.choice([2, 3, 3]))
        d4 = g2.to_doc(m4, "uncompressed")
        certs4 = [e for e in d4["elements"] if e["type"] == "x509_pem"]
        i4 = rng.randrange(len(m4.certs) - 1)
        kx = rng.choice([x25519.X25519PrivateKey, x448.X448PrivateKey]).generate()
        c4 = g2.make_cert("ca%d" % i4, kx.public_key(), "root" if i4 == 0 else "ca%d" % (i4 - 1),
                          m4.root_key if i4 == 0 else m4.cert_keys[i4 - 1], serial=97)
        certs4[i4]["message"] = g2.pem_body(c4)
        root4 = dict(root)
        root4[2] = X509.from_pem(g2.pem(m4.root_cert), "sgx_root", "sgx_root")
        run_doc(acc, steps, d4, ["certificate-holding-a-key-agreement-key-above-another"], 2,
                root4, tmpdir, {"seed": cseed, "which": "key-agreement-key"})
        acc.count("chains_with_a_certificate_holding_a_key_that_cannot_sign")
    # a QE report body that carries trailing bytes covered by its signature, and an
    # attestation key given in compressed form: both load and validate; saving must
    # not change what was signed
    d2x = copy.deepcopy(d2)
    for e in d2x["elements"]:
        if e["type"] == "sgx_attestation_key":
            ext = bytes.fromhex(e["message"]) + rng.randbytes(rng.randint(1, 40))
            e["message"] = ext.hex()
            e["signature"] = g2.sign_der(m2.cert_keys[-1], ext).hex()
    run_doc(acc, steps, d2x, ["att-message-trailing-bytes-signed"], 2, root, tmpdir,
            {"seed": cseed, "which": "trailing"})
    # ---- documents whose size as a one-line file sits just below a round number of
    # bytes (a power of two, a power of ten), so that the file the tool writes back -
    # indented, hence longer - sits above it: whatever the tool accepted and saved, it
    # must load again.  The bulk is a leaf's signed message (version 1, genuinely signed)
    # or the quote's custom data (version 2).
    for version in (1, 2):
        big = copy.deepcopy(d1 if version == 1 else d2)
        limit = rng.choice(SIZE_MARKS[:SIZE_MARKS_QUICK] if rng.random() < 0.8 else SIZE_MARKS)
        if version == 1:
            parents = info["parents"]
            leaves = [e for e in big["elements"]
                      if not any(x["signed_by"] == e["name"] for x in big["elements"])]
            el = rng.choice(leaves)
            field = "message"
        else:
            el = [e for e in big["elements"] if e["type"] == "sgx_quote"][0]
            field = "custom_data"
        el[field] = ""
        room = limit - rng.randrange(0, 120) - len(json.dumps(big))
        if room < 2:
            continue
        data = rng.randbytes(room // 2)
        el[field] = data.hex()
        if version == 1:
            pn = parents[el["name"]]
            sk = info["root"] if pn == "root" else info["keys"][pn]
            if "tweak" in el:
                sk = g1.tweaked_key(sk, bytes.fromhex(el["tweak"]))
            el["signature"] = g1.sign(sk, data, rng).hex()
        acc.count("documents_just_below_a_round_size")
        acc.counters["max_document_bytes"] = max(acc.counters.get("max_document_bytes", 0),
                                                 len(json.dumps(big)))
        run_doc(acc, steps, big, ["size-just-below-%d" % limit], version, root, tmpdir,
                {"seed": cseed, "which": "size-v%d" % version})
    for j in range(16):
        base, version = (d1, 1) if j % 2 == 0 else (rng.choice([d2, d2t]), 2)
        d, labels = mutate(rng, base, version)
        run_doc(acc, steps, d, labels, version, root, tmpdir,
                {"seed": cseed, "which": "mut%d" % j, "doc": d})
    for j in range(10):
        d, labels = synthetic(rng)
        run_doc(acc, steps, d, labels, d.get("version"), root, tmpdir,
                {"seed": cseed, "which": "syn%d" % j, "doc": d})
    if len(acc.samples) < 2:
        d, labels = mutate(rng, d1, 1)
        acc.sample({"mutations": labels, "document": d})


def replay(case, acc):
    env.setup()
    from admin.certificate import HSMCertificateRoot, HSMCertificateV2ElementX509
    tmpdir = env.mkdtemp("c16")
    steps = Steps()
    steps.start()
    try:
        run_case(acc, steps, case["seed"], tmpdir, HSMCertificateRoot, HSMCertificateV2ElementX509)
    except Stuck:
        pass
    finally:
        steps.stop()
        shutil.rmtree(tmpdir, ignore_errors=True)
