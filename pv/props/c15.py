# C15 - attestations gathered from a genuine device verify end to end
import os
import re
import json
import base64
import random
import shutil
import tempfile

from .. import env
from ..gen import certv1 as g1, certv2 as g2
from ..simdev.genuine import GenuineLedger, GenuineSGX
from ..simdev.device import MODE_BOOTLOADER, ALL_PATHS

ID = "C15"
LEVEL = "exploration"
RULE = ("simulated genuine devices (fresh issuer / device / attestation / wallet keys, random UI "
        "and signer hashes, UD value, blockchain state): Ledger: the real do_onboard (seed, PIN, "
        "wipe, endorsement set-up over the dashboard dialogue), do_attestation (UI pages 1..4, "
        "signer message in legacy and current framing, page sizes 40..255), do_get_pubkeys and "
        "then do_verify_attestation on exactly the files written; SGX: do_attestation from a "
        "quote envelope (QE auth data 1..1000 bytes, PEM chains of 2..3 certificates, message "
        "pages 1..4), do_get_pubkeys, do_verify_attestation with the chain's root. Genuine runs "
        "must succeed and print the device's values; each single-point alteration of what the "
        "device answers (signed bytes, signatures, hashes, keys, certificates) or of the root of "
        "trust must make gathering or verification raise. distinct = (platform, framing, page "
        "size class, alteration); non-trivial = all")
RULE_ADDED = (
              'Also: UD sources with 0x prefix, leading zero nibbles, text that continues or spells '
              "a message header, status-word-like tails; half of the flows through the tools' own "
              'command lines; bit flips biased to the ends of a datum; encoding-only DER flips '
              'redrawn '
              ' '
              'Round 8: SGX root of trust delivered by file / URL / default URL; the genuine ro'
              'ot with one bit of its signature value flipped. '
              ' '
              'Round 10: a third of the genuine SGX devices hold a state whose message digest b'
              'egins or ends with a zero byte; scratch files on another file system than the te'
              'mp directory in half the shards. '
              ' '
              'Round 11: devices report non-zero timestamps; the printed Timestamp is compared. '
              ' '
              'Round 12: device certificate headers beginning with 0x02 / 0x04 / 0x00. '
              ' '
              'Round 13: the onboarding command run again, same output file, on the device it h'
              'as onboarded: turned down, certificate file untouched. '
              ' '
              'Round 14: a quarter of the admin-tool environments export terminal / locale vari'
              'ables. '
              ' '
              "Round 15: a second attestation later on from the first one's file, the device ha"
              'ving moved on; authorized-signer iterations over the whole 16-bit range. '
              ' '
              'Round 16: long auth data of little variety (one byte repeated, short patterns), '
              'envelope pages of 79 bytes. '
              ' '
              'Round 17: SGX attestations of a running (unlocked) device taken with -u, with or'
              ' without a PIN in the options. '
              ' '
              'Round 18: the UI-exit exchange of the Ledger flow ends in a read error, a time-o'
              'ut or a plain answer. '
              ' '
              'Round 19: SGX envelopes in which only the size field of the QE certification dat'
              'a is altered (lowered, raised, one bit flipped). ')
RULE = RULE + " " + RULE_ADDED.strip()
ASSUMPTIONS = [
    "the genuine-device models in pv/simdev/genuine.py (endorsement scheme two: signatures by "
    "attestation key + HMAC(app hash, attestation public key)) are trusted",
    "certificates are altered at DER level (an altered PEM character that leaves the DER "
    "unchanged is not an alteration of the certificate)",
    "operator interaction is scripted (stdin); waits are zeroed",
]
FLOORS = {"quick": {"evaluations": 300, "genuine_verified": 40, "alterations_refused": 220,
                    "printed_values_compared": 400},
          "thorough": {"evaluations": 50000, "genuine_verified": 6000,
                       "alterations_refused": 40000, "printed_values_compared": 60000}}

LEDGER_ALTER = ["ui_message", "ui_signature", "ui_app_hash", "signer_message", "signer_envelope",
                "signer_signature", "signer_app_hash", "device_signature", "device_pubkey",
                "endorsement_pubkey", "endorsement_signature", "root", "setup-file",
                "final-file", "pubkeys-file"]
SGX_ALTER = ["env:quote", "env:quote-report-data", "env:signature", "env:att-key",
             "env:qe-report", "env:qe-report-data", "env:qe-signature", "env:auth-data",
             "env:cert-der", "env:cert-data-size", "env:custom-message", "message", "root",
             "final-file",
             "pubkeys-file", "root-signature", "root-signature"]


def shards(tier, seed):
    if tier == "quick":
        return [{"seed": seed * 1000 + i, "python_O": i % 3 == 2,
                 "n": 1} for i in range(16)]
    return [{"seed": seed * 1000 + i, "python_O": i % 3 == 2,
                 "n": 100} for i in range(32)]


def gen_ud(rng, acc, genuine=False):
    """as the operator writes it: plain hex or with the 0x prefix the tools also take"""
    hx = gen_ud_hex(rng, acc, genuine)
    k = rng.random()
    if k < 0.15:
        # leading zero nibbles (a small number, an all-zero value)
        z = rng.choice([1, 2, 3, 8, 63, 64])
        hx = "0" * z + hx[z:]
    if rng.random() < 0.3:
        acc.count("ud_values_given_with_0x_prefix")
        return UD("0x" + hx)
    return UD(hx)


class UD(str):
    """the UD source as typed (possibly 0x-prefixed); .hex32 is the 32 bytes it denotes"""
    @property
    def hex32(self):
        return str(self)[2:] if self.startswith("0x") else str(self)


def gen_ud_hex(rng, acc, genuine=False):
    """user-defined value; a third of them begin with bytes that read as text right
    after the message header (ASCII digits, dots, colons), which is where a header
    parser that is too greedy goes wrong"""
    r = rng.random()
    if rng.random() < (0.4 if genuine else 0.1):
        # a readable tag chosen by the operator, which may well spell one of the message
        # headers ("HSM:SIGNER:audit-2026...")
        tag = rng.choice([b"HSM:SIGNER:", b"HSM:UI:", b"POWHSM:5.4::", b"HSM:SIGNER:5.4",
                          b"HSM:UI:5.4", b"POWHSM:"])
        pos = rng.choice([0, 0, 1, 32 - len(tag)])
        body = bytearray(rng.choice(b"abcdefghijklmnopqrstuvwxyz-/0123456789.")
                         for _ in range(32))
        body[pos:pos + len(tag)] = tag
        acc.count("ud_values_spelling_a_header")
        return bytes(body[:32]).hex()
    if r < 0.1:
        # ends like a status word
        return (rng.randbytes(30) + rng.choice([b"\x90\x00", b"\x6a\x87"])).hex()
    if r < 0.7:
        return rng.randbytes(32).hex()
    acc.count("ud_values_continuing_the_header")
    n = rng.randint(1, 6)
    head = bytes(rng.choice(b"0123456789.:") for _ in range(n)) if r < 0.9 else \
        bytes(rng.choice(b"0123456789") for _ in range(n))
    return (head + rng.randbytes(32 - n)).hex()


CLI_OPERATION = {"onboard": "onboard", "attestation": "attestation", "pubkeys": "pubkeys",
                 "verify": "verify_attestation"}


def run_step(acc, ae, via_cli, name, fn, opts, stdin):
    """half of the flows go through the tools' own command lines (adm_ledger / adm_sgx:
    argument parser, defaults, dispatch table)"""
    if via_cli and name in CLI_OPERATION and not any(
            isinstance(v, str) and v.startswith("-") for v in vars(opts).values()):
        acc.count("steps_through_the_command_line")
        return ae.run_cli(CLI_OPERATION[name], opts, stdin=stdin)
    return ae.run(fn, opts, stdin=stdin)


def same_certificate(der_a, der_b):
    """True when both encodings parse to the same signed content, signature value and
    algorithm (an encoding-only difference)"""
    from cryptography import x509
    try:
        a = x509.load_der_x509_certificate(der_a)
        b = x509.load_der_x509_certificate(der_b)
        return (a.tbs_certificate_bytes == b.tbs_certificate_bytes and
                a.signature == b.signature and
                a.signature_algorithm_oid == b.signature_algorithm_oid)
    except Exception:
        return False


def flipper(rng, lo=0, hi=None):
    def f(b):
        b = bytearray(b)
        h = len(b) if hi is None else min(hi, len(b))
        i = rng.randrange(lo, h)
        if rng.random() < 0.4 and h - lo >= 4:
            # the ends of a datum: tags, lengths, prefixes, parity bits
            i = rng.choice([lo, lo, lo + 1, h - 1, h - 2])
        b[i] ^= 1 << rng.randrange(8)
        return bytes(b)
    return f


def printed(out, label, nth=0):
    vals = re.findall(r"^%s:? ?(.*)$" % re.escape(label), out, flags=re.M)
    return vals[nth].strip() if len(vals) > nth else None


def flip_json_hex(path, rng, pick):
    """flip one bit inside a hex field of a JSON file chosen by pick(doc) -> (obj, key)"""
    with open(path) as f:
        doc = json.load(f)
    obj, key = pick(doc)
    b = bytearray(bytes.fromhex(obj[key]))
    # (a key's leading byte only says how the point is written - 04 -> 06 is the same point
    # in another notation when its y is even - and is neither signed nor hashed: the flip
    # goes into the coordinates)
    lo = 1 if key == "key" and len(b) in (33, 65) else 0
    b[rng.randrange(lo, len(b))] ^= 1 << rng.randrange(8)
    obj[key] = bytes(b).hex()
    with open(path, "w") as f:
        json.dump(doc, f)


def ledger_run(acc, cseed, alter, tmpdir):
    from ..admstack import AdminEnv, options
    from admin.onboard import do_onboard
    from admin.ledger_attestation import do_attestation
    from admin.pubkeys import do_get_pubkeys
    from admin.verify_ledger_attestation import do_verify_attestation
    rng = random.Random(cseed)
    case = {"seed": cseed, "platform": "ledger", "alter": alter}
    framing = rng.choice(["legacy", "current"])
    if alter == "signer_envelope":
        framing = "current"      # the legacy framing has no separate envelope
    hooks = {}
    if alter in ("ui_message", "ui_signature", "ui_app_hash", "signer_message",
                 "signer_envelope", "signer_signature", "signer_app_hash", "device_signature",
                 "endorsement_signature"):
        hooks[alter] = flipper(rng)
    elif alter in ("device_pubkey", "endorsement_pubkey"):
        hooks[alter] = flipper(rng, 1)
    gd = GenuineLedger(rng, onboarded=False, mode=MODE_BOOTLOADER, pin=b"",
                       signer_framing=framing, alter=hooks)
    dev = gd.dev
    # (leaving the UI makes the device re-enumerate: the exit command ends in a read error,
    # in silence until the time-out, or - now and then - in a plain answer)
    dev.cfg["exit_behaviour"] = random.Random(cseed ^ 0x0f0f).choice(
        ["read_error", "read_error", "timeout", "timeout", "ok"])
    pin = "Abcd1234"
    via_cli = rng.random() < 0.5
    again = random.Random(cseed ^ 0x0b0a).random() < 0.5
    ud = gen_ud(rng, acc, alter is None)
    setup = os.path.join(tmpdir, "setup.json")
    final = os.path.join(tmpdir, "att.json")
    if rng.random() < 0.3:
        # in-place refresh: the attestation is written over the certificate it starts from
        # (the same file, possibly spelled differently)
        final = rng.choice([setup, os.path.join(tmpdir, ".", "setup.json")])
        acc.count("attestations_written_over_their_input_file")
    pkout = os.path.join(tmpdir, "pk.txt")
    pkjson = os.path.join(tmpdir, "pk.json")
    for p in (setup, final, pkout, pkjson):
        if os.path.exists(p):
            os.unlink(p)
    acc.evaluations += 1
    acc.distinct.add("ledger|%s|%d|%s" % (framing, gd.page_size // 64, alter))
    stage = None
    failed = None
    out = ""
    with AdminEnv(dev, "ledger") as ae:
        steps = [
            ("onboard", do_onboard, options(pin=pin, output_file_path=setup), "yes\n\n"),
            ("reboot", None, None, None),
            ("onboard-again", do_onboard, options(pin=pin, output_file_path=setup),
             rng.choice(["yes\n\n", "no\n", "\n"])),
            ("attestation", do_attestation,
             options(pin=pin, output_file_path=final, attestation_certificate_file_path=setup,
                     attestation_ud_source=str(ud)), ""),
            ("pubkeys", do_get_pubkeys, options(no_unlock=True, output_file_path=pkout), ""),
            ("verify", do_verify_attestation, None, ""),
        ]
        for name, fn, opts, stdin in steps:
            stage = name
            if name == "reboot":
                dev.mode = MODE_BOOTLOADER
                dev.unlocked = False
                if alter == "setup-file":
                    flip_json_hex(setup, rng, lambda d: (rng.choice(d["elements"]),
                                                         rng.choice(["message", "signature"])))
                continue
            if name == "onboard-again":
                # somebody runs the onboarding command again, same output file, on the
                # device as it is now (onboarded): it is turned down - and the certificate
                # written by the onboarding that did take place is what it was
                if alter is not None or not again:
                    continue
                acc.count("onboarding_commands_repeated_on_the_onboarded_device")
                with open(setup, "rb") as f:
                    before_ = f.read()
                ok, o, exc = run_step(acc, ae, via_cli, name, fn, opts, stdin)
                after_ = open(setup, "rb").read() if os.path.exists(setup) else None
                wipes_ = [e for e in dev.log if e and e[0] == "wipe"]
                if ok or len(wipes_) != 1:
                    acc.violation("onboarded-device-onboarded-again", {"wipes": len(wipes_)}, case)
                    return
                if after_ != before_:
                    acc.violation("certificate-file-damaged-by-a-refused-onboarding",
                                  {"bytes_before": len(before_),
                                   "bytes_after": None if after_ is None else len(after_)}, case)
                    return
                dev.mode = MODE_BOOTLOADER
                dev.unlocked = False
                continue
            if name == "verify":
                root_hex = g1.pub65(gd.root).hex()
                if alter == "root":
                    root_hex = g1.pub65(g1.new_key(rng)).hex()
                if alter == "final-file":
                    flip_json_hex(final, rng, lambda d: (
                        rng.choice(d["elements"]), rng.choice(["message", "signature"])))
                if alter == "pubkeys-file":
                    with open(pkjson) as f:
                        pk = json.load(f)
                    pk[rng.choice(list(pk))] = g1.pub65(g1.new_key(rng)).hex()
                    with open(pkjson, "w") as f:
                        json.dump(pk, f)
                opts = options(attestation_certificate_file_path=final,
                               pubkeys_file_path=pkjson, root_authority=root_hex)
            ok, o, exc = run_step(acc, ae, via_cli, name, fn, opts, stdin)
            out = o
            if not ok:
                failed = (name, exc)
                break
    if alter is None:
        if failed is not None:
            acc.violation("genuine-ledger-flow-failed-at-%s" % failed[0],
                          {"exc": repr(failed[1])[:300], "framing": framing,
                           "page": gd.page_size}, case)
            return
        acc.count("genuine_verified")
        # values printed are the device's
        want = {
            ("UD value", 0): ud.hex32,
            ("Derived public key (m/44'/0'/0'/0/0)", 0):
                g1.pub33(gd.wallet["m/44'/0'/0'/0/0"]).hex(),
            ("Authorized signer hash", 0): gd.auth_signer_hash.hex(),
            ("Authorized signer iteration", 0): str(gd.auth_signer_iter),
            ("Installed UI hash", 0): gd.ui_hash.hex(),
            ("Hash", 0): gd.keys_hash().hex(),
            ("Installed Signer hash", 0): gd.signer_hash.hex(),
        }
        if framing == "current":
            want[("UD value", 1)] = ud.hex32
            want[("Best block", 0)] = gd.best_block.hex()
            want[("Last transaction signed", 0)] = gd.last_tx.hex()
            want[("Platform", 0)] = "led"
            want[("Timestamp", 0)] = str(int.from_bytes(gd.timestamp, "big"))
        for (lab, nth), w in want.items():
            acc.count("printed_values_compared")
            if printed(out, lab, nth) != w:
                acc.violation("printed-value-differs:ledger:%s" % lab.split(" (")[0],
                              {"got": printed(out, lab, nth), "want": w}, case)
        # files load back without loss
        with open(pkjson) as f:
            pk = json.load(f)
        for p in ALL_PATHS:
            acc.count("printed_values_compared")
            if pk.get(p) != g1.pub65(gd.wallet[p]).hex():
                acc.violation("public-keys-file-differs", {"path": p}, case)
        # the seed sent was 32 fresh bytes and the PIN the operator's
        wipes = [e for e in dev.log if e and e[0] == "wipe"]
        if len(wipes) != 1 or len(wipes[0][1]) != 32 or wipes[0][2] != pin.encode():
            acc.violation("onboarding-did-not-send-seed-and-pin", {"wipes": len(wipes)}, case)
        # ---- a second attestation, later, starting from the file the first one wrote (it
        # holds the device and attestation key certificates the command needs - and the ui
        # and signer elements of the first run): the device has moved on meanwhile (other UD
        # value, best block, last transaction, authorized signer); what is written and
        # verified is what the device says now
        if random.Random(cseed ^ 0x0d0d).random() < 0.4:
            ud2 = gen_ud(rng, acc, True)
            gd.best_block = rng.randbytes(32)
            gd.last_tx = rng.randbytes(8)
            gd.auth_signer_hash = rng.randbytes(32)
            gd.auth_signer_iter = rng.randrange(65536)
            second = rng.choice([final, os.path.join(tmpdir, "att-second.json")])
            if os.path.exists(second) and second != final:
                os.unlink(second)
            dev.mode = MODE_BOOTLOADER
            dev.unlocked = False
            acc.count("second_attestations_starting_from_the_first_ones_file")
            with AdminEnv(dev, "ledger") as ae3:
                ok3, o3, exc3 = run_step(acc, ae3, via_cli, "attestation", do_attestation,
                                         options(pin=pin, output_file_path=second,
                                                 attestation_certificate_file_path=final,
                                                 attestation_ud_source=str(ud2)), "")
                if ok3:
                    ok3, o3, exc3 = run_step(
                        acc, ae3, via_cli, "verify", do_verify_attestation,
                        options(attestation_certificate_file_path=second,
                                pubkeys_file_path=pkjson,
                                root_authority=g1.pub65(gd.root).hex()), "")
            if not ok3:
                acc.violation("genuine-ledger-flow-failed-at-second-attestation",
                              {"exc": repr(exc3)[:300]}, case)
                return
            want2 = {("UD value", 0): ud2.hex32,
                     ("Authorized signer hash", 0): gd.auth_signer_hash.hex(),
                     ("Authorized signer iteration", 0): str(gd.auth_signer_iter)}
            if framing == "current":
                want2[("UD value", 1)] = ud2.hex32
                want2[("Best block", 0)] = gd.best_block.hex()
                want2[("Last transaction signed", 0)] = gd.last_tx.hex()
            for (lab, nth), w in want2.items():
                acc.count("printed_values_compared")
                if printed(o3, lab, nth) != w:
                    acc.violation("printed-value-differs:ledger:%s:second-attestation" %
                                  lab.split(" (")[0], {"got": printed(o3, lab, nth), "want": w},
                                  case)
                    return
            final = second
            ud = ud2
        # ---- the attestation command run again over its own output, and turned down (the
        # device does not echo, is not onboarded any more, or is in no mode to be unlocked):
        # the file that verified a moment ago is what it was
        if random.Random(cseed ^ 0x0c0c).random() < 0.4:
            with open(final, "rb") as f:
                before_ = f.read()
            why = rng.choice(["echo", "not-onboarded", "mode"])
            dev.mode = MODE_BOOTLOADER
            dev.unlocked = False
            keep_ = (dev.cfg["echo_ok"], dev.onboarded)
            if why == "echo":
                dev.cfg["echo_ok"] = False
            elif why == "not-onboarded":
                dev.onboarded = False
            else:
                dev.mode = 0x07
            with AdminEnv(dev, "ledger") as ae2:
                ok2, o2, exc2 = run_step(acc, ae2, via_cli, "attestation", do_attestation,
                                         options(pin=pin, output_file_path=final,
                                                 attestation_certificate_file_path=final,
                                                 attestation_ud_source=str(ud)), "")
            dev.cfg["echo_ok"], dev.onboarded = keep_
            acc.count("attestation_commands_turned_down_over_their_own_output")
            after_ = open(final, "rb").read() if os.path.exists(final) else None
            if ok2:
                acc.violation("attestation-gathered-from-a-device-that-is-%s" % why, {}, case)
            elif after_ != before_:
                acc.violation("certificate-file-damaged-by-a-refused-attestation",
                              {"why": why, "bytes_before": len(before_),
                               "bytes_after": None if after_ is None else len(after_),
                               "exc": repr(exc2)[:200]}, case)
        if len(acc.samples) < 1:
            acc.sample({"platform": "ledger", "framing": framing, "page_size": gd.page_size,
                        "apdus": len(ae.bus.apdus()), "verify_stdout_tail": out[-500:]})
    else:
        if failed is None:
            acc.violation("altered-%s-accepted-end-to-end:ledger" % alter,
                          {"framing": framing, "stdout": out[-300:]}, case)
        else:
            acc.count("alterations_refused")
            acc.count("refused_at_" + failed[0])


def sgx_run(acc, cseed, alter, tmpdir):
    from ..admstack import AdminEnv, options
    from admin.sgx_attestation import do_attestation
    from admin.pubkeys import do_get_pubkeys
    from admin.verify_sgx_attestation import do_verify_attestation
    rng = random.Random(cseed)
    case = {"seed": cseed, "platform": "sgx", "alter": alter}
    # the PEM chain holds the quoting-enclave certificate, the platform CA and,
    # optionally, the root itself (2..3 certificates)
    depth = 2
    include_root = rng.random() < 0.6
    auth_len = rng.choice([1, 32, 100, 1000, rng.randint(1, 1000)])
    hooks = {}
    if alter == "message":
        hooks["message"] = flipper(rng)
    elif alter and alter.startswith("env:"):
        kind = alter[4:]
        Q = 432

        def alt_env(env_bytes, kind=kind):
            regions = {
                "quote": (0, Q), "quote-report-data": (368, 400), "signature": (Q + 4, Q + 68),
                "att-key": (Q + 68, Q + 132), "qe-report": (Q + 132, Q + 516),
                "qe-report-data": (Q + 132 + 320, Q + 132 + 352),
                "qe-signature": (Q + 516, Q + 580), "auth-data": (Q + 582, Q + 582 + auth_len),
            }
            if kind in regions:
                lo, hi = regions[kind]
                return flipper(rng, lo, hi)(env_bytes)
            if kind == "custom-message":
                return flipper(rng, len(env_bytes) - 127)(env_bytes)
            if kind == "cert-data-size":
                # only the 32-bit size of the certification data says something else (less by
                # up to the length of the last certificate, more by up to the length of the
                # message behind, or with one bit flipped): what follows the certification
                # data is then not the message
                import struct
                head = Q + 4 + 576 + 2 + auth_len + 6
                tail = len(env_bytes) - 127
                size = struct.unpack("<I", env_bytes[head - 4:head])[0]
                assert size == tail - head, (size, tail - head)
                last = len(env_bytes[head:tail].rstrip(b"\n").rsplit(
                    b"-----BEGIN CERTIFICATE-----", 1)[-1])
                k = rng.random()
                if k < 0.5:
                    new_size = size - rng.choice([1, 2, 5, 26, rng.randint(1, last),
                                                  rng.randint(1, last + 27)])
                elif k < 0.8:
                    new_size = size + rng.choice([1, 2, 126, 127, rng.randint(1, 127)])
                else:
                    new_size = size ^ (1 << rng.randrange(32))
                acc.count("envelopes_whose_certification_data_size_alone_was_altered")
                return env_bytes[:head - 4] + struct.pack("<I", new_size) + env_bytes[head:]
            if kind == "cert-der":
                # re-encode one certificate of the PEM chain with one DER bit flipped
                head = Q + 4 + 576 + 2 + auth_len + 6
                tail = len(env_bytes) - 127
                pems = env_bytes[head:tail]
                parts = pems.split(b"-----END CERTIFICATE-----\n")
                i = rng.randrange(min(2, len(parts) - 1))
                body = parts[i].replace(b"-----BEGIN CERTIFICATE-----\n", b"")
                orig_der = base64.b64decode(body)
                for _ in range(50):
                    der = bytearray(orig_der)
                    der[rng.randrange(len(der))] ^= 1 << rng.randrange(8)
                    if not same_certificate(orig_der, bytes(der)):
                        break
                    # e.g. the BIT STRING "unused bits" octet of the signature going
                    # from 0 to 1 when the signature's last bit is 0 anyway: OpenSSL
                    # reads the very same to-be-signed bytes and signature value, so
                    # no certificate was altered; draw another position
                    acc.count("encoding_only_flips_redrawn")
                b64 = base64.encodebytes(bytes(der)).replace(b"\n", b"")
                lines = b"\n".join(b64[j:j + 64] for j in range(0, len(b64), 64))
                parts[i] = b"-----BEGIN CERTIFICATE-----\n" + lines + b"\n"
                new = b"-----END CERTIFICATE-----\n".join(parts)
                # keep the size field consistent
                import struct
                hdr = env_bytes[:head - 4] + struct.pack("<I", len(new))
                return hdr + new + env_bytes[tail:]
            return env_bytes
        hooks["envelope"] = alt_env
    gd = GenuineSGX(rng, depth=depth, auth_len=auth_len, alter=hooks,
                    include_root=include_root)
    dev = gd.dev
    pin = dev.pin.decode()
    via_cli = rng.random() < 0.5
    ud = gen_ud(rng, acc, alter is None)
    final = os.path.join(tmpdir, "sgxatt.json")
    pkout = os.path.join(tmpdir, "sgxpk.txt")
    pkjson = os.path.join(tmpdir, "sgxpk.json")
    rootp = os.path.join(tmpdir, "root.pem")
    for p in (final, pkout, pkjson, rootp):
        if os.path.exists(p):
            os.unlink(p)
    acc.evaluations += 1
    acc.distinct.add("sgx|%d|%d|%s" % (2 + include_root, gd.page_size // 100, alter))
    failed = None
    out = ""
    from ..fakenet import FakeWeb
    with AdminEnv(dev, "sgx") as ae, FakeWeb() as web:
        for name, fn in (("attestation", do_attestation), ("pubkeys", do_get_pubkeys),
                         ("verify", do_verify_attestation)):
            if name == "attestation":
                opts = options(pin=pin, output_file_path=final, attestation_ud_source=str(ud),
                               any_pin=True)
                if random.Random(cseed ^ 0x0e0e).random() < 0.4:
                    # the powHSM is up and running (unlocked): the attestation is taken with
                    # -u, by a wrapper that hands over the PIN as it always does
                    dev.unlocked = True
                    opts = options(pin=rng.choice([pin, pin, None]), no_unlock=True,
                                   output_file_path=final, attestation_ud_source=str(ud),
                                   any_pin=True)
                    acc.count("sgx_attestations_of_a_running_device_with_no_unlock")
            elif name == "pubkeys":
                opts = options(no_unlock=True, output_file_path=pkout)
            else:
                root_cert = gd.material.root_cert
                if alter == "root":
                    k = g2.new_key(rng)
                    root_cert = g2.make_cert("root", k.public_key(), "root", k)
                root_pem = g2.pem(root_cert)
                if alter == "root-signature":
                    # the genuine root certificate - subject, key, everything - with one bit
                    # of its signature value flipped (it still parses)
                    import base64
                    from cryptography.hazmat.primitives import serialization
                    der_ = bytearray(root_cert.public_bytes(serialization.Encoding.DER))
                    der_[len(der_) - 1 - rng.randrange(20)] ^= 1 << rng.randrange(8)
                    b64 = base64.b64encode(bytes(der_)).decode()
                    root_pem = "-----BEGIN CERTIFICATE-----\n" + "\n".join(
                        b64[i:i + 64] for i in range(0, len(b64), 64)) + \
                        "\n-----END CERTIFICATE-----\n"
                with open(rootp, "w") as f:
                    f.write(root_pem)
                # the root of trust reaches the tool as a file, from a URL, or from the
                # built-in default URL (no -r); the same URL serves each device's own root
                import admin.verify_sgx_attestation as vsa
                delivery = rng.choice(["file", "url", "default-url"])
                acc.count("root_of_trust_delivered_by_" + delivery.replace("-", "_"))
                if delivery == "url":
                    rootp = "https://certificates.example/sgx/root.pem"
                    web.serve(rootp, root_pem)
                elif delivery == "default-url":
                    web.serve(vsa.DEFAULT_ROOT_AUTHORITY, root_pem)
                    rootp = None
                if alter == "final-file":
                    def pick(d):
                        e = rng.choice([x for x in d["elements"] if x["type"] != "x509_pem"])
                        return e, rng.choice([k for k in ("message", "signature", "custom_data",
                                                          "key", "auth_data") if k in e])
                    flip_json_hex(final, rng, pick)
                if alter == "pubkeys-file":
                    with open(pkjson) as f:
                        pk = json.load(f)
                    pk[rng.choice(list(pk))] = g1.pub65(g1.new_key(rng)).hex()
                    with open(pkjson, "w") as f:
                        json.dump(pk, f)
                opts = options(attestation_certificate_file_path=final,
                               pubkeys_file_path=pkjson, root_authority=rootp)
            ok, o, exc = run_step(acc, ae, via_cli, name, fn, opts, "")
            out = o
            if not ok:
                failed = (name, exc)
                break
    if alter is None:
        if failed is not None:
            acc.violation("genuine-sgx-flow-failed-at-%s" % failed[0],
                          {"exc": repr(failed[1])[:300], "depth": depth, "auth_len": auth_len,
                           "page": gd.page_size}, case)
            return
        acc.count("genuine_verified")
        if getattr(gd, "zero_edge_digest", False):
            acc.count("genuine_sgx_flows_whose_message_digest_has_a_zero_edge")
        q = gd.material.quote
        want = {"Hash": gd.keys_hash().hex(), "UD value": ud.hex32, "Best block": gd.best_block.hex(),
                "Last transaction signed": gd.last_tx.hex(), "Platform": "sgx",
                "Timestamp": str(int.from_bytes(gd.timestamp, "big")),
                "Installed powHSM MRENCLAVE": q[48 + 64:48 + 96].hex(),
                "Installed powHSM MRSIGNER": q[48 + 128:48 + 160].hex()}
        for lab, w in want.items():
            acc.count("printed_values_compared")
            if printed(out, lab) != w:
                acc.violation("printed-value-differs:sgx:%s" % lab,
                              {"got": printed(out, lab), "want": w}, case)
        if len(acc.samples) < 2:
            acc.sample({"platform": "sgx", "depth": depth, "auth_len": auth_len,
                        "page_size": gd.page_size, "envelope_len": len(gd.envelope),
                        "verify_stdout_tail": out[-400:]})
    else:
        if failed is None:
            acc.violation("altered-%s-accepted-end-to-end:sgx" % alter, {"stdout": out[-300:]},
                          case)
        else:
            acc.count("alterations_refused")
            acc.count("refused_at_" + failed[0])


def run_case(acc, cseed, tmpdir):
    rng = random.Random(cseed)
    for alter in [None, None] + LEDGER_ALTER:
        ledger_run(acc, rng.getrandbits(48), alter, tmpdir)
    for alter in [None, None] + SGX_ALTER:
        sgx_run(acc, rng.getrandbits(48), alter, tmpdir)


def run_shard(spec, acc):
    env.setup()
    if spec.get("shard", spec.get("seed", 0)) % 4 >= 2 and env.on_other_fs():
        acc.count("shards_with_files_on_another_file_system_than_the_temp_directory")
    rng = random.Random(spec["seed"])
    tmpdir = env.mkdtemp("c15", spec.get("shard", spec.get("seed", 0)) % 2 == 1,
                         other_fs=spec.get("shard", spec.get("seed", 0)) % 4 >= 2)
    try:
        for i in range(spec["n"]):
            run_case(acc, rng.getrandbits(48), tmpdir)
    finally:
        shutil.rmtree(tmpdir, ignore_errors=True)


def replay(case, acc):
    env.setup()
    tmpdir = env.mkdtemp("c15")
    try:
        if case["platform"] == "ledger":
            ledger_run(acc, case["seed"], case["alter"], tmpdir)
        else:
            sgx_run(acc, case["seed"], case["alter"], tmpdir)
    finally:
        shutil.rmtree(tmpdir, ignore_errors=True)
