# C13 - query replies report the device's data verbatim
import os
import json
import random

from .. import env
from ..oracle import fwconst
from ..gen import der
from ..simdev.device import (path_to_binary, ALL_PATHS, MODE_SIGNER, MODE_UI_HEARTBEAT,
                             MODE_BOOTLOADER)

ID = "C13"
LEVEL = "exploration"
RULE = ("random device states (32-byte hashes per firmware hash descriptor parsed from "
        "bc_state.h, difficulties incl. 0 / 2^288-1 / leading-zero values, all 8 flag "
        "combinations, 3 networks + invalid network byte, 6 key paths + an unlisted path, "
        "heartbeat key/message/tweak of varied lengths, DER signatures of lengths 8..72 incl. the "
        "0x31 prefix) queried through the real stack; every reply field is compared with the "
        "datum the device holds under the docs/protocol.md name; uiHeartbeat additionally over "
        "device mode transitions (normal, stuck in signer, stuck in heartbeat, lands in "
        "bootloader, started in heartbeat mode); then histories of 2..4 state-changing "
        "operations (advance total / partial / refused by the device, ancestor "
        "update ok / refused, reset, link failure + reconnection to a device with other keys) "
        "each followed by blockchainState and getPubKey against the device's new data. distinct = (command, state class, flags, "
        "network, sig shape, transition); non-trivial = every case (each carries random data)")
RULE_ADDED = (
              'Also: device data that looks like framing (status words, headers, padding); histories '
              'of state-changing operations (advance total / partial / refused, ancestor update, '
              'reset, link failure + other device) followed by the queries again; an exchange '
              "answered later than the host's time-out "
              ' '
              'Round 8: uiHeartbeat transitions with the first or second re-connection of the d'
              'ialogue finding no device; device data beginning like key-encoding markers. '
              ' '
              'Round 9: slow devices - the answers to one command or to all take 1..9 s of virt'
              "ual time, within the host's 10 s: every successful reply carries its own request"
              "'s data. "
              ' '
              'Round 12: the manager in its own process (entry point, main thread) with a devic'
              'e whose answers take 0.15 s, SIGTERM during a multi-exchange query: gone, or sti'
              "ll answering with the device's data. "
              ' '
              'Round 13: uiHeartbeat requests in a row with related values (next of a counter, '
              'same, one byte changed, upper case). '
              ' '
              'Round 14: slow answers (2.5..61 s) over the TCP transports; a heartbeat after wh'
              'ich the device is locked in the bootloader and its signer does not come up whate'
              'ver is done. '
              ' '
              'Round 16: a device answering one hash query of blockchainState with another hash'
              "'s identifier and datum. "
              ' '
              'Round 17: heartbeats during which the device is not found for three or four atte'
              'mpts in a row, then queries. '
              ' '
              'Round 18: a key asked for again after a heartbeat whose re-connection found a de'
              'vice with other keys. '
              ' '
              'Round 19: a second manager in the same process, on another device over another t'
              'ransport; each is asked for keys in turn and answers with what its own device ho'
              'lds. ')
RULE = RULE + " " + RULE_ADDED.strip()
ASSUMPTIONS = [
    "simulated device + fake HID/TCP transports are trusted; firmware selectors are parsed "
    "from firmware/src/powhsm/src/bc_state.h and bc_nu.h, flag order from bc_state.c dump_flags",
    "signature shapes are valid DER-like encodings (a device that returns undecodable DER is "
    "outside this property's quantifier)",
]
FLOORS = {"quick": {"evaluations": 900, "field_comparisons": 6000, "uihb_transitions": 100,
                    "history_operations": 300, "replies_judged_after_late_answer": 150},
          "thorough": {"evaluations": 1000000, "field_comparisons": 3000000,
                       "uihb_transitions": 50000, "history_operations": 100000,
                       "replies_judged_after_late_answer": 50000}}

NETNAMES = {"NETID_MAINNET": "mainnet", "NETID_TESTNET": "testnet", "NETID_REGTEST": "regtest"}


def shards(tier, seed):
    if tier == "quick":
        return [{"seed": seed * 1000 + i, "n": 22} for i in range(16)]
    return [{"seed": seed * 1000 + i, "n": 8000} for i in range(32)]


def gen_diff(rng):
    k = rng.random()
    if k < 0.1:
        return 0
    if k < 0.2:
        return 2**288 - 1
    if k < 0.3:
        return rng.getrandbits(8 * rng.randint(1, 35))
    if k < 0.4:
        return 1 << (8 * rng.randint(1, 35))
    return rng.getrandbits(288)


def art(rng, n):
    """n device bytes; a fifth of them look like artefacts of the transport or of the
    APDU framing at one end (a status word, a command header, padding) - they are data
    all the same and must be reported as they are"""
    b = rng.randbytes(n)
    if n < 2 or rng.random() >= 0.2:
        return b
    tail = rng.choice([b"\x90\x00", b"\x90\x00", b"\x6a\x87", b"\x00\x00", b"\xff\xff",
                       b"\x80\x60", b"\x0a", b"\x00", b"\x04\x04", b"\x04", b"\x02\x02"])
    if rng.random() < 0.7:
        return b[:n - len(tail)] + tail if n >= len(tail) else b
    return (tail + b)[:n]


def gen_hb(rng):
    sig, rs = der.make_sig(rng, rng.choice(["normal", "short", "long", "x31", "rubbish", "min"]))
    return {"signature": sig, "rs": rs,
            "message": art(rng, rng.choice([0, 1, 78, 83, 100, rng.randint(1, 200)])),
            "tweak": art(rng, rng.choice([32, 32, 0, 31, 33])),
            "pubkey": art(rng, rng.choice([65, 65, 33, 64]))}


def netids():
    import os
    import re
    txt = open(os.path.join(env.REPO, "firmware/src/powhsm/src/bc_nu.h")).read()
    return {m.group(1): int(m.group(2), 0)
            for m in re.finditer(r"#define\s+(NETID_\w+)\s+(0x[0-9a-fA-F]+)", txt)}


def signalled_manager(acc, rng):
    """the manager as it is really started (own process, entry point on the main thread,
    the real ledgerblue HID stack over the fake device), a device that takes 0.15 s per
    exchange, and a SIGTERM (the usual way services are stopped) arriving while a
    multi-exchange query is in flight.  Either the manager is gone - or whatever it still
    answers is the device's data."""
    import socket
    import signal
    import subprocess
    import time
    import sys
    from . import c02, c03
    ref = c02.make_device(random.Random(6))      # the child builds the same device
    sock = socket.socket()
    sock.bind(("127.0.0.1", 0))
    port = sock.getsockname()[1]
    sock.close()
    import tempfile
    import shutil
    mgr_tmp = tempfile.mkdtemp(prefix="pv-c03-mgr-")
    envv = dict(os.environ, PYTHONHASHSEED="0", PYTHONDONTWRITEBYTECODE="1",
                PV_SLOW_EXCHANGES="0.15", PV_MGR_TMP=mgr_tmp)
    child = subprocess.Popen([sys.executable, "-m", "pv.props.c03", "--manager-child",
                              str(port), "0"], cwd=env.VERIF, env=envv,
                             stdout=subprocess.DEVNULL, stderr=subprocess.DEVNULL)
    case = {"kind": "signal"}
    try:
        t0 = time.time()
        up = False
        while time.time() - t0 < 30 and child.poll() is None:
            if c03._client(port, b'{"command":"version"}\n'):
                up = True
                break
            time.sleep(0.1)
        if not up:
            acc.notes.append("signalled manager did not come up")
            return
        acc.count("managers_signalled_during_an_exchange")
        acc.evaluations += 1
        res = {}

        def ask():
            res["state"] = c03._client(port, b'{"command":"blockchainState","version":5}\n',
                                       timeout=30)
        import threading
        th = threading.Thread(target=ask, daemon=True)
        th.start()
        time.sleep(0.4 + rng.random() * 0.5)       # nine exchanges of 0.15 s are under way
        child.send_signal(signal.SIGTERM)
        th.join(40)
        time.sleep(0.3)
        for p in rng.sample(ALL_PATHS, 3):
            if child.poll() is not None:
                acc.count("managers_gone_after_the_signal")
                return
            out = c03._client(port, json.dumps({"command": "getPubKey", "version": 5,
                                                "keyId": p}).encode() + b"\n", timeout=30)
            if not out:
                continue
            try:
                reply = json.loads(out.decode())
            except Exception:
                acc.violation("after-signal:unparseable-reply", {"out": repr(out)[:100]}, case)
                return
            acc.count("replies_judged_after_a_signal")
            if reply.get("errorcode") == 0 and \
                    reply.get("pubKey") != ref.pubkeys[path_to_binary(p)].hex():
                acc.violation("after-signal:reply-0-with-data-of-another-exchange:getPubKey",
                              {"reply": str(reply)[:200], "path": p}, case)
                return
    finally:
        if child.poll() is None:
            child.kill()
        child.wait(10)
        shutil.rmtree(mgr_tmp, ignore_errors=True)


def run_shard(spec, acc):
    env.setup()
    if spec["seed"] % 1000 in (3, 11):
        signalled_manager(acc, random.Random(spec["seed"]))
    from ..stack import Stack
    from ..simdev.device import SimDevice
    rng = random.Random(spec["seed"])
    fw = fwconst.get()["bc_state"]
    nets = netids()

    def cmpf(what, got, want, case):
        acc.count("field_comparisons")
        if got != want or type(got) is not type(want):
            acc.violation("field-differs:%s" % what, {"got": got, "want": want}, case)
            return False
        return True

    for i in range(spec["n"]):
        cseed = rng.getrandbits(48)
        for platform in (["ledger", "ledger", "sgx", "tcp"][i % 4],):
            run_state(acc, cseed, platform, fw, nets, cmpf, Stack, SimDevice)


def run_state(acc, cseed, platform, fw, nets, cmpf, Stack, SimDevice):
    rng = random.Random(cseed)
    case = {"seed": cseed, "platform": platform}
    hashes = {hid: art(rng, 32) for hid in fw.values()}
    diff = gen_diff(rng)
    flags = tuple(rng.randint(0, 1) * rng.choice([1, 1, 0xff, 2]) for _ in range(3))
    netname = rng.choice(list(nets) + ["invalid"])
    netbyte = nets[netname] if netname != "invalid" else rng.choice([0, 4, 0x7f, 0xff])
    checkpoint = art(rng, 32)
    mindiff = gen_diff(rng)
    params = checkpoint + mindiff.to_bytes(36, "big") + bytes([netbyte])
    pubkeys = {path_to_binary(p): art(rng, 65) for p in ALL_PATHS}
    hb = gen_hb(rng)
    uihb = gen_hb(rng)
    dev = SimDevice(platform=platform, mode=MODE_SIGNER, pubkeys=pubkeys,
                    state={"hashes": hashes, "difficulty": diff, "flags": flags},
                    params=None, hb=hb, uihb=uihb)
    # params must be valid for bring-up; the generated ones are installed afterwards
    with Stack(dev) as s:
        s.initialize()
        dev.params = params
        # ---- getPubKey
        for p in ALL_PATHS:
            reply, exc, _ = s.request({"command": "getPubKey", "version": 5, "keyId": p})
            acc.evaluations += 1
            if exc is not None or not reply:
                acc.violation("getPubKey-failed", {"exc": repr(exc), "reply": reply}, case)
                continue
            cmpf("getPubKey.errorcode", reply.get("errorcode"), 0, case)
            cmpf("getPubKey.pubKey", reply.get("pubKey"), pubkeys[path_to_binary(p)].hex(), case)
        reply, exc, _ = s.request({"command": "getPubKey", "version": 5,
                                   "keyId": "m/44'/%d'/0'/0/0" % rng.choice([2, 60, 138])})
        acc.evaluations += 1
        if exc is not None or (reply or {}).get("errorcode") != -103:
            acc.violation("unlisted-path-not-103", {"exc": repr(exc), "reply": reply}, case)
        # ---- a second manager in the same process, connected to another device over another
        # transport (a supervisor or a test bench running two of them): each answers with
        # what ITS device holds, whatever the other one was asked before
        if rng.random() < 0.12:
            from comm.platform import Platform as _P
            saved_p = (_P._platform, _P._options)
            plat2 = rng.choice(["tcp", "sgx"]) if platform == "ledger" else "ledger"
            pubkeys2 = {path_to_binary(p): art(rng, 65) for p in ALL_PATHS}
            hashes2 = {hid: art(rng, 32) for hid in fw.values()}
            dev2 = SimDevice(platform=plat2, mode=MODE_SIGNER, pubkeys=pubkeys2,
                             state={"hashes": hashes2, "difficulty": gen_diff(rng),
                                    "flags": flags}, params=None, hb=gen_hb(rng),
                             uihb=gen_hb(rng))
            acc.count("second_managers_in_the_same_process")
            try:
                with Stack(dev2) as s2:
                    s2.initialize()
                    order = [(s2, pubkeys2, "second"), (s, pubkeys, "first")]
                    if rng.random() < 0.5:
                        order.append((s2, pubkeys2, "second"))
                    for (sx, pkx, which) in order:
                        for p in rng.sample(ALL_PATHS, rng.randint(1, len(ALL_PATHS))):
                            reply, exc, _ = sx.request({"command": "getPubKey", "version": 5,
                                                        "keyId": p})
                            acc.evaluations += 1
                            if exc is not None or not reply or reply.get("errorcode") != 0:
                                acc.violation("getPubKey-failed-beside-another-manager",
                                              {"exc": repr(exc), "reply": reply,
                                               "manager": which}, case)
                                continue
                            if not cmpf("getPubKey.pubKey", reply.get("pubKey"),
                                        pkx[path_to_binary(p)].hex(), case):
                                acc.violation(
                                    "getPubKey-of-one-manager-reports-the-key-of-another-"
                                    "manager's-device", {"manager": which, "path": p}, case)
                    reply, exc, _ = s2.request({"command": "blockchainState", "version": 5})
                    acc.evaluations += 1
                    if exc is None and reply and reply.get("errorcode") == 0:
                        cmpf("state.best_block", reply["state"].get("best_block"),
                             hashes2[fw[fwconst.STATE_FIELD_TO_FW["best_block"]]].hex(), case)
                    else:
                        acc.violation("blockchainState-failed-beside-another-manager",
                                      {"exc": repr(exc), "reply": reply}, case)
            finally:
                _P._platform, _P._options = saved_p
        # ---- a device that answers one of the hash queries with another hash: a well-formed
        # answer naming another of the seven identifiers, with that one's datum.  The reply
        # is an error, or whatever it says under a name is what the device said under it
        if rng.random() < 0.08:
            ids = sorted(hashes)
            asked, other = rng.sample(ids, 2)

            def swapped(d, apdu, asked=asked, other=other):
                if len(apdu) > 3 and apdu[2] == 1 and apdu[3] == asked:
                    return bytes([0x80, 0x20, 1, other]) + hashes[other]
                return d.get_state(apdu)
            dev.extra[0x20] = swapped
            reply, exc, _ = s.request({"command": "blockchainState", "version": 5})
            dev.extra.pop(0x20, None)
            acc.evaluations += 1
            acc.count("state_queries_answered_with_another_hash")
            if exc is None and isinstance(reply, dict) and reply.get("errorcode") == 0:
                st_ = reply.get("state", {})
                for field, fwname in fwconst.STATE_FIELD_TO_FW.items():
                    node = st_
                    for part in field.split("."):
                        node = node.get(part) if isinstance(node, dict) else None
                    if fw[fwname] == asked and node != hashes[asked].hex():
                        acc.violation("state-reply-puts-another-hash-under-a-name",
                                      {"field": field, "reply_value": node,
                                       "device_value_for_that_name": hashes[asked].hex(),
                                       "answered_identifier": other}, case)
        # ---- blockchainState
        reply, exc, _ = s.request({"command": "blockchainState", "version": 5})
        acc.evaluations += 1
        if exc is not None or not reply or reply.get("errorcode") != 0:
            acc.violation("blockchainState-failed", {"exc": repr(exc), "reply": reply}, case)
        else:
            st = reply.get("state", {})
            for field, fwname in fwconst.STATE_FIELD_TO_FW.items():
                node = st
                for part in field.split("."):
                    node = node.get(part) if isinstance(node, dict) else None
                cmpf("state." + field, node, hashes[fw[fwname]].hex(), case)
            up = st.get("updating", {})
            cmpf("state.updating.total_difficulty", up.get("total_difficulty"), diff, case)
            # firmware dump_flags order: in_progress, already_validated, found_best_block
            for k, name in enumerate(["in_progress", "already_validated", "found_best_block"]):
                cmpf("state.updating." + name, up.get(name), bool(flags[k]), case)
            want_keys = {"best_block", "newest_valid_block", "ancestor_block",
                         "ancestor_receipts_root", "updating"}
            cmpf("state.keys", sorted(st.keys()), sorted(want_keys), case)
            cmpf("state.updating.keys", sorted(up.keys()),
                 sorted(["in_progress", "already_validated", "next_expected_block",
                         "total_difficulty", "found_best_block", "best_block",
                         "newest_valid_block"]), case)
        acc.distinct.add("state|%s|%s|%s" % (platform, flags, "zero" if diff == 0 else
                                             "max" if diff == 2**288 - 1 else diff.bit_length() // 32))
        # ---- blockchainParameters
        reply, exc, _ = s.request({"command": "blockchainParameters", "version": 5})
        acc.evaluations += 1
        if exc is not None or not reply:
            acc.violation("blockchainParameters-failed", {"exc": repr(exc), "reply": reply}, case)
        elif netname == "invalid":
            if reply.get("errorcode") != -905:
                acc.violation("invalid-network-byte-not-905", {"reply": reply}, case)
        else:
            cmpf("parameters.errorcode", reply.get("errorcode"), 0, case)
            pr = reply.get("parameters", {})
            cmpf("parameters.checkpoint", pr.get("checkpoint"), checkpoint.hex(), case)
            cmpf("parameters.minimum_difficulty", pr.get("minimum_difficulty"), mindiff, case)
            cmpf("parameters.network", pr.get("network"), NETNAMES[netname], case)
        acc.distinct.add("params|%s|%s" % (platform, netname))
        # ---- signerHeartbeat
        ud = rng.randbytes(16)
        reply, exc, _ = s.request({"command": "signerHeartbeat", "version": 5, "udValue": ud.hex()})
        acc.evaluations += 1
        if platform == "sgx":
            # documented: unsupported on SGX, -905
            if exc is not None or (reply or {}).get("errorcode") != -905:
                acc.violation("sgx-heartbeat-not-905", {"exc": repr(exc), "reply": reply}, case)
        elif exc is not None or not reply or reply.get("errorcode") != 0:
            acc.violation("signerHeartbeat-failed", {"exc": repr(exc), "reply": reply}, case)
        else:
            check_hb(cmpf, "signerHeartbeat", reply, hb, case)
            if dev.hb.get("ud") != ud:
                acc.violation("heartbeat-ud-value-not-relayed", {"got": dev.hb.get("ud")}, case)
        acc.distinct.add("hb|%s|%d|%d" % (platform, len(hb["signature"]), hb["signature"][0]))
        if len(acc.samples) < 2:
            acc.sample({"platform": platform, "device_flags": flags, "difficulty": diff,
                        "network_byte": netbyte, "reply_signerHeartbeat": reply})
        # ---- histories: operations that change what the device holds (successful, partial
        # and refused advances, ancestor updates, resets, a link failure with reconnection)
        # each followed by the queries again; after every operation the device holds new
        # random data, so anything remembered from before shows up as a difference
        if platform != "sgx":
            history(acc, rng, s, dev, fw, cmpf, case, netname != "invalid")
        if platform != "ledger" and netname != "invalid":
            # (over TCP the transport sets no time limit of its own: slow is any length)
            slow_answers(acc, rng, s, dev, fw, cmpf, case, hb, pubkeys, uihb,
                         secs=rng.choice([2.5, 9.0, 10.5, 11.5, 31.0, 61.0]), tcp=True)
        if platform == "ledger" and netname != "invalid":
            slow_answers(acc, rng, s, dev, fw, cmpf, case, hb, pubkeys, uihb)
            late_answers(acc, rng, s, dev, fw, cmpf, case, hb, pubkeys, uihb)
    # ---- uiHeartbeat over mode transitions (Ledger only: needs app switching)
    if platform != "ledger":
        return
    trans = rng.choice(["normal", "normal", "stuck_signer", "stuck_hb", "to_bootloader",
                        "back_to_bootloader", "start_in_hb", "hb_error",
                        "back_to_bootloader_for_good"])
    cfg = {}
    if trans == "back_to_bootloader_for_good":
        # after the heartbeat the device shows up locked in the bootloader - everything in
        # order there, the PIN would be taken - and whatever is done about it, the signer
        # does not come up: no success is reported with the device left like that
        cfg["hb_back_mode"] = MODE_BOOTLOADER
        cfg["post_exit_mode"] = MODE_BOOTLOADER
    if trans == "stuck_signer":
        cfg["hb_exit_mode"] = MODE_SIGNER
    elif trans == "to_bootloader":
        cfg["hb_exit_mode"] = MODE_BOOTLOADER
    elif trans == "stuck_hb":
        cfg["hb_back_mode"] = MODE_UI_HEARTBEAT
    elif trans == "back_to_bootloader":
        cfg["hb_back_mode"] = MODE_BOOTLOADER
    exitb = rng.choice(["read_error", "read_error", "ok", "timeout"])
    dev = SimDevice(platform="ledger", mode=MODE_SIGNER, pubkeys=pubkeys, uihb=dict(uihb),
                    exit_behaviour=exitb, **cfg)
    case = dict(case, transition=trans, exit_behaviour=exitb)
    with Stack(dev) as s:
        s.initialize()
        if trans == "start_in_hb":
            dev.mode = MODE_UI_HEARTBEAT
        if trans == "hb_error":
            dev.uihb.pop("signature")
            dev.uihb["signature"] = b""
            dev.extra[0x60] = _hb_fail
        ud = rng.randbytes(32)
        # the device is not found again at the first / second re-connection of the
        # dialogue (slow re-enumeration after an application switch)
        reconn = rng.choice([None, None, None, 1, 2, 2])
        if reconn:
            s.bus.enumerate_skip = reconn - 1
            # (not found once - or for three, four attempts in a row: seconds off the bus)
            s.bus.enumerate_fail = rng.choice([1, 1, 3, 4])
            acc.count("uihb_with_a_failed_reconnection")
            case = dict(case, failed_reconnection=reconn)
        # (a key asked for before the heartbeat ... see below)
        p0_ = rng.choice(ALL_PATHS)
        s.request({"command": "getPubKey", "version": 5, "keyId": p0_})
        reply, exc, _ = s.request({"command": "uiHeartbeat", "version": 5, "udValue": ud.hex()})
        acc.evaluations += 1
        acc.count("uihb_transitions")
        if exc is None and isinstance(reply, dict) and reply.get("errorcode") == 0 and \
                dev.mode == MODE_SIGNER:
            # ... and again after it: the device found after the re-connections of a
            # heartbeat need not be the one that was there before (two devices on the host);
            # the key reported is the one the device now there holds
            newk = art(rng, 65)
            dev.pubkeys[path_to_binary(p0_)] = newk
            r0, e0, _ = s.request({"command": "getPubKey", "version": 5, "keyId": p0_})
            acc.evaluations += 1
            acc.count("keys_asked_again_after_a_heartbeat_found_another_device")
            if e0 is None and isinstance(r0, dict) and r0.get("errorcode") == 0 and \
                    r0.get("pubKey") != newk.hex():
                acc.violation("getPubKey-after-heartbeat-reports-the-key-of-the-device-before",
                              {"reply": r0, "path": p0_}, case)
                return
        acc.distinct.add("uihb|%s|%s|%s" % (trans, exitb, reconn))
        if exc is not None or not reply or type(reply.get("errorcode")) is not int:
            acc.violation("uiHeartbeat-no-verdict", {"exc": repr(exc), "reply": reply}, case)
            return
        code = reply["errorcode"]
        if code == 0:
            if dev.mode != MODE_SIGNER:
                mech = "uiHeartbeat-ok-but-device-left-in-mode-%d:%s" % (dev.mode, trans)
                if trans == "start_in_hb" and dev.mode == MODE_UI_HEARTBEAT:
                    mech = "uiHeartbeat:started-in-ui-heartbeat-mode:reply-0-device-stays-in-heartbeat-mode"
                acc.violation(mech,
                              {"reply_code": code, "device_mode": dev.mode}, case)
            check_hb(cmpf, "uiHeartbeat", reply, uihb, case)
            if dev.uihb.get("ud") != ud:
                acc.violation("heartbeat-ud-value-not-relayed", {"got": dev.uihb.get("ud")}, case)
            if trans in ("stuck_signer", "to_bootloader", "hb_error"):
                acc.violation("uiHeartbeat-ok-without-heartbeat-mode", {"trans": trans}, case)
            elif dev.mode == MODE_SIGNER:
                # ---- and again, right away, with a value that is the next of a series (a
                # counter or a timestamp in the last bytes, as docs/heartbeat.md suggests;
                # or the same value): each heartbeat is the device's answer to its own value
                for k_ in range(rng.randint(1, 3)):
                    how = rng.choice(["next-counter", "next-counter", "next-counter", "same", "first-byte",
                                      "last-byte", "case"])
                    n_ = int.from_bytes(ud, "big")
                    ud2 = {"next-counter": ((n_ + rng.choice([1, 60, 256])) % 2**256
                                            ).to_bytes(32, "big"),
                           "same": ud, "case": ud,
                           "first-byte": bytes([ud[0] ^ 1]) + ud[1:],
                           "last-byte": ud[:-1] + bytes([ud[-1] ^ 0x80])}[how]
                    sig2, rs2 = der.make_sig(rng, "normal")
                    dev.uihb.update(signature=sig2, rs=rs2,
                                    message=art(rng, rng.choice([78, 83, rng.randint(1, 200)])))
                    dev.uihb.pop("ud", None)
                    text = ud2.hex().upper() if how == "case" else ud2.hex()
                    reply, exc, _ = s.request({"command": "uiHeartbeat", "version": 5,
                                               "udValue": text})
                    acc.evaluations += 1
                    acc.count("uihb_repeated_with_a_related_value")
                    if exc is not None or not reply or reply.get("errorcode") not in (0, -905):
                        acc.violation("uiHeartbeat-no-verdict", {"exc": repr(exc), "reply": reply,
                                                                 "second": how}, case)
                        return
                    if reply["errorcode"] != 0:
                        break
                    check_hb(cmpf, "uiHeartbeat", reply, dev.uihb, case)
                    if dev.uihb.get("ud") != ud2:
                        acc.violation("heartbeat-ud-value-not-relayed",
                                      {"got": repr(dev.uihb.get("ud")), "second": how}, case)
                        return
                    ud = ud2
        elif code != -905:
            acc.violation("uiHeartbeat-error-not-905", {"reply": reply}, case)
        elif trans == "normal" and exitb != "timeout" and not reconn:
            acc.violation("uiHeartbeat-refused-on-normal-transition", {"reply": reply}, case)
        elif trans == "normal" and reconn:
            # the heartbeat failed because the device could not be found again in time; it
            # is back now, in the signer: the queries that follow report its data
            dev.mode = MODE_SIGNER
            dev.pending_link = None
            s.bus.enumerate_fail = 0
            s.bus.enumerate_skip = 0
            for p_ in rng.sample(ALL_PATHS, 2):
                r3, e3, _ = s.request({"command": "getPubKey", "version": 5, "keyId": p_})
                acc.evaluations += 1
                acc.count("queries_after_a_heartbeat_that_lost_the_device_for_a_while")
                if e3 is not None or not isinstance(r3, dict) or r3.get("errorcode") != 0 or \
                        r3.get("pubKey") != pubkeys[path_to_binary(p_)].hex():
                    acc.violation("query-after-a-failed-heartbeat-not-answered-with-the-"
                                  "devices-data", {"reply": r3, "exc": repr(e3), "path": p_},
                                  case)
                    return


def history(acc, rng, s, dev, fw, cmpf, case, params_ok):
    from ..gen import blocks as gb
    from ..simdev.transport import Fault
    blocks = [gb.gen_block(rng, 19, tiny=True) for _ in range(3)]

    def adv(n):
        return {"command": "advanceBlockchain", "version": 5,
                "blocks": [b["raw"].hex() for b in blocks[:n]], "brothers": [[]] * n}
    ops = {
        "advance-total": (adv(1), {}, 0),
        "advance-partial": (adv(2), {"final": "partial"}, 1),
        "advance-refused": (adv(3), {"reject_if_count": {3: (2, 0x6B87 + 19)}}, -201),
        "advance-refused-first": (adv(3), {"reject_if_count": {3: (1, 0x6B87 + 7)}}, -204),
        "ancestor-ok": ({"command": "updateAncestorBlock", "version": 5,
                         "blocks": [b["raw"].hex() for b in blocks[:2]]}, {}, 0),
        "ancestor-refused": ({"command": "updateAncestorBlock", "version": 5,
                              "blocks": [b["raw"].hex() for b in blocks[:3]]},
                             {"reject_if_count": {3: (2, 0x6B87 + 19)}}, -201),
        "reset": ({"command": "resetAdvanceBlockchain", "version": 5}, {}, 0),
        "link-fault": (None, {}, None),
    }
    if case.get("platform") != "ledger" or not params_ok:
        # socket errors are not classified as link failures (no repair follows); a device
        # with an invalid network byte cannot be brought up again
        del ops["link-fault"]
    for step in range(rng.randint(2, 4)):
        name = rng.choice(sorted(ops))
        req, pol, want = ops[name]
        dev.adv_policy = dict(pol)
        acc.count("history_operations")
        if name == "link-fault":
            s.bus.arm({0: Fault(rng.choice(["read_error", "write_error"]))})
            s.request({"command": "blockchainState", "version": 5})
            s.bus.arm({})
            dev.pending_link = None
        else:
            r, e, _ = s.request(req)
            s.bus.arm({})
            if e is not None or not isinstance(r, dict) or r.get("errorcode") != want:
                acc.violation("history-operation-result:%s" % name,
                              {"reply": r, "exc": repr(e), "want": want}, case)
                return
        # the device now holds other data
        hashes = {hid: art(rng, 32) for hid in fw.values()}
        diff = gen_diff(rng)
        flags = tuple(rng.randint(0, 1) for _ in range(3))
        dev.state = {"hashes": hashes, "difficulty": diff, "flags": flags}
        if name == "link-fault":
            # another device may have been plugged: keys too
            dev.pubkeys = {path_to_binary(p): art(rng, 65) for p in ALL_PATHS}
        reply, exc, _ = s.request({"command": "blockchainState", "version": 5})
        acc.evaluations += 1
        c2 = dict(case, after=name, step=step)
        if exc is not None or not reply or reply.get("errorcode") != 0:
            acc.violation("blockchainState-failed:after-%s" % name,
                          {"exc": repr(exc), "reply": reply}, c2)
            return
        st = reply.get("state", {})
        for field, fwname in fwconst.STATE_FIELD_TO_FW.items():
            node = st
            for part in field.split("."):
                node = node.get(part) if isinstance(node, dict) else None
            cmpf("state." + field + ":after-" + name, node, hashes[fw[fwname]].hex(), c2)
        up = st.get("updating", {})
        cmpf("state.updating.total_difficulty:after-" + name, up.get("total_difficulty"),
             diff, c2)
        for k, nm in enumerate(["in_progress", "already_validated", "found_best_block"]):
            cmpf("state.updating.%s:after-%s" % (nm, name), up.get(nm), bool(flags[k]), c2)
        p = rng.choice(ALL_PATHS)
        reply, exc, _ = s.request({"command": "getPubKey", "version": 5, "keyId": p})
        acc.evaluations += 1
        if exc is None and reply:
            cmpf("getPubKey.pubKey:after-" + name, reply.get("pubKey"),
                 dev.pubkeys[path_to_binary(p)].hex(), c2)
        acc.distinct.add("history|%s" % name)


def slow_answers(acc, rng, s, dev, fw, cmpf, case, hb, pubkeys, uihb, secs=None, tcp=False):
    """a slow device: the answers to one command (or to all) take 1..9 s of virtual time -
    inside the ten seconds the host allows every exchange.  Nothing is late, so every
    reply that reports success carries that request's own data."""
    dev.state = {"hashes": {hid: art(rng, 32) for hid in fw.values()}, "difficulty": 7,
                 "flags": (0, 0, 0)}
    secs = secs or rng.choice([1.0, 2.5, 3.0, 4.5, 6.0, 8.0, 9.0])
    which = rng.choice([0x43, 0x43, 0x06, 0x04, 0x20, 0x60, "*"])
    if tcp:
        which = rng.choice([0x04, 0x04, 0x20, 0x60, "*"])
    s.bus.slow_cmds = {which: secs}
    c2 = dict(case, slow_command=which, seconds=secs)
    acc.count("slow_device_dialogues" + ("_over_tcp" if tcp else ""))
    pa, pb = rng.sample(ALL_PATHS, 2)
    reqs = [{"command": "uiHeartbeat", "version": 5, "udValue": rng.randbytes(32).hex()},
            {"command": "getPubKey", "version": 5, "keyId": pa},
            {"command": "blockchainState", "version": 5},
            {"command": "signerHeartbeat", "version": 5, "udValue": rng.randbytes(16).hex()},
            {"command": "getPubKey", "version": 5, "keyId": pb}]
    if rng.random() < 0.5 or tcp:
        reqs = reqs[1:]
    for request in reqs:
        reply, exc, _ = s.request(request)
        acc.evaluations += 1
        acc.count("replies_judged_from_a_slow_device")
        if tcp and request["command"] == "getPubKey" and exc is None and \
                isinstance(reply, dict) and reply.get("errorcode") != 0:
            # (nothing was wrong with the request or the answer: it took its time)
            acc.violation("slow-answer:getPubKey-refused-although-the-device-answered",
                          {"reply": reply, "seconds": secs}, c2)
            break
        what = request["command"]
        if exc is not None or not isinstance(reply, dict) or \
                type(reply.get("errorcode")) is not int:
            acc.violation("slow-answer:no-verdict:%s" % what, {"reply": reply,
                                                                "exc": repr(exc)}, c2)
            break
        if reply["errorcode"] != 0:
            continue
        ok = True
        if what == "getPubKey":
            ok = reply.get("pubKey") == dev.pubkeys[path_to_binary(request["keyId"])].hex()
        elif what in ("signerHeartbeat", "uiHeartbeat"):
            h = hb if what == "signerHeartbeat" else uihb
            sig = reply.get("signature") or {}
            ok = (reply.get("pubKey") == h["pubkey"].hex() and
                  reply.get("message") == h["message"].hex() and
                  reply.get("tweak") == h["tweak"].hex() and
                  int(sig.get("r", "0") or "0", 16) == int(h["rs"][0] or "0", 16) and
                  int(sig.get("s", "0") or "0", 16) == int(h["rs"][1] or "0", 16))
        elif what == "blockchainState":
            st = reply.get("state", {})
            for field, fwname in fwconst.STATE_FIELD_TO_FW.items():
                node = st
                for part in field.split("."):
                    node = node.get(part) if isinstance(node, dict) else None
                ok = ok and node == dev.state["hashes"][fw[fwname]].hex()
        if not ok:
            acc.violation("slow-answer:reply-0-with-data-of-another-exchange:%s" % what,
                          {"reply": str(reply)[:300]}, c2)
    s.bus.slow_cmds = None


def late_answers(acc, rng, s, dev, fw, cmpf, case, hb, pubkeys, uihb):
    """one exchange is answered later than the host's time-out (the answer still arrives on
    the HID queue).  The request it belongs to may fail (-905) but may not report other
    data; the requests after it are judged the same way: an error code, or the device's
    own data for *that* request"""
    from ..simdev.transport import Fault
    dev.state = {"hashes": {hid: art(rng, 32) for hid in fw.values()}, "difficulty": 7,
                 "flags": (0, 0, 0)}
    pa, pb = rng.sample(ALL_PATHS, 2)
    ud = rng.randbytes(16)
    victims = {
        "getPubKey": ({0x04: Fault("late")},
                      {"command": "getPubKey", "version": 5, "keyId": pa}),
        "signerHeartbeat.sig": ({(0x60, 2): Fault("late")},
                                {"command": "signerHeartbeat", "version": 5, "udValue": ud.hex()}),
        "signerHeartbeat.msg": ({(0x60, 3): Fault("late")},
                                {"command": "signerHeartbeat", "version": 5, "udValue": ud.hex()}),
        "blockchainState": ({0x20: Fault("late")}, {"command": "blockchainState", "version": 5}),
        # (the device is left in the UI heartbeat app: only the request itself is judged)
        "uiHeartbeat.sig": ({(0x60, 2): Fault("late")},
                            {"command": "uiHeartbeat", "version": 5,
                             "udValue": rng.randbytes(32).hex()}),
        "uiHeartbeat.msg": ({(0x60, 3): Fault("late")},
                            {"command": "uiHeartbeat", "version": 5,
                             "udValue": rng.randbytes(32).hex()}),
    }
    vname = rng.choice(sorted(victims))
    plan, req = victims[vname]
    c2 = dict(case, late_answer_in=vname)

    def judge(what, request, reply, exc):
        acc.count("replies_judged_after_late_answer")
        if exc is not None or not isinstance(reply, dict) or \
                type(reply.get("errorcode")) is not int:
            acc.violation("late-answer:no-verdict:%s" % what, {"reply": reply,
                                                                "exc": repr(exc)}, c2)
            return
        if reply["errorcode"] != 0:
            return
        cmd = request["command"]
        ok = True
        if cmd == "getPubKey":
            ok = reply.get("pubKey") == dev.pubkeys[path_to_binary(request["keyId"])].hex()
        elif cmd in ("signerHeartbeat", "uiHeartbeat"):
            h = hb if cmd == "signerHeartbeat" else uihb
            sig = reply.get("signature") or {}
            ok = (reply.get("pubKey") == h["pubkey"].hex() and
                  reply.get("message") == h["message"].hex() and
                  reply.get("tweak") == h["tweak"].hex() and
                  int(sig.get("r", "0") or "0", 16) == int(h["rs"][0] or "0", 16) and
                  int(sig.get("s", "0") or "0", 16) == int(h["rs"][1] or "0", 16))
        elif cmd == "blockchainState":
            st = reply.get("state", {})
            for field, fwname in fwconst.STATE_FIELD_TO_FW.items():
                node = st
                for part in field.split("."):
                    node = node.get(part) if isinstance(node, dict) else None
                ok = ok and node == dev.state["hashes"][fw[fwname]].hex()
        if not ok:
            acc.violation("late-answer:reply-0-with-data-of-another-exchange:%s" % what,
                          {"reply": str(reply)[:300]}, c2)
    s.bus.arm_cmd(plan)
    r, e, _ = s.request(req)
    s.bus.arm_cmd({})
    judge("the-request-itself:" + vname, req, r, e)
    acc.distinct.add("late|%s" % vname)
    if vname.startswith("uiHeartbeat"):
        return
    followers = [{"command": "getPubKey", "version": 5, "keyId": pb},
                 {"command": "blockchainState", "version": 5},
                 {"command": "getPubKey", "version": 5, "keyId": pa}]
    rng.shuffle(followers)
    for f in followers[:2]:
        r, e, _ = s.request(f)
        judge("next-request:" + f["command"], f, r, e)
    acc.distinct.add("late|%s" % vname)


def _hb_fail(d, apdu):
    from ..simdev.device import SW
    if d.mode == MODE_UI_HEARTBEAT and len(apdu) > 2 and apdu[2] == 2:
        raise SW(0x6B10)
    return None


def check_hb(cmpf, name, reply, hb, case):
    cmpf(name + ".pubKey", reply.get("pubKey"), hb["pubkey"].hex(), case)
    cmpf(name + ".message", reply.get("message"), hb["message"].hex(), case)
    cmpf(name + ".tweak", reply.get("tweak"), hb["tweak"].hex(), case)
    sig = reply.get("signature") or {}
    cmpf(name + ".signature.r", sig.get("r"), hb["rs"][0], case)
    cmpf(name + ".signature.s", sig.get("s"), hb["rs"][1], case)
    cmpf(name + ".keys", sorted(reply.keys()),
         sorted(["errorcode", "pubKey", "message", "tweak", "signature"]), case)


def replay(case, acc):
    env.setup()
    from ..stack import Stack
    from ..simdev.device import SimDevice
    fw = fwconst.get()["bc_state"]

    def cmpf(what, got, want, c):
        if got != want or type(got) is not type(want):
            acc.violation("field-differs:%s" % what, {"got": got, "want": want}, c)
    run_state(acc, case["seed"], case["platform"], fw, netids(), cmpf, Stack, SimDevice)
