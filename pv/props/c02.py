# C02 - requests are classified exactly as the protocol specification prescribes
import copy
import json
import random

from .. import env
from ..oracle import btc, rlp as orlp
from ..oracle import docs_protocol as dp
from ..gen import blocks as gb, btctx, der, requests as rq
from ..simdev.device import (SimDevice, MODE_SIGNER, path_to_binary, ALL_PATHS)

ID = "C02"
LEVEL = "exploration"
RULE = ("grid of JSON requests per command and protocol mode: each field (top-level and nested, "
        "incl. list elements) replaced by each of ~30 deviation values (absent, null, bool, "
        "boundary ints, floats, empty/hex/odd/non-hex/whitespace strings, lists, objects), "
        "structural variants (length mismatches, empty lists, 15/16/17 and 31/32/33-byte "
        "udValues, outpoint 0/1/2^64-1/2^64, extra/missing/mixed message keys, 256 proof nodes, "
        "256-byte node, 11 and 256 brothers, key-id grammar variants), all pairs of deviations "
        "for sign, seeded random multi-deviations, non-objects. Each is sent through the real "
        "request handler to a manager whose simulated device accepts everything; the reply (or "
        "'accepted' = device contacted) must lie in the verdict SET a reference classifier "
        "transcribed from docs/protocol*.md allows, and refused requests must leave the APDU "
        "log empty. distinct = (mode, command, set of deviating fields, deviation kinds)")
RULE_ADDED = (
              'Also: every seventh request is preceded by a link fault that leaves a reconnection '
              'pending (any transport activity of a refused request counts as contact); characters '
              'of every string leaf exchanged for look-alikes (non-ASCII digits, NUL, lone '
              'surrogate, blanks, 0X); requests of 255..1000 blocks; request lines of 1 / 17 / 33 '
              'MiB '
              ' '
              'Round 9: every field of every other command added to each request, well-formed a'
              's in its home command and malformed in every kind. '
              ' '
              'Round 11: string values with their own first / last characters repeated; brother'
              ' lists mixing headers and non-headers. '
              ' '
              'Round 12: every member also under names that are nearly its own (other case, bla'
              "nks, a neighbour's name). "
              ' '
              'Round 14: the device is of each of the three networks (by shard). '
              ' '
              'Round 15: a request turned down by the manager itself with a validation code aft'
              "er the dialogue with the device had begun is not 'accepted or refused silently' "
              'even where the documents leave acceptance open (six known findings of the parse-'
              'late family, sub-classified so that a brother whose hash cannot be computed stay'
              's a violation). '
              ' '
              'Round 17: key ids with elements of 4300, 4301, 5000, 100000 decimal digits. '
              ' '
              'Round 19: a request that ends without any verdict (an exception that ends the ma'
              'nager, a reply without an integer errorcode) is reported here too, not only by C'
              '03. '
              ' '
              'Round 20: every well-formed base request also with its members reversed, sorted '
              'and shuffled. ')
RULE = RULE + " " + RULE_ADDED.strip()
ASSUMPTIONS = [
    "the reference classifier (pv/oracle/docs_protocol.py) is a reading of docs/protocol.md and "
    "docs/protocol-v1.md; where they are silent the allowed set is widened, and inputs whose "
    "classification is genuinely ambiguous (whitespace hex, 5.0 as version, non-ASCII digits in "
    "key ids) are only counted",
    "a request that gets no verdict at all (exception) is counted here and judged under C03",
]
FLOORS = {"quick": {"evaluations": 8000, "verdicts_checked": 7000, "refused_and_silent": 5000,
                    "accepted": 120, "distinct": 1500},
          "thorough": {"evaluations": 150000, "verdicts_checked": 120000,
                       "refused_and_silent": 90000, "accepted": 600, "distinct": 10000}}

ABSENT = "<absent>"
VALUES = [ABSENT, None, True, False, 0, 1, -1, 5, 2**32 - 1, 2**32, 2**64 - 1, 2**64, 10**30,
          1.5, 5.0, 1.0, "", "00", "abc", "zz", "0x00", " 00", "00 11", "AbCd", [], [1, "a"],
          ["00"], {}, {"a": 1}, "11" * 40]
KEYIDS = ["m", "m/", "m/44'/0'/0'/0", "m/44'/0'/0'/0/0/0", "m/44'/0'/0'/0/0'", "M/44'/0'/0'/0/0",
          "m/44h/0'/0'/0/0", " m/44'/0'/0'/0/0", "m/44'/0'/0'/0/0 ", "m/2147483648/0/0/0/0",
          "m/2147483647'/0'/0'/0/0", "m/44''/0'/0'/0/0", "m/44'/0'/0'/0/-0", "m/44'/0'/0'/0/0/",
          "m/044'/0'/0'/0/0", "m/٤٤'/0'/0'/0/0", "m/44'/2'/0'/0/0", "m//0/0/0/0",
          "44'/0'/0'/0/0", "m/44'/0'/0'/0/0\n", "m/4 4'/0'/0'/0/0", "m/+44'/0'/0'/0/0",
          # (elements of more decimal digits than the interpreter converts without being told:
          # 4300 is CPython's limit for int(str); zeros, a huge number, in any position)
          "m/44'/0'/0'/0/" + "0" * 4300, "m/44'/0'/0'/0/" + "0" * 4301,
          "m/44'/0'/0'/0/" + "9" * 5000, "m/" + "1" * 4301 + "'/0'/0'/0/0",
          "m/44'/0'/0'/0/" + "0" * 100000]


def string_variants(leaf):
    """same length (or nearly), one or two characters exchanged for look-alikes"""
    mid = (len(leaf) // 2) & ~1
    out = []
    for lab, ch in [("fullwidth-digit", "\uff11"), ("arabic-indic-digit", "\u0663"),
                    ("superscript-two", "\u00b2"), ("fullwidth-a", "\uff41"),
                    ("nul", "\x00"), ("lone-surrogate", "\ud800"), ("astral", "\U0001d7d9"),
                    ("nbsp", "\u00a0"), ("underscore", "_"), ("plus", "+"), ("minus", "-")]:
        out.append((lab + "-first", ch + leaf[1:]))
        out.append((lab + "-mid", leaf[:mid] + ch + leaf[mid + 1:]))
        out.append((lab + "-last", leaf[:-1] + ch))
    out.append(("inner-blanks", leaf[:2] + " " + leaf[2:mid] + "\t" + leaf[mid:]))
    out.append(("inner-newline", leaf[:mid] + "\n" + leaf[mid:]))
    out.append(("trailing-newline", leaf + "\n"))
    out.append(("0X-prefix", "0X" + leaf))
    out.append(("upper", leaf.upper()))
    out.append(("two-fullwidth", "\uff11\uff12" + leaf[2:]))
    # characters of the value's own beginning or end repeated (what a strip() of a
    # character SET, or a tolerant prefix match, would swallow)
    out.append(("first-char-doubled", leaf[:1] + leaf))
    out.append(("second-char-doubled", leaf[:2] + leaf[1:]))
    out.append(("prefix-doubled", leaf[:2] + leaf))
    out.append(("prefix-chars-mixed", leaf[:2] + leaf[:1] * 2 + leaf[1:2] * 2 + leaf[:1] + leaf[1:]))
    out.append(("last-char-doubled", leaf + leaf[-1:]))
    out.append(("suffix-doubled", leaf + leaf[-2:]))
    return out


def kind_of(v):
    if v == ABSENT:
        return "absent"
    if v is None:
        return "null"
    if isinstance(v, bool):
        return "bool"
    if isinstance(v, int):
        return "int"
    if isinstance(v, float):
        return "float"
    if isinstance(v, str):
        return "str"
    if isinstance(v, list):
        return "list"
    return "obj"


def tx_decodable(hx):
    try:
        t = btc.parse_tx(bytes.fromhex(hx))
    except btc.Malformed:
        return False
    if not t.canonical or t.segwit:
        return None
    if len(t.ins) == 0:
        return None
    try:
        return all(len(btc.tokenize(sc)) > 0 for (_, sc, _) in t.ins)
    except btc.Malformed:
        return False


def block_ok(hx, need_cb):
    c = dp.hex_class(hx)
    if c != "ok" or len(hx) == 0:
        return False if c != "ambiguous" else None
    try:
        item, canon = orlp.decode(bytes.fromhex(hx))
    except orlp.RLPError:
        return False
    if not isinstance(item, list):
        return False
    if not canon:
        return None
    if any(isinstance(x, list) for x in item):
        return None
    n = len(item)
    if n not in (17, 18, 19, 20):
        return False
    if need_cb:
        if n not in (19, 20):
            return False
        if len(item[-1]) < 40:
            return False
    no_mm = item[:-3] if n in (19, 20) else item[:-1]
    if sum(len(rq.rlp_encode(x)) for x in no_mm) > 0xffff:
        return False
    return True


def bases(rng, v1):
    if v1:
        return {
            "version": {"command": "version"},
            "sign": rq.sign_hash_request(dp.LISTED[2], rng.randbytes(32), version=1),
            "getPubKey": {"command": "getPubKey", "version": 1, "keyId": dp.LISTED[3]},
        }
    tx = btctx.gen_tx(rng, max_in=2, max_out=2)
    b1 = gb.gen_block(rng, 19, tiny=True)
    b2 = gb.gen_block(rng, 20, tiny=True)
    bro = gb.gen_block(rng, 19, tiny=True)
    anc = gb.gen_block(rng, 17, tiny=True)
    return {
        "version": {"command": "version"},
        "sign.legacy": rq.sign_auth_request(dp.LISTED[0], tx["raw"], 0,
                                            rq.gen_receipt(rng, "short"),
                                            [rng.randbytes(10), rng.randbytes(20)]),
        "sign.segwit": rq.sign_auth_request(dp.LISTED[1], tx["raw"], 1,
                                            rq.gen_receipt(rng, "short"), [rng.randbytes(10)],
                                            (rng.randbytes(30), 1000)),
        "sign.hash": rq.sign_hash_request(dp.LISTED[2], rng.randbytes(32)),
        "getPubKey": {"command": "getPubKey", "version": 5, "keyId": dp.LISTED[5]},
        "advanceBlockchain": {"command": "advanceBlockchain", "version": 5,
                              "blocks": [b1["raw"].hex(), b2["raw"].hex()],
                              "brothers": [[bro["raw"].hex()], []]},
        "resetAdvanceBlockchain": {"command": "resetAdvanceBlockchain", "version": 5},
        "blockchainState": {"command": "blockchainState", "version": 5},
        "updateAncestorBlock": {"command": "updateAncestorBlock", "version": 5,
                                "blocks": [anc["raw"].hex(), b2["raw"].hex()]},
        "blockchainParameters": {"command": "blockchainParameters", "version": 5},
        "signerHeartbeat": {"command": "signerHeartbeat", "version": 5, "udValue": "ab" * 16},
        "uiHeartbeat": {"command": "uiHeartbeat", "version": 5, "udValue": "cd" * 32},
    }


def field_paths(obj, prefix=()):
    """every addressable position: dict keys, list elements (first/last)"""
    out = []
    if isinstance(obj, dict):
        for k, v in obj.items():
            out.append(prefix + (k,))
            out.extend(field_paths(v, prefix + (k,)))
    elif isinstance(obj, list) and obj:
        for i in sorted({0, len(obj) - 1}):
            out.append(prefix + (i,))
            out.extend(field_paths(obj[i], prefix + (i,)))
    return out


def set_path(obj, path, value):
    o = obj
    for p in path[:-1]:
        o = o[p]
    last = path[-1]
    if value == ABSENT:
        if isinstance(o, dict):
            o.pop(last, None)
        else:
            del o[last]
    else:
        o[last] = value


def structural(rng, b, v1):
    """hand-written variants per base request: (label, request)"""
    out = []

    def var(base, label, fn):
        r = copy.deepcopy(b[base])
        try:
            fn(r)
        except (KeyError, IndexError, TypeError):
            return
        out.append((base, label, r))
    for base in b:
        if "keyId" in b[base]:
            for k in KEYIDS + dp.LISTED:
                var(base, "keyid", lambda r, k=k: r.__setitem__("keyId", k))
        var(base, "extra-top-key", lambda r: r.__setitem__("zzz", 1))
        var(base, "version-missing", lambda r: r.pop("version", None))
        var(base, "command-case", lambda r: r.__setitem__("command", r["command"].upper()))
    # very long request lines (an ignored key carrying 1 MiB / 17 MiB / 33 MiB): the
    # documents set no limit on a request's size
    for base in ("version", "getPubKey"):
        if base in b:
            for mib in (1, 17, 33):
                var(base, "ignored-key-of-%d-MiB" % mib,
                    lambda r, mib=mib: r.__setitem__("pad", "a" * (mib << 20)))
    if v1:
        for c in dp.V5_COMMANDS[3:]:
            out.append(("v5cmd", "v5-only-command", {"command": c, "version": 1}))
        return out
    for base in ("sign.legacy", "sign.segwit"):
        m = "message"
        var(base, "input-1", lambda r: r[m].__setitem__("input", 2**32 - 1))
        var(base, "proof-empty", lambda r: r["auth"].__setitem__("receipt_merkle_proof", []))
        var(base, "proof-256-nodes",
            lambda r: r["auth"].__setitem__("receipt_merkle_proof", ["aa"] * 256))
        var(base, "proof-255-nodes",
            lambda r: r["auth"].__setitem__("receipt_merkle_proof", ["aa"] * 255))
        var(base, "proof-node-256-bytes",
            lambda r: r["auth"].__setitem__("receipt_merkle_proof", ["bb" * 256]))
        var(base, "proof-node-255-bytes",
            lambda r: r["auth"].__setitem__("receipt_merkle_proof", ["bb" * 255]))
        var(base, "auth-missing", lambda r: r.pop("auth"))
        var(base, "message-extra-key", lambda r: r[m].__setitem__("foo", "00"))
        var(base, "message-plus-hash", lambda r: r[m].__setitem__("hash", "00" * 32))
        var(base, "mode-upper", lambda r: r[m].__setitem__("sighashComputationMode", "LEGACY"))
        var(base, "noauth-key", lambda r: r.__setitem__("keyId", dp.LISTED[2]))
        var(base, "tx-truncated", lambda r: r[m].__setitem__("tx", r[m]["tx"][:-2]))
        var(base, "tx-trailing", lambda r: r[m].__setitem__("tx", r[m]["tx"] + "00"))
        var(base, "tx-empty-script", lambda r: r[m].__setitem__(
            "tx", btctx.ser_tx(1, [(bytes(32), 0, b"", 0)], [], 0).hex()))
    for ov in (0, 1, 2**64 - 1, 2**64, -1, 2**63):
        var("sign.segwit", "outpoint-%d" % ov,
            lambda r, ov=ov: r["message"].__setitem__("outpointValue", ov))
    var("sign.segwit", "ws-65535", lambda r: r["message"].__setitem__("witnessScript",
                                                                    "ab" * 65535))
    var("sign.segwit", "ws-65523", lambda r: r["message"].__setitem__("witnessScript",
                                                                    "ab" * 65523))
    var("sign.segwit", "ws-65524", lambda r: r["message"].__setitem__("witnessScript",
                                                                    "ab" * 65524))
    var("sign.legacy", "legacy-with-segwit-fields",
        lambda r: r["message"].update(witnessScript="00", outpointValue=5))
    var("sign.segwit", "segwit-missing-ws", lambda r: r["message"].pop("witnessScript"))
    var("sign.hash", "hash-with-bad-auth", lambda r: r.__setitem__("auth", {"receipt": 5}))
    var("sign.hash", "hash-with-good-auth",
        lambda r: r.__setitem__("auth", {"receipt": "00", "receipt_merkle_proof": ["00"]}))
    var("sign.hash", "hash-auth-key", lambda r: r.__setitem__("keyId", dp.LISTED[0]))
    for n in (0, 31, 33, 64):
        var("sign.hash", "hash-%d-bytes" % n,
            lambda r, n=n: r["message"].__setitem__("hash", "ab" * n))
    for n in (0, 15, 16, 17, 32):
        var("signerHeartbeat", "ud-%d" % n, lambda r, n=n: r.__setitem__("udValue", "ab" * n))
    for n in (0, 16, 31, 32, 33):
        var("uiHeartbeat", "ud-%d" % n, lambda r, n=n: r.__setitem__("udValue", "ab" * n))
    a = "advanceBlockchain"
    # many blocks: the documents put no bound on their number (256 / 257 is where small
    # integers stop being shared objects, 65536 would not fit a two-byte count)
    tiny = gb.gen_block(rng, 19, tiny=True)["raw"].hex()
    for nblk in (255, 256, 257, 300, 1000):
        var(a, "blocks-%d" % nblk, lambda r, nblk=nblk: r.update(blocks=[tiny] * nblk,
                                                                 brothers=[[]] * nblk))
        var("updateAncestorBlock", "blocks-%d" % nblk,
            lambda r, nblk=nblk: r.update(blocks=[tiny] * nblk))
    var(a, "brothers-short", lambda r: r["brothers"].pop())
    var(a, "brothers-long", lambda r: r["brothers"].append([]))
    var(a, "brothers-11", lambda r: r["brothers"].__setitem__(0, r["brothers"][0] * 11))
    var(a, "brothers-256", lambda r: r["brothers"].__setitem__(0, r["brothers"][0] * 256))
    var(a, "brother-not-block", lambda r: r["brothers"].__setitem__(0, ["aabbcc"]))
    # ... next to well-formed ones (sorting, counting, hashing happen over the whole list)
    var(a, "brother-not-block-after-a-good-one",
        lambda r: r["brothers"].__setitem__(0, r["brothers"][0] + ["c0"]))
    var(a, "brother-not-block-before-a-good-one",
        lambda r: r["brothers"].__setitem__(0, ["aabbcc"] + r["brothers"][0]))
    var(a, "brother-not-block-between-good-ones",
        lambda r: r["brothers"].__setitem__(0, r["brothers"][0] + ["83aabbcc"] + r["brothers"][0]))
    var(a, "brother-not-block-in-the-last-list",
        lambda r: r["brothers"].__setitem__(len(r["brothers"]) - 1, r["brothers"][0] + ["c0"]))
    var(a, "brother-rlp-string", lambda r: r["brothers"].__setitem__(0, ["83aabbcc"]))
    var(a, "brother-17-fields", lambda r: r["brothers"].__setitem__(
        0, [gb.gen_block(rng, 17, tiny=True)["raw"].hex()]))
    var(a, "block-17-fields", lambda r: r["blocks"].__setitem__(
        0, gb.gen_block(rng, 17, tiny=True)["raw"].hex()))
    for cmd in (a, "updateAncestorBlock"):
        var(cmd, "blocks-empty", lambda r: r.__setitem__("blocks", []))
        var(cmd, "block-not-hex", lambda r: r["blocks"].__setitem__(0, "zz"))
        var(cmd, "block-not-rlp", lambda r: r["blocks"].__setitem__(0, "aabbcc"))
        var(cmd, "block-rlp-16-fields", lambda r: r["blocks"].__setitem__(
            0, rq.rlp_encode([b"\x01"] * 16).hex()))
        var(cmd, "block-trailing", lambda r: r["blocks"].__setitem__(0, r["blocks"][0] + "00"))
        var(cmd, "block-huge-mm-payload", lambda r: r["blocks"].__setitem__(
            0, rq.rlp_encode([bytes(70000)] + [b"\x01"] * 18).hex()))
    return out


def gen_requests(spec):
    """yields (v1, base name, label, request value)"""
    rng = random.Random(spec["seed"])
    sh, n = spec["shard"], spec["n"]
    k = 0
    for v1 in (False, True):
        b = bases(rng, v1)
        # non-objects
        for val in [None, True, 5, 1.5, "sign", [], [b["version"]], "", 10**40]:
            k += 1
            if k % n == sh:
                yield v1, "non-object", "toplevel-" + kind_of(val), val
        for name, base in b.items():
            k += 1
            if k % n == sh:
                yield v1, name, "valid", copy.deepcopy(base)
            # ... and with the members of its objects written in another order
            for how in ("reversed", "sorted", "shuffled"):
                k += 1
                if k % n == sh:
                    from ..gen import requests as _rq
                    yield v1, name, "valid", _rq.reorder_members(
                        random.Random(k), copy.deepcopy(base), how)
            paths = field_paths(base)
            for p in paths:
                for val in VALUES:
                    k += 1
                    if k % n != sh:
                        continue
                    r = copy.deepcopy(base)
                    set_path(r, p, copy.deepcopy(val))
                    yield v1, name, "%s=%s" % (".".join(map(str, p)), kind_of(val)), r
            # all pairs for sign (quick: sampled for the rest)
            if name.startswith("sign") or spec["tier"] == "thorough":
                pr = random.Random(spec["seed"] + hash(name) % 1000)
                for i, p1 in enumerate(paths):
                    for p2 in paths[i + 1:]:
                        if p2[:len(p1)] == p1:
                            continue
                        vals = [(pr.choice(VALUES), pr.choice(VALUES)) for _ in
                                range(6 if spec["tier"] == "quick" else 12)]
                        for v1_, v2_ in vals:
                            k += 1
                            if k % n != sh:
                                continue
                            r = copy.deepcopy(base)
                            try:
                                set_path(r, p2, copy.deepcopy(v2_))
                                set_path(r, p1, copy.deepcopy(v1_))
                            except (KeyError, IndexError, TypeError):
                                continue
                            yield v1, name, "pair:%s=%s,%s=%s" % (
                                ".".join(map(str, p1)), kind_of(v1_),
                                ".".join(map(str, p2)), kind_of(v2_)), r
        # string leaves: characters that other notions of "digit" / "hex" / "blank" admit
        for name, base in b.items():
            for p in field_paths(base):
                leaf = base
                for q in p:
                    leaf = leaf[q]
                if not isinstance(leaf, str) or len(leaf) < 2 or p == ("command",):
                    continue
                for lab, val in string_variants(leaf):
                    k += 1
                    if k % n != sh:
                        continue
                    r = copy.deepcopy(base)
                    set_path(r, p, val)
                    yield v1, name, "str:%s:%s" % (".".join(map(str, p)), lab), r
        for base, label, r in structural(rng, b, v1):
            k += 1
            if k % n == sh:
                yield v1, base, "struct:" + label, r
        # fields of OTHER commands added to a request that does not document them (an
        # updateAncestorBlock carrying "brothers", a getPubKey carrying "message" ...),
        # well-formed as in their home command and malformed in every kind: a field a
        # command does not know is no ground for that command to refuse
        pool = {}
        for name, base in b.items():
            for fld, val in base.items():
                if fld not in ("command", "version"):
                    pool.setdefault(fld, [])
                    if val not in pool[fld]:
                        pool[fld].append(val)
        for name, base in b.items():
            for fld, donors in sorted(pool.items()):
                if fld in base:
                    continue
                for val in donors + VALUES:
                    k += 1
                    if k % n != sh:
                        continue
                    r = copy.deepcopy(base)
                    r[fld] = copy.deepcopy(val)
                    yield v1, name, "foreign:%s=%s" % (fld, kind_of(val)), r
        # a member under a name that is nearly its own (other case, a blank, a neighbour's
        # name): the documented member is then missing and an undocumented one present
        def dict_paths(obj, prefix=()):
            if isinstance(obj, dict):
                for kk, vv in obj.items():
                    yield prefix + (kk,)
                    yield from dict_paths(vv, prefix + (kk,))
        for name, base in b.items():
            for pth in list(dict_paths(base)):
                key_ = pth[-1]
                near = [key_.lower(), key_.upper(), key_[:1].swapcase() + key_[1:], key_ + " ",
                        " " + key_, key_ + "_", key_[:-1], key_.replace("C", "c", 1),
                        key_.replace("H", "h", 1)]
                siblings = {"sighashComputationMode": ["outpointValue", "witnessScript", "hash"],
                            "receipt_merkle_proof": ["receiptMerkleProof", "receipt_merkle_proofs"],
                            "keyId": ["keyID", "keyid", "key_id"], "blocks": ["block"],
                            "brothers": ["brother", "uncles"], "udValue": ["udvalue", "ud_value"]}
                for nk in dict.fromkeys(near + siblings.get(key_, [])):
                    if nk == key_ or not nk:
                        continue
                    k += 1
                    if k % n != sh:
                        continue
                    r = copy.deepcopy(base)
                    node = r
                    for q in pth[:-1]:
                        node = node[q]
                    if nk in node:
                        continue
                    # same position, same value, other name
                    items = [(nk if kk == key_ else kk, vv) for kk, vv in node.items()]
                    node.clear()
                    node.update(items)
                    yield v1, name, "renamed:%s->%s" % (".".join(pth), nk.strip() or "blank"), r
        # random multi-deviations
        nrand = (6000 if spec["tier"] == "quick" else 600000)
        names = list(b)
        for _ in range(nrand):
            k += 1
            name = rng.choice(names)
            r = copy.deepcopy(b[name])
            labels = []
            for _ in range(rng.randint(2, 4)):
                paths = field_paths(r)
                if not paths:
                    break
                p = rng.choice(paths)
                val = rng.choice(VALUES)
                try:
                    set_path(r, p, copy.deepcopy(val))
                except (KeyError, IndexError, TypeError):
                    continue
                labels.append("%s=%s" % (".".join(map(str, p)), kind_of(val)))
            if k % n == sh:
                yield v1, name, "multi:" + ",".join(sorted(labels)), r


def shards(tier, seed):
    n = 16 if tier == "quick" else 32
    return [{"shard": i, "n": n, "tier": tier, "seed": seed} for i in range(n)]


def make_device(rng, platform="ledger", network=None):
    # every signature the device hands out is well-formed DER, of every shape a real
    # device produces: r and s of 1..33 bytes (minimal-length integers)
    srng = random.Random(rng.getrandbits(32))

    def fresh_sig():
        return der.make_sig(srng, srng.choice(["normal", "normal", "short", "min"]))[0]

    def sigs():
        while True:
            yield fresh_sig()
    hb = {"signature": fresh_sig, "message": rng.randbytes(70),
          "tweak": rng.randbytes(32), "pubkey": rng.randbytes(65)}
    dev = SimDevice(platform=platform, mode=MODE_SIGNER,
                    pubkeys={path_to_binary(p): rng.randbytes(65) for p in ALL_PATHS},
                    state={"hashes": {h: rng.randbytes(32) for h in
                                      (1, 2, 3, 5, 0x81, 0x82, 0x84)},
                           "difficulty": 5, "flags": (0, 0, 0)},
                    hb=dict(hb), uihb=dict(hb), sign_policy={"any_path": True},
                    adv_policy={"any_brother_count": True}, any_path=True, signatures=sigs())
    if platform == "sgx":
        dev.unlocked = True
    if network is not None:
        # (checkpoint, minimum difficulty, network byte: 1 mainnet, 2 testnet, 3 regtest)
        dev.params = bytes(32) + (1).to_bytes(36, "big") + bytes([network])
    return dev


def shrink(o):
    """replay cases must stay small: a very long string of one repeated character becomes
    {"__repeat__": [char, n]} (see expand)"""
    if isinstance(o, str) and len(o) > 10000 and len(set(o)) == 1:
        return {"__repeat__": [o[0], len(o)]}
    if isinstance(o, dict):
        return {k: shrink(v) for k, v in o.items()}
    if isinstance(o, list):
        return [shrink(v) for v in o]
    return o


def expand(o):
    if isinstance(o, dict) and list(o) == ["__repeat__"]:
        return o["__repeat__"][0] * o["__repeat__"][1]
    if isinstance(o, dict):
        return {k: expand(v) for k, v in o.items()}
    if isinstance(o, list):
        return [expand(v) for v in o]
    return o


def fl_cmd_apdu(e):
    """an APDU that belongs to a command (not to the bring-up after a reconnection)"""
    a = e.get("apdu") or b""
    return len(a) > 1 and a[1] not in (0x06, 0x43, 0x11)


def check_one(acc, st, v1, name, label, req):
    from ..stack import Stack
    key = v1
    if key not in st:
        dev = make_device(random.Random(5), network=st.get("network"))
        s = Stack(dev, version_one=v1)
        s.__enter__()
        s.initialize()
        st[key] = (s, dev)
    s, dev = st[key]
    dev.mode = MODE_SIGNER
    try:
        line = json.dumps(req).encode() + b"\n"
    except (TypeError, ValueError):
        return
    acc.evaluations += 1
    if st.get("pending_mode") and acc.evaluations % st["pending_mode"] == 0 and \
            not s.protocol.__dict__.get("_comm_issue", False):
        # leave a link repair pending (a read error on a getPubKey): the requests that
        # follow are judged on a manager that would like to reconnect - a refused one
        # must still not touch the transport in any way (no close / re-open / bring-up)
        from ..simdev.transport import Fault
        s.bus.arm({0: Fault("read_error")})
        s.request({"command": "getPubKey", "version": 1 if v1 else 5,
                   "keyId": "m/44'/0'/0'/0/0"})
        s.bus.arm({})
        del s.bus.events[:]
        acc.count("link_repairs_left_pending")
    repair_pending = bool(s.protocol.__dict__.get("_comm_issue", False))
    if repair_pending:
        acc.count("judged_with_repair_pending")
    v = dp.classify(req, v1, tx_decodable, block_ok)
    mark = len(s.bus.events)
    out, exc = s.handle_line(line)
    # any transport activity counts as contact (APDUs, but also close / enumerate / open)
    apdus = [e for e in s.bus.events[mark:] if e["ev"] != "apdu" or e["apdu"]]
    del s.bus.events[:]
    del dev.sign_records[:]
    del dev.adv_records[:]
    case = {"v1": v1, "request": shrink(req) if len(line) > 200000 else req,
            "network": st.get("network")}
    cmd = req.get("command") if isinstance(req, dict) else None
    cmdname = cmd if isinstance(cmd, str) and len(cmd) < 30 else "?"
    reply = None
    try:
        reply = json.loads(out.decode())
    except Exception:
        pass
    if exc is not None or not isinstance(reply, dict) or type(reply.get("errorcode")) is not int:
        # no verdict at all (an exception that ends the manager, a reply without an integer
        # errorcode): none of the verdicts the documents allow for any value.  (C03 judges
        # the same from the client's side, over many more byte sequences.)
        acc.count("requests_left_without_a_verdict")
        acc.violation("no-verdict:%s:%s" % (
            cmdname, type(exc).__name__ if exc is not None else "reply-without-errorcode"),
            {"v1": v1, "label": label, "reply": repr(out)[:200], "apdus": len(apdus),
             "exception": repr(exc)[:300], "request": json.dumps(req)[:600]}, case)
        if exc is not None:
            s.__exit__(None, None, None)
            st.pop(key)
        return
    code = reply["errorcode"]
    acc.distinct.add("%s|%s|%s" % ("v1" if v1 else "v5", name, label))
    if v.ambiguous:
        acc.count("ambiguous_only_no_crash")
        return
    acc.count("verdicts_checked")
    allowed = v.allowed()

    def bad(mech):
        acc.violation(mech, {"v1": v1, "label": label, "reply": reply, "apdus": len(apdus),
                             "allowed": sorted(map(str, allowed)), "why": v.why[:4],
                             "request": json.dumps(req)[:600]}, case)
    if apdus:
        acc.count("accepted")
        if dp.ACCEPT not in allowed:
            firm = [w for w in v.why if not w.startswith("?")]
            if repair_pending and not any(e["ev"] == "apdu" and fl_cmd_apdu(e) for e in apdus):
                return bad("device-contacted-before-refusal:repair-pending:%s:%s" % (
                    cmdname, (firm[0] if firm else "?").replace(" ", "-")))
            return bad("device-contacted-before-refusal:%s:%s" % (
                cmdname, (firm[0] if firm else "?").replace(" ", "-")))
        if label == "valid" and code != 0:
            return bad("valid-request-failed:%s:%d" % (cmdname, code))
        dev_refused = any(e["ev"] == "apdu" and e.get("sw") not in (None, 0x9000)
                          for e in apdus)
        if code in v.codes and code not in (0, 1) and not dev_refused:
            # where the documents leave acceptance open, a request may be accepted - and then
            # judged by the device.  This one was turned down by the manager itself, with a
            # validation code, after the dialogue with the device had begun (every answer
            # of the device was a success): not accepted, yet exchanged with
            soft = sorted((w.lstrip("?") for w in v.why if w.startswith("?")),
                          key=lambda w: w.startswith("version"))
            if soft and soft[0].startswith("brother"):
                # (which kind of brother: one whose very hash cannot be computed - not an RLP
                # list of 17..20 items, found before anything is sent - or one that only
                # fails when its turn to be sent comes)
                from ..oracle import rlp as _rlp

                def hashable(x):
                    try:
                        it, _ = _rlp.decode(bytes.fromhex(x))
                        return isinstance(it, list) and 17 <= len(it) <= 20
                    except Exception:
                        return False
                bros = [x for bl in req.get("brothers", []) if isinstance(bl, list)
                        for x in bl if isinstance(x, str)]
                if any(dp.hex_class(x) == "ok" and len(x) and not hashable(x) for x in bros):
                    soft[0] = "brother whose hash cannot be computed"
                else:
                    soft[0] = "brother with a hash that cannot be sent"
            if repair_pending and not any(e["ev"] == "apdu" and fl_cmd_apdu(e) for e in apdus):
                # (nothing but the pending repair's bring-up went out)
                return bad("device-contacted-before-refusal:repair-pending:%s:%s" % (
                    cmdname, (soft[0] if soft else "?").replace(" ", "-")))
            return bad("device-contacted-before-refusal:%s:%s" % (
                cmdname, (soft[0] if soft else "?").replace(" ", "-")))
    else:
        if cmdname == "version" and not v.codes:
            if code != 0:
                return bad("version-refused:%d" % code)
            return
        acc.count("refused_and_silent")
        if code not in v.codes:
            if not v.codes:
                return bad("valid-request-refused:%s:%d" % (cmdname, code))
            return bad("verdict-not-allowed:%s:got%d:%s" % (
                cmdname, code, (v.why[0] if v.why else "?").lstrip("?")))
    if len(acc.samples) < 4 and v.codes:
        acc.sample({"mode": "v1" if v1 else "v5", "request": json.dumps(req)[:300],
                    "allowed": sorted(map(str, allowed)), "reply": reply,
                    "apdus": len(apdus)})


def run_shard(spec, acc):
    env.setup()
    # the device is of one of the three networks (what it reports about itself is no input
    # to how requests are classified)
    st = {"pending_mode": 7, "network": [1, 2, 3, None][spec.get("shard", 0) % 4]}
    acc.count("shards_on_a_device_of_network_%s" % st["network"])
    for v1, name, label, req in gen_requests(spec):
        check_one(acc, st, v1, name, label, req)
    for k, v in st.items():
        if k not in ("pending_mode", "network"):
            v[0].__exit__(None, None, None)
    if acc.counters.get("judged_with_repair_pending", 0) == 0:
        acc.notes.append("no request was judged with a repair pending in this shard")


def replay(case, acc):
    env.setup()
    check_one(acc, {"network": case.get("network")}, case["v1"], "replay", "replay",
              expand(case["request"]))
