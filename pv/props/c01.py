# C01 - signing relays to the device exactly what the client asked to have signed
import random

from .. import env
from ..oracle import btc
from ..gen import btctx, der, requests as rq
from ..simdev.device import ChunkPolicy, path_to_binary, AUTH_PATHS, NOAUTH_PATHS

ID = "C01"
LEVEL = "exploration"
RULE = ("seeded generator of well-formed sign requests (6 key paths x legacy/segwit/hash, "
        "tx 1..N inputs with every push encoding, receipts as RLP lists of 4 size classes, "
        "proofs up to 255 nodes x 255 bytes, input index and outpoint boundaries) run through "
        "the real server->protocol->APDU->ledgerblue stack against a simulated device whose "
        "chunk-request policy is varied (firmware-like, constant k, random 1..255, "
        "over-asking, early stop inside each part, late stop with extra requests) in v5 and "
        "legacy v1 mode; the monitor compares each stream the device reassembled with the "
        "stream computed from the request by an independent oracle, and the reply with what "
        "the device reported. distinct = (mode, form, #inputs, push-kind set, chunk policy, "
        "hostile rule, signature shape); non-trivial = authorized request that took >= 2 "
        "chunks in >= 2 parts, or any hostile-policy case")
RULE_ADDED = (
              'Also: a quarter of the authorized cases ask again for the previous transaction (other '
              'input / mode / receipt / proof) on the same manager; a fifth run over the SGX or '
              'TCPSigner transport; 6% write one hex field with ASCII blanks (refusal without '
              'contact, or exactly those bytes relayed); script / output-script lengths and input / '
              'output counts on varint boundaries; receipts whose length sits on RLP / chunk '
              'boundaries; device signatures of every well-formed shape '
              ' '
              'Round 8: scripts whose final operation also occurs earlier in the script; loggin'
              'g configured as shipped. '
              ' '
              'Round 9: 12% of the authorized cases are preceded, on the same manager, by a sig'
              'n refused late (proof node of 256 bytes, 256 nodes, input beyond the last, empty'
              ' receipt, trailing tx byte). '
              ' '
              'Round 10: transactions of exactly chosen sizes (around 2^16 and 2^17; one of abo'
              'ut 2^24 bytes per run, over the TCP transport); hashes with zero bytes at an end'
              '. '
              ' '
              'Round 11: the request before may also have been an advanceBlockchain / updateAnc'
              'estorBlock cut short at one of its exchanges. '
              ' '
              'Round 14: the previous transaction asked again with one small field or one scrip'
              't changed (near copies); 8% of the Ledger cases preceded by a uiHeartbeat, faile'
              'd or not, that leaves the device in the signer. '
              ' '
              'Round 15: merkle proofs with a node repeated (12%); the 16 MiB transaction of a '
              'quick run always takes place. '
              ' '
              'Round 18: one dialogue per run in which the device asks for a large transaction '
              'one byte at a time - 2^17 exchanges in one part (quick), more than 2^20 '
              '(thorough); nothing bounds the number of exchanges of a part. '
              ' '
              'Round 20: 30% of the requests with the members of their JSON objects in another '
              'order (reversed, sorted, shuffled). ')
RULE = RULE + " " + RULE_ADDED.strip()
ASSUMPTIONS = [
    "device model and fake HID transport are trusted (pv/simdev); they follow the framing only",
    "comm/bitcoin.py runs over the bitcoin.core shim; the oracle for the relayed transaction "
    "is the independent tokenizer in pv/oracle/btc.py",
    "chunk policies are sampled, not all 255^k request sequences",
]
FLOORS = {"quick": {"evaluations": 500, "stream_comparisons": 1200, "success_replies": 200,
                    "hostile_cases": 100, "v1_cases": 40, "distinct": 100,
                    "chunk_contract_evaluations": 1000, "transactions_of_16_MiB_or_more": 1,
                    "parts_relayed_in_2^17_exchanges_or_more": 1},
          "thorough": {"evaluations": 30000, "stream_comparisons": 60000,
                       "success_replies": 10000, "hostile_cases": 5000, "v1_cases": 2000,
                       "distinct": 2000, "transactions_of_16_MiB_or_more": 1,
                       "parts_relayed_in_more_than_2^20_exchanges": 1}}


def shards(tier, seed):
    if tier == "quick":
        return [{"seed": seed * 1000 + i, "n": 120, "max_in": 4, "max_out": 4,
                 "sized_16m": i == 3, "byte_at_a_time": 2 ** 17 if i == 5 else 0}
                for i in range(16)]
    # (one dialogue of more than 2^20 exchanges: a transaction of a mebibyte asked for one
    # byte at a time - about 75 s and 650 MB of event records, hence one shard only)
    return [{"seed": seed * 1000 + i, "n": 1300, "max_in": 20, "max_out": 20, "big": True,
             "sized_16m": i % 4 == 3, "byte_at_a_time": 2 ** 20 if i == 5 else 0}
            for i in range(32)]


def gen_policy(rng):
    kind = rng.choice(["fw", "fw", "const", "const", "random", "over", "random_over"])
    k = {"fw": 80, "const": rng.choice([1, 2, 3, 7, 64, 80, 200, 255]),
         "over": rng.choice([80, 255, 100]), "random": 0, "random_over": 0}[kind]
    return ChunkPolicy(kind, k, random.Random(rng.getrandbits(32)))


def gen_case(rng, spec, i):
    """one request + device behaviour"""
    c = {}
    form = rng.choice(["legacy", "legacy", "segwit", "segwit", "hash"])
    v1 = (i % 9 == 0)
    if v1:
        form = "hash"
    c["v1"] = v1
    c["form"] = form
    c["seed"] = rng.getrandbits(48)
    c["spec"] = {k: spec[k] for k in ("max_in", "max_out", "big", "sized_16m",
                                      "byte_at_a_time") if k in spec}
    if spec.get("byte_at_a_time") and i == 11:
        # a device that asks for a large transaction one byte at a time: as many exchanges
        # in one part as the part has bytes (nothing bounds their number)
        v1 = c["v1"] = False
        form = c["form"] = "legacy"
        c["sized_tx"] = spec["byte_at_a_time"] + 4096 + rng.randrange(100)
        c["byte_at_a_time"] = True
        c["platform"] = rng.choice(["tcp", "sgx"])
        return c
    if spec.get("sized_16m") and i == 7 and form == "hash" and not v1:
        form = c["form"] = "legacy"     # (the one 16 MiB case of the shard always takes place)
    if form != "hash" and i % 40 == 7:
        marks = [2 ** 16, 2 ** 16, 0xffff, 2 ** 17]
        off = rng.choice([-8, -7, -1, 0, 1, 2, 9])
        if spec.get("sized_16m") and i == 7:
            # (at or above 2^24: beyond any limit somebody may have made up below it)
            marks = [2 ** 24]
            off = abs(off) % 10
        c["sized_tx"] = rng.choice(marks) + off
        if c["sized_tx"] > 2 ** 20:
            # (64-byte HID reports make megabytes slow: over the TCP transport)
            c["platform"] = rng.choice(["tcp", "sgx"])
    return c


def build(c, spec, prev=None):
    """prev: the built previous request of the same stack; when the case says so the
    same transaction is asked again (another input, another mode, another receipt), as
    a node does for each input of one transaction"""
    rng = random.Random(c["seed"])
    form = c["form"]
    out = {"sign_policy": {}, "hostile": None}
    big = spec.get("big") and rng.random() < 0.03
    if form == "hash":
        pool = NOAUTH_PATHS * 3 + AUTH_PATHS
        key = rng.choice(pool)
        h = rng.randbytes(32)
        if rng.random() < 0.25:
            # zero bytes at an end (or all zeros / all ones): 32 bytes all the same
            z = rng.choice([1, 1, 2, 8, 31, 32])
            h = rng.choice([(bytes(z) + h)[:32], (h + bytes(z))[-32:], b"\xff" * 32])
        out["req"] = rq.sign_hash_request(key, h, version=1 if c["v1"] else 5)
        out["key"] = key
        out["hash"] = h
    else:
        pool = AUTH_PATHS * 3 + NOAUTH_PATHS
        key = rng.choice(pool)
        if c.get("sized_tx"):
            key = rng.choice(AUTH_PATHS)
        tx = btctx.gen_tx(rng, max_in=spec["max_in"], max_out=spec["max_out"], big=big,
                          edges=True if big else "scripts")
        if c.get("sized_tx"):
            # a transaction of exactly so many bytes (around 2^16 / 2^24: the documents
            # bound no transaction's size, the wire format gives its length four bytes)
            tx = btctx.gen_sized_tx(rng, total_len=c["sized_tx"]) or tx
        if c.get("same_tx_as_previous") and prev is not None and "tx" in prev:
            tx = prev["tx"]
            if rng.random() < 0.4 and not tx.get("witness") and "ops" in tx:
                # ... or a transaction that is the previous one but for one small field
                # (what was worked out for the previous one is not about this one)
                tx = btctx.near_variant(rng, tx)
                out["near_copy"] = True
        nin = len(tx["ins"])
        idx = rng.choice([0, 1 % nin, nin - 1, 2**32 - 1, rng.getrandbits(32), rng.randrange(nin)])
        segwit = None
        if form == "segwit":
            wl = rng.choice([1, 2, 71, 105, 252, 253, 254, 300, rng.randint(1, 600)])
            if big and rng.random() < 0.3:
                wl = rng.choice([65535 - 11, 40000])
            ws = rng.randbytes(wl)
            val = rng.choice([1, 2**64 - 1, 2**63, rng.getrandbits(64) or 1, 546])
            segwit = (ws, val)
        boundary = rng.random() < (0.02 if not spec.get("big") else 0.05)
        receipt = rq.gen_receipt(rng)
        proof = rq.gen_proof(rng, boundary=boundary)
        if c.get("same_tx_as_previous") and prev is not None and "receipt" in prev:
            # the other inputs of a pegout come with the same receipt - and, normally, the
            # same proof; here each of the two may or may not be the previous one
            k = rng.random()
            if k < 0.45:
                receipt = prev["receipt"]
            elif k < 0.6:
                proof = prev["proof"]
            elif k < 0.7:
                receipt, proof = prev["receipt"], prev["proof"]
        out["req"] = rq.sign_auth_request(key, tx["raw"], idx, receipt, proof, segwit)
        out.update(key=key, tx=tx, idx=idx, segwit=segwit, receipt=receipt, proof=proof)
        out["spaced"] = None
        if rng.random() < 0.06:
            # the same bytes, written with ASCII blanks between hex digit pairs in one
            # field: the manager either refuses the request without touching the device,
            # or relays exactly these bytes
            req = out["req"]
            where = rng.choice(["tx", "receipt", "proof", "witnessScript" if segwit else "tx"])
            if where == "tx":
                req["message"]["tx"] = respace(rng, req["message"]["tx"])
            elif where == "witnessScript":
                req["message"]["witnessScript"] = respace(rng, req["message"]["witnessScript"])
            elif where == "receipt":
                req["auth"]["receipt"] = respace(rng, req["auth"]["receipt"])
            else:
                k = rng.randrange(len(proof))
                req["auth"]["receipt_merkle_proof"][k] = respace(
                    rng, req["auth"]["receipt_merkle_proof"][k])
            out["spaced"] = where
    # device behaviour
    out["chunk"] = gen_policy(rng)
    if rng.random() < 0.35:
        out["sign_policy"]["any_path"] = True
    h = rng.random()
    if form != "hash" and h < 0.25:
        part = rng.choice(["tx", "receipt", "proof"])
        r = rng.random()
        if r < 0.3:
            out["sign_policy"]["early"] = (part, rng.choice([1, 2, 7, 8, 20, 60, 90]))
            out["hostile"] = "early:" + part
        elif r < 0.6:
            # stops just short of the end, after many small requests
            out["sign_policy"]["early_tail"] = (part, rng.choice([1, 2, 3, 5, 10, 30]))
            out["chunk"] = ChunkPolicy("const", rng.choice([1, 2, 3, 4, 8]),
                                       random.Random(rng.getrandbits(32)))
            out["hostile"] = "early-tail:" + part
        else:
            out["sign_policy"]["late"] = {part: rng.choice([1, 2, 3, 4, 5, 8, 20])}
            out["hostile"] = "late:" + part
    if c.get("byte_at_a_time"):
        out["chunk"] = ChunkPolicy("const", 1, random.Random(rng.getrandbits(32)))
        out["sign_policy"] = {k: v for k, v in out["sign_policy"].items() if k == "any_path"}
        out["hostile"] = None
    elif c.get("sized_tx", 0) > 2 ** 20:
        # (megabytes in one-byte pieces would take hours: the largest requests only)
        out["chunk"] = ChunkPolicy("const", rng.choice([255, 255, 240, 200]),
                                   random.Random(rng.getrandbits(32)))
        out["sign_policy"].pop("early_tail", None)
    out["exchange_fault"] = None
    if form != "hash" and out["hostile"] is None and rng.random() < 0.06 and \
            not c.get("byte_at_a_time"):
        # one exchange of the dialogue fails (error status in the device's range, or no
        # answer within the time-out): the request must not be reported as signed, and the
        # next request on this manager must be relayed as if nothing had happened before
        out["exchange_fault"] = (rng.randint(1, 14),
                                 rng.choice(["sw:6a87", "sw:6a88", "sw:6b0c", "timeout"]))
    shape = rng.choice(["normal", "normal", "short", "long", "x31", "rubbish", "min", "zero_r",
                        "bad"])
    if shape == "bad":
        out["sig"] = der.make_bad_sig(rng)
    else:
        out["sig"] = der.make_sig(rng, shape)[0]
    out["sigshape"] = shape
    orng = random.Random(c["seed"] ^ 0x0bde)
    if orng.random() < 0.3:
        # the members of the request's objects written in another order
        out["req"] = rq.reorder_members(orng, out["req"])
        out["members_reordered"] = True
    return out


def respace(rng, hx):
    pairs = [hx[i:i + 2] for i in range(0, len(hx), 2)]
    k = rng.random()
    if k < 0.4:
        return " ".join(pairs)
    if k < 0.7:
        cut = sorted(rng.sample(range(len(pairs) + 1), min(len(pairs) + 1, rng.randint(2, 5))))
        out = []
        for i, p in enumerate(pairs):
            if i in cut:
                out.append(rng.choice([" ", "\t", "\n", "  "]))
            out.append(p)
        return "".join(out) + (" " if len(pairs) in cut else "")
    return " " + hx + rng.choice([" ", "\n", " \n"])


def expected_streams(b):
    """what the device must end up holding, computed from the request alone"""
    exp = {"path": path_to_binary(b["key"])}
    if "hash" in b:
        exp["tail"] = b["hash"]
        return exp
    exp["tail"] = b["idx"].to_bytes(4, "little")
    extra = b""
    if b["segwit"]:
        ws, val = b["segwit"]
        extra = btc.enc_varint(len(ws)) + ws + val.to_bytes(8, "little")
    exp["mode"] = 1 if b["segwit"] else 0
    exp["extra"] = extra
    exp["receipt"] = b["receipt"]
    exp["proof"] = bytes([len(b["proof"])]) + b"".join(bytes([len(n)]) + n for n in b["proof"])
    return exp


def monitor(acc, c, b, dev, nrec_before, mark, bus, reply, exc):
    """returns None; reports violations"""
    case = {"case": c}

    def bad(mech, **detail):
        detail["hostile"] = b["hostile"]
        detail["chunk"] = b["chunk"].describe()
        detail["form"] = c["form"]
        acc.violation(mech, detail, case)

    if exc is not None:
        return bad("exception-escaped:%s" % type(exc).__name__, exc=repr(exc))
    if not isinstance(reply, dict) or type(reply.get("errorcode")) is not int:
        return bad("malformed-reply", reply=reply)
    recs = dev.sign_records[nrec_before:]
    if b.get("spaced"):
        acc.count("hex_written_with_blanks")
        if not recs and reply["errorcode"] in (-101, -102) and not bus.apdus(mark):
            acc.count("hex_written_with_blanks_refused")
            return
    if len(recs) != 1:
        return bad("device-saw-%d-sign-dialogues" % len(recs), reply=reply)
    rec = recs[0]
    exp = expected_streams(b)
    # everything the device received in this request must be sign APDUs
    for e in bus.apdus(mark):
        if e["apdu"] is not None and e["apdu"][1] != 0x02:
            return bad("foreign-apdu-during-sign", apdu=e["apdu"].hex())
    acc.count("stream_comparisons")
    if rec["path"] != exp["path"]:
        return bad("path-bytes-differ", got=rec["path"].hex(), want=exp["path"].hex())
    if rec["tail"] != exp["tail"]:
        return bad("path-message-tail-differs", got=(rec["tail"] or b"").hex(),
                   want=exp["tail"].hex())
    consumed_all = True
    if "hash" not in b and rec["kind"] == "auth":
        order = rec["order"]
        if order != ["tx", "receipt", "proof"][:len(order)]:
            return bad("parts-out-of-order", order=order)
        st = rec["streams"]
        # --- BTC payload
        d = st["tx"].data
        acc.count("stream_comparisons")
        full_tx = False
        if len(d) >= 7:
            plen = int.from_bytes(d[:4], "little")
            mode = d[4]
            edl = int.from_bytes(d[5:7], "little")
            utx = d[7:plen]
            extra = d[plen:]
            if len(d) >= plen + edl or rec["stopped_early"] is None or \
                    rec["stopped_early"][0] != "tx":
                # the device read the part to its end: everything must match
                if mode != exp["mode"]:
                    return bad("sighash-mode-byte", got=mode, want=exp["mode"])
                if edl != len(exp["extra"]):
                    return bad("extradata-length-field", got=edl, want=len(exp["extra"]))
                problems = btc.check_unsigned(b["tx"]["raw"], utx)
                if problems:
                    return bad("relayed-tx-wrong", problems=problems[:4], plen=plen,
                               total=len(d))
                if extra != exp["extra"]:
                    return bad("extradata-differs", got=extra.hex()[:200],
                               want=exp["extra"].hex()[:200])
                if plen != 7 + len(utx):
                    return bad("payload-length-field", got=plen, want=7 + len(utx))
                full_tx = True
                acc.count("tx_streams_fully_checked")
        if not full_tx:
            consumed_all = False
            # prefix rule: what was read must be a prefix of a correct stream
            if len(d) >= 7:
                if d[4] != exp["mode"] or int.from_bytes(d[5:7], "little") != len(exp["extra"]):
                    return bad("payload-header-wrong-on-partial-read", got=d[:7].hex())
        # --- receipt
        if "receipt" in st:
            acc.count("stream_comparisons")
            r = st["receipt"].data
            if r != exp["receipt"]:
                if exp["receipt"].startswith(r) and rec["stopped_early"] and \
                        rec["stopped_early"][0] in ("tx", "receipt"):
                    consumed_all = False
                else:
                    return bad("receipt-differs", got=r.hex()[:200],
                               want=exp["receipt"].hex()[:200])
        else:
            consumed_all = False
        # --- proof
        if "proof" in st:
            acc.count("stream_comparisons")
            p = st["proof"].data
            if p != exp["proof"]:
                if exp["proof"].startswith(p) and rec["stopped_early"]:
                    consumed_all = False
                else:
                    return bad("proof-differs", got=p.hex()[:200], want=exp["proof"].hex()[:200])
        else:
            consumed_all = False
        if rec["stopped_early"] is None and not rec["success"] and \
                [p for p in ("tx", "receipt", "proof") if p not in st]:
            # the device never stopped asking and never refused anything: a part it was
            # not given was dropped by the manager
            return bad("part-never-delivered-to-a-willing-device",
                       missing=[p for p in ("tx", "receipt", "proof") if p not in st],
                       late=b["sign_policy"].get("late"), reply=reply)
        chunks = sum(len(s.chunks) for s in st.values())
        if max(len(s.chunks) for s in st.values()) >= 2 ** 17:
            acc.count("parts_relayed_in_2^17_exchanges_or_more")
        if max(len(s.chunks) for s in st.values()) > 2 ** 20:
            acc.count("parts_relayed_in_more_than_2^20_exchanges")
        if chunks >= 4 and len(st) >= 2:
            acc.count("nontrivial_auth")
    elif "hash" not in b:
        consumed_all = False   # device refused at the path step
    # --- reply vs what the device did
    rs = der.parse_sig(rec["signature"]) if rec["success"] else None
    should_succeed = bool(rec["success"] and consumed_all and rs is not None)
    code = reply["errorcode"]
    if should_succeed:
        if code != 0:
            return bad("device-success-not-reported", reply=reply,
                       sig=rec["signature"].hex())
        got = reply.get("signature")
        if not isinstance(got, dict) or got.get("r") != rs[0] or got.get("s") != rs[1]:
            return bad("signature-components-differ", reply=reply, want=rs)
        acc.count("success_replies")
    else:
        if code == 0:
            return bad("success-reported-without-full-consumption", reply=reply,
                       device_success=rec["success"], consumed_all=consumed_all,
                       sig_ok=rs is not None, early=rec["stopped_early"])
        acc.count("refusal_replies")


def run_case(acc, c, spec, stacks):
    from ..stack import Stack, signer_device
    # transport: the Ledger HID stack mostly; SGX and TCPSigner (both over the TCP
    # transport and their own dongle classes) for a fifth of the v5 cases
    plat = c.setdefault("platform", "ledger" if c["v1"] else
                        random.Random(c["seed"] ^ 0x9e3779b9).choice(
                            ["ledger", "ledger", "ledger", "ledger", "sgx", "tcp"]))
    key = (c["v1"], plat)
    prev = stacks.get(("prev", key))
    if prev is not None and "same_tx_as_previous" not in c and c["form"] != "hash" and \
            not c.get("sized_tx") and \
            "tx" in prev[1] and random.Random(c["seed"] ^ 0x5bd1e995).random() < 0.25:
        # replays need the predecessor too
        c["same_tx_as_previous"] = {k: v for k, v in prev[0].items()
                                    if k != "same_tx_as_previous"}
    if c.get("same_tx_as_previous") and prev is None:
        # replay: run the predecessor first, on the same stack
        run_case(acc, dict(c["same_tx_as_previous"]), spec, stacks)
        prev = stacks.get(("prev", key))
    b = build(c, spec, prev[1] if prev else None)
    if "tx" in b and len(b["tx"]["raw"]) >= 2 ** 24:
        acc.count("transactions_of_16_MiB_or_more")
    if b.get("members_reordered"):
        acc.count("requests_with_their_members_in_another_order")
    if c.get("same_tx_as_previous"):
        acc.count("same_tx_asked_again")
        if b.get("near_copy"):
            acc.count("previous_tx_asked_again_with_one_small_field_changed")
    stacks[("prev", key)] = (c, b)
    st = stacks.get(key)
    if st is None:
        dev = signer_device(platform=plat)
        if plat == "sgx":
            dev.unlocked = True
        s = Stack(dev, version_one=c["v1"])
        s.__enter__()
        s.initialize()
        stacks[key] = st = (s, dev)
    s, dev = st
    dev.chunk = b["chunk"]
    dev.sign_policy = b["sign_policy"]
    dev.signatures = iter([b["sig"]] * 3)
    prng = random.Random(c["seed"] ^ 0x2545f491)
    if "tx" in b and not c["v1"] and prng.random() < 0.12:
        # the request before this one, on the same manager, was a sign request with one
        # thing wrong that is only found out late (by the middleware while it encodes a
        # part, or by the device): whatever that one left behind, this one is relayed as is
        import copy as _copy
        pre = _copy.deepcopy(b["req"])
        how = prng.choice(["proof-node-256-bytes-last", "proof-node-256-bytes-last",
                           "proof-node-256-bytes-first", "proof-256-nodes",
                           "input-beyond-last", "receipt-empty", "tx-trailing-byte",
                           "block-operation-cut", "block-operation-cut",
                           "block-operation-cut"])
        if how == "block-operation-cut":
            # ... or it was an advanceBlockchain / updateAncestorBlock that the device
            # refused (or that timed out) at one of its exchanges - the chunked transfers
            # of all these commands go through the same helper
            from ..gen import blocks as _gb
            from ..simdev.transport import Fault as _F
            blks = [_gb.gen_block(prng, 19, tiny=True), _gb.gen_block(prng, 20, tiny=True)]
            if prng.random() < 0.6:
                pre = {"command": "advanceBlockchain", "version": 5,
                       "blocks": [b_["raw"].hex() for b_ in blks],
                       "brothers": [[_gb.gen_block(prng, 19, tiny=True)["raw"].hex()], []]}
            else:
                pre = {"command": "updateAncestorBlock", "version": 5,
                       "blocks": [b_["raw"].hex() for b_ in blks]}
            cut = _F("sw", sw=prng.choice([0x6B9A, 0x6B88, 0x6B90, 0x6A8F])) \
                if plat != "ledger" or prng.random() < 0.7 else _F("timeout")
            s.bus.arm({prng.randint(1, 9): cut})
            saved_policy = dev.adv_policy
            dev.adv_policy = {}
            rp, ep, _ = s.request(pre)
            s.bus.arm({})
            dev.adv_policy = saved_policy
            if hasattr(dev, "reset_adv"):
                dev.reset_adv()
            dev.reset_sign()
            acc.count("cases_preceded_by_a_block_operation_cut_short")
            del s.bus.events[:]
            if ep is not None:
                s.__exit__(None, None, None)
                stacks.pop(key, None)
                return run_case(acc, c, spec, stacks)
            how = None
        try:
            if how == "proof-node-256-bytes-last":
                pre["auth"]["receipt_merkle_proof"] = [
                    prng.randbytes(prng.randint(1, 60)).hex()
                    for _ in range(prng.randint(1, 4))] + [prng.randbytes(256).hex()]
            elif how == "proof-node-256-bytes-first":
                pre["auth"]["receipt_merkle_proof"] = [prng.randbytes(256).hex(), "aa" * 5]
            elif how == "proof-256-nodes":
                pre["auth"]["receipt_merkle_proof"] = ["ab"] * 256
            elif how == "input-beyond-last":
                pre["message"]["input"] = len(b["tx"]["ins"]) + prng.randint(0, 3)
            elif how == "receipt-empty":
                pre["auth"]["receipt"] = ""
            elif how is not None:
                pre["message"]["tx"] = pre["message"]["tx"] + "00"
            if how is None:
                raise KeyError("done above")
            rp, ep, _ = s.request(pre)
            acc.count("cases_preceded_by_a_sign_refused_late")
            dev.reset_sign()
            del s.bus.events[:]
            if ep is not None:
                # (not this property's business; start over on a fresh manager)
                s.__exit__(None, None, None)
                stacks.pop(key, None)
                return run_case(acc, c, spec, stacks)
        except (KeyError, TypeError):
            pass
    if plat == "ledger" and not c["v1"] and prng.random() < 0.08 and \
            not c.get("no_heartbeat_prelude"):
        # the request before this one was a uiHeartbeat that failed one way or another -
        # the device ignored the exit and stayed in the signer, a mode query or a heartbeat
        # exchange got an error status or no answer, the heartbeat material was unusable -
        # and the device is in the signer now: this request is relayed like any other
        from ..simdev.transport import Fault as _F
        from ..simdev.device import MODE_SIGNER as _MS
        how = prng.choice(["exit-ignored", "exit-ignored", "fault", "fault", "plain"])
        saved = (dev.cfg["hb_exit_mode"], dev.cfg["hb_back_mode"])
        if how == "exit-ignored":
            dev.cfg["hb_exit_mode"] = _MS
        elif how == "fault":
            s.bus.arm({prng.randint(1, 12): prng.choice([
                _F("sw", sw=0x6E00), _F("sw", sw=0x6B00), _F("sw", sw=0x6D00), _F("timeout")])})
        rp, ep, _ = s.request({"command": "uiHeartbeat", "version": 5,
                               "udValue": prng.randbytes(32).hex()})
        s.bus.arm({})
        dev.cfg["hb_exit_mode"], dev.cfg["hb_back_mode"] = saved
        acc.count("cases_preceded_by_a_ui_heartbeat")
        if ep is not None:
            # (the heartbeat stopped the manager: start over on a fresh one, without it)
            s.__exit__(None, None, None)
            stacks.pop(key, None)
            return run_case(acc, dict(c, no_heartbeat_prelude=True), spec, stacks)
        if isinstance(rp, dict) and rp.get("errorcode") != 0:
            acc.count("cases_preceded_by_a_failed_ui_heartbeat")
        dev.mode = _MS
        dev.pending_link = None
        dev.reset_sign()
        del s.bus.events[:]
    nrec = len(dev.sign_records)
    mark = len(s.bus.events)
    if b.get("exchange_fault"):
        from ..simdev.transport import Fault
        k, what = b["exchange_fault"]
        if what == "timeout" and plat != "ledger":
            what = "sw:6a87"    # (socket failures are not classified by the dongle layer)
        s.bus.arm({k: Fault("timeout") if what == "timeout" else
                   Fault("sw", sw=int(what[3:], 16))})
    reply, exc, out = s.request(b["req"])
    if b.get("exchange_fault"):
        s.bus.arm({})
        fired = any(e.get("fault") for e in s.bus.events[mark:])
        if fired:
            acc.evaluations += 1
            acc.count("dialogues_with_a_failed_exchange")
            if exc is not None or not isinstance(reply, dict) or \
                    type(reply.get("errorcode")) is not int or reply.get("errorcode") == 0:
                acc.violation("signed-although-an-exchange-failed",
                              {"reply": reply, "exc": repr(exc), "fault": b["exchange_fault"]},
                              {"case": c})
            dev.reset_sign()
            stacks[("prev", key)] = (c, b)
            return
    acc.evaluations += 1
    if c["v1"]:
        acc.count("v1_cases")
    if plat != "ledger":
        acc.count("cases_over_tcp_transport")
    if b["hostile"]:
        acc.count("hostile_cases")
    monitor(acc, c, b, dev, nrec, mark, s.bus, reply, exc)
    kinds = ""
    nin = 0
    if "tx" in b:
        kinds = ",".join(sorted({k for ks in b["tx"]["kinds"] for k in ks}))
        nin = len(b["tx"]["ins"])
    acc.distinct.add("%s|%s|%d|%s|%s|%s|%s" % (("v1" if c["v1"] else "v5") + (
        "" if plat == "ledger" else ":" + plat), c["form"], nin, kinds,
                                              b["chunk"].describe(), b["hostile"],
                                              b["sigshape"]))
    if len(acc.samples) < 3 and "tx" in b:
        acc.sample({"request": {k: (v if k != "message" else {kk: (str(vv)[:120]) for kk, vv in
                                                                 v.items()})
                                for k, v in b["req"].items() if k != "auth"},
                    "chunk_policy": b["chunk"].describe(), "hostile": b["hostile"],
                    "reply": reply,
                    "apdus": len(s.bus.apdus(mark))})
    del dev.sign_records[:-2]
    del s.bus.events[:]
    if exc is not None:
        # rebuild the stack so one defect does not mask the rest
        try:
            s.__exit__(None, None, None)
        finally:
            stacks.pop(key, None)


def install_chunk_contract(acc):
    """function-level contract on the real HSM2Dongle._send_data_in_chunks (icontract
    when installed): the chunks handed to _send_command, concatenated, are a prefix of
    `data`; on success with expect_full_data they are all of it.  A second observation
    point beside the device-side reassembly."""
    from ledger.hsm2dongle import HSM2Dongle as D
    if getattr(D._send_data_in_chunks, "_pv_wrapped", False):
        return
    orig_chunks = D._send_data_in_chunks
    orig_send = D._send_command

    def send(self, command, data=b"", timeout=D.DONGLE_TIMEOUT):
        rec = getattr(self, "_pv_chunk_rec", None)
        if rec is not None:
            rec.append(bytes(data[1:]))
        return orig_send(self, command, data, timeout)

    def post(self, data, expect_full_data, result):
        sent = b"".join(self._pv_chunk_rec)
        acc.count("chunk_contract_evaluations")
        ok = bytes(data).startswith(sent) and \
            (not (result[0] and expect_full_data) or sent == bytes(data))
        if not ok:
            acc.violation("chunk-contract:sent-bytes-not-%s-of-data" % (
                "all" if bytes(data).startswith(sent) else "a-prefix"),
                {"sent": len(sent), "data": len(data), "success": bool(result[0])},
                {"case": None})
        return True

    def wrapped(self, command, operation, next_operations, data, expect_full_data,
                initial_bytes, operation_name, data_description):
        self._pv_chunk_rec = []
        try:
            result = orig_chunks(self, command, operation, next_operations, data,
                                 expect_full_data, initial_bytes, operation_name,
                                 data_description)
            post(self, data, expect_full_data, result)
            return result
        finally:
            self._pv_chunk_rec = None
    try:
        import icontract

        def cond(self, data, expect_full_data, result):
            return post(self, data, expect_full_data, result)

        def inner(self, command, operation, next_operations, data, expect_full_data,
                  initial_bytes, operation_name, data_description):
            return orig_chunks(self, command, operation, next_operations, data,
                               expect_full_data, initial_bytes, operation_name,
                               data_description)
        checked = icontract.ensure(cond, error=AssertionError)(inner)

        def wrapped(self, command, operation, next_operations, data, expect_full_data,  # noqa
                    initial_bytes, operation_name, data_description):
            self._pv_chunk_rec = []
            try:
                return checked(self, command, operation, next_operations, data,
                               expect_full_data, initial_bytes, operation_name,
                               data_description)
            finally:
                self._pv_chunk_rec = None
        acc.count("icontract_postcondition_used")
    except ImportError:
        pass
    wrapped._pv_wrapped = True
    D._send_command = send
    D._send_data_in_chunks = wrapped


def run_shard(spec, acc):
    env.setup()
    install_chunk_contract(acc)
    rng = random.Random(spec["seed"])
    stacks = {}
    for i in range(spec["n"]):
        c = gen_case(rng, spec, i)
        run_case(acc, c, spec, stacks)
    for k, v in stacks.items():
        if k[0] != "prev":
            v[0].__exit__(None, None, None)


def replay(case, acc):
    env.setup()
    c = case["case"]
    run_case(acc, c, c["spec"], {})
