# Import environment for the checks: puts the bitcoin.core shim and the
# repository's middleware directory on sys.path.  VERIF_REPO is honoured only so
# that the self-test driver / seeded-change runner can point the same checks at a
# scratch copy; registered commands never set it.
import os
import sys
import logging

VERIF = os.path.dirname(os.path.dirname(os.path.abspath(__file__)))
REPO = os.environ.get("VERIF_REPO", "/repo")
MIDDLEWARE = os.path.join(REPO, "middleware")
SHIMS = os.path.join(VERIF, "pv", "shims")
DEPS = os.path.join(VERIF, ".deps")

_done = False


def setup():
    global _done
    if _done:
        return
    _done = True
    sys.dont_write_bytecode = True
    for p in (MIDDLEWARE, SHIMS):
        if p in sys.path:
            sys.path.remove(p)
    # shim first: it must shadow the unrelated `bitcoin` 1.1.42 package
    sys.path.insert(0, SHIMS)
    sys.path.insert(1, MIDDLEWARE)
    if os.path.isdir(DEPS) and DEPS not in sys.path:
        sys.path.append(DEPS)
    # the middleware logs a lot; silence it (the monitors do not read logs)
    logging.disable(logging.CRITICAL)


def repo_path(*parts):
    return os.path.join(REPO, *parts)


_LOGGING = {"on": False}


def logging_as_shipped(level="DEBUG"):
    """the manager's entry point configures logging from middleware/logging.cfg before
    anything else: root logger at NOTSET, one stream handler at DEBUG.  Every record is
    then formatted - and every `isEnabledFor(DEBUG)` branch taken - as in production;
    the text goes to a sink.  level="INFO" is an operator's quieter configuration."""
    import io

    class Sink(io.StringIO):
        def write(self, s):
            return len(s)
    lvl = getattr(logging, level)
    logging.disable(logging.NOTSET)
    logging.raiseExceptions = False
    root = logging.getLogger()
    if _LOGGING["on"] != level:
        for h in list(root.handlers):
            root.removeHandler(h)
        h = logging.StreamHandler(Sink())
        h.setLevel(lvl)
        h.setFormatter(logging.Formatter("[%(levelname)s:%(name)s] %(message)s"))
        root.addHandler(h)
        root.setLevel(logging.NOTSET if level == "DEBUG" else lvl)
        _LOGGING["on"] = level


OTHER_FS = "/dev/shm"


def mkdtemp(tag, odd=True, other_fs=False):
    """scratch directory for the files handed to the tools.  odd: its name holds a blank
    and characters that mean something to globs, shells and format strings - to the
    tools it is a directory name.  other_fs: on another file system than the system's
    temporary directory (where a tool may keep scratch files of its own), if there is one"""
    import tempfile
    prefix = ("pv %s [k]%%s{0}~-" if odd else "pv-%s-") % tag
    if other_fs and on_other_fs():
        return tempfile.mkdtemp(prefix=prefix, dir=OTHER_FS)
    return tempfile.mkdtemp(prefix=prefix)


def on_other_fs():
    import tempfile
    try:
        return os.path.isdir(OTHER_FS) and os.access(OTHER_FS, os.W_OK) and \
            os.stat(OTHER_FS).st_dev != os.stat(tempfile.gettempdir()).st_dev
    except OSError:
        return False


class odd_environ:
    """process environment as an operator's shell may have it: a terminal size exported
    (COLUMNS / LINES), a dumb or absent terminal, colour switches, another locale, no home
    directory.  None of it is input to what the tools compute."""

    def __init__(self, rng, p=0.3):
        self.vars = {}
        if rng.random() < p:
            pool = {"COLUMNS": ["80", "80", "40", "20", "1", "0", "200", "-1", "x"],
                    "LINES": ["24", "1"], "TERM": ["dumb", "", "xterm-256color"],
                    "NO_COLOR": ["1"], "LANG": ["C", "tr_TR.UTF-8"], "LC_ALL": ["C", "POSIX"],
                    "HOME": ["/nonexistent"], "PYTHONIOENCODING": ["ascii", "utf-8"],
                    "DEBUG": ["1"], "VERBOSE": ["1"], "WIDTH": ["40"],
                    # (names under which wrappers and containers hand secrets and settings to
                    # the manager scripts: no admin command is documented to read them)
                    "PIN": ["1234", "", "12345678", "abc"], "HSM_PIN": ["1234"],
                    "PASSWORD": ["1234"], "ANY_PIN": ["1"], "NETWORK": ["testnet"],
                    "ROOT_AUTHORITY": ["00"], "LOGLEVEL": ["DEBUG"]}
            names = rng.sample(sorted(pool), rng.randint(1, 4))
            if rng.random() < 0.4 and "PIN" not in names:
                names.append("PIN")
            if rng.random() < 0.6 and "COLUMNS" not in names:
                names.append("COLUMNS")
            self.vars = {n: rng.choice(pool[n]) for n in names}
        self._saved = {}

    def __enter__(self):
        for k, v in self.vars.items():
            self._saved[k] = os.environ.get(k)
            os.environ[k] = v
        return self

    def __exit__(self, *a):
        for k, v in self._saved.items():
            if v is None:
                os.environ.pop(k, None)
            else:
                os.environ[k] = v
        return False
