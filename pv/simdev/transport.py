# Fake transports under the *real* ledgerblue stack (DESIGN.md 2.2).
#
#  - HID: hid.enumerate / hid.device are replaced; the real
#    ledgerblue.comm.getDongle and HIDDongleHIDAPI.exchange run on top.  The
#    Ledger HID framing below is written from the protocol description
#    (channel 0x0101, tag 0x05, big-endian sequence numbers, 64-byte reports),
#    not by calling ledgerWrapper.
#  - TCP: ledgerblue.commTCP's `socket` module reference is replaced by an
#    in-process fake socket, so the real DongleServer.exchange runs.
#
# Every event goes to Bus.events with a logical clock.

import struct
import threading

CHANNEL = 0x0101
TAG = 0x05
PKT = 64


class VirtualClock:
    """Stands in for the `time` module inside ledgerblue.comm and
    ledger.protocol: sleeping advances virtual time only."""

    def __init__(self):
        self.now = 1000.0
        self.sleeps = 0

    def time(self):
        return self.now

    def sleep(self, dt):
        self.sleeps += 1
        # the HID wait loop sleeps 0.1 ms per poll; advance in big steps so a
        # 10 s device time-out costs ~25 iterations
        self.now += max(dt, 0.5)


class Fault:
    """kind: 'sw' (device answers only this status word, APDU not processed),
    'sw_keep' (APDU processed, status word replaced), 'timeout', 'write_error',
    'read_error' (processed: whether the device handled the APDU before the link
    broke), 'badop' (answer carries an unexpected opcode), 'truncate' (answer cut
    to n bytes)."""

    def __init__(self, kind, sw=None, n=None, processed=False):
        self.kind = kind
        self.sw = sw
        self.n = n
        self.processed = processed

    def key(self):
        return (self.kind, self.sw, self.n, self.processed)

    def __repr__(self):
        extra = ""
        if self.sw is not None:
            extra = ":%04x" % self.sw
        if self.n is not None:
            extra += ":n=%d" % self.n
        return "Fault(%s%s)" % (self.kind, extra)


class Bus:
    def __init__(self, device, clock=None):
        self.device = device
        self.clock = clock or VirtualClock()
        self.events = []
        self.tick = 0
        self.n_apdu = 0          # exchanges begun since last arm()
        self.plan = {}           # exchange index -> Fault
        self.enumerate_fail = 0  # next N enumerations list no device
        self.open_fail = 0
        self.connect_fail = 0    # TCP: next N connects are refused
        self.handle_seq = 0
        self.inflight = 0
        self.max_inflight = 0
        self.exchange_hook = None  # callable(bus, apdu) run inside an exchange
        self.tag = None            # harness-set label copied on every event
        self.tag_fn = None         # or a callable giving the label (thread-local contexts)
        self.lock = threading.Lock()   # the monitors' own state is updated atomically
        self.last_drop = None

    def log(self, kind, **kw):
        with self.lock:
            self.tick += 1
            kw["t"] = self.tick
            kw["ev"] = kind
            tag = self.tag_fn() if self.tag_fn is not None else self.tag
            if tag is not None:
                kw["tag"] = tag
            kw["thread"] = threading.get_ident()
            self.events.append(kw)
        return kw

    def arm(self, plan=None):
        """start counting exchanges from 0 with the given fault plan"""
        self.plan = dict(plan or {})
        self.n_apdu = 0

    def begin(self):
        idx = self.n_apdu
        self.n_apdu += 1
        return idx, self.plan.get(idx)

    def arm_cmd(self, by_cmd=None):
        """one-shot faults by command byte (second byte of the APDU): the next exchange of
        that command gets the fault, whatever its position"""
        self.cmd_plan = dict(by_cmd or {})

    def cmd_fault(self, cmd, op=None):
        """keys: a command byte, or (command byte, operation byte)"""
        plan = getattr(self, "cmd_plan", None)
        if plan and (cmd, op) in plan:
            return plan.pop((cmd, op))
        if plan and cmd in plan:
            return plan.pop(cmd)
        return None

    def apdus(self, since=0):
        return [e for e in self.events[since:] if e["ev"] == "apdu"]

    def process(self, apdu, idx, fault, handle):
        """returns (data, sw) or None when nothing comes back"""
        with self.lock:
            self.inflight += 1
            self.max_inflight = max(self.max_inflight, self.inflight)
        try:
            if self.exchange_hook is not None:
                self.exchange_hook(self, apdu)
            kind = fault.kind if fault else None
            if kind == "sw":
                data, sw = b"", fault.sw
                self.device.note_fault(apdu, fault)
            elif kind in ("timeout", "read_error") and not fault.processed:
                data, sw = None, None
                self.device.note_fault(apdu, fault)
            else:
                data, sw = self.device.exchange(apdu)
                drop = getattr(self.device, "pending_link", None)
                if drop is not None and fault is not None:
                    # an injected outcome replaces the device's own link drop
                    self.device.pending_link = None
                    drop = None
                if drop is not None and fault is None:
                    # the device itself drops the link (e.g. USB re-enumeration
                    # when an app exits): modelled as a processed fault
                    self.device.pending_link = None
                    fault = Fault(drop, processed=True)
                    kind = drop
                if kind == "sw_keep":
                    sw = fault.sw
                elif kind == "badop":
                    if len(data) > 2:
                        data = data[:2] + bytes([0x7e]) + data[3:]
                    else:
                        data = data + bytes(3 - len(data))
                        data = data[:2] + bytes([0x7e])
                elif kind == "truncate":
                    data = data[:fault.n]
                elif kind == "op":
                    # a well-formed answer carrying another (valid) opcode of the command
                    # (followed by a size byte, which the data-requesting opcodes need)
                    data = (data + bytes(3))[:2] + bytes([fault.n]) + (data[3:] or b"\x20")
            self.log("apdu", i=idx, h=handle, apdu=bytes(apdu),
                     data=data, sw=sw, fault=repr(fault) if fault else None)
            if kind in ("timeout", "read_error"):
                self.last_drop = kind
                return None
            if kind == "late":
                self.last_drop = "late"
            return data, sw
        finally:
            with self.lock:
                self.inflight -= 1


# ---------------------------------------------------------------- HID ---

def _frame_response(payload):
    out = []
    seq = 0
    first = struct.pack(">HBHH", CHANNEL, TAG, seq, len(payload))
    room = PKT - len(first)
    pkt = first + payload[:room]
    off = room
    out.append(pkt.ljust(PKT, b"\x00"))
    while off < len(payload):
        seq += 1
        hdr = struct.pack(">HBH", CHANNEL, TAG, seq)
        room = PKT - len(hdr)
        out.append((hdr + payload[off:off + room]).ljust(PKT, b"\x00"))
        off += room
    return out


class FakeHidDevice:
    def __init__(self, bus):
        self.bus = bus
        self.handle = None
        self.open = False
        self._rx = bytearray()
        self._rx_total = None
        self._rx_seq = 0
        self._queue = []
        self._read_error = False
        self._drop = False
        self._cur = None

    def open_path(self, path):
        if self.bus.open_fail > 0:
            self.bus.open_fail -= 1
            self.bus.log("open_fail")
            raise IOError("open failed")
        self.bus.handle_seq += 1
        self.handle = self.bus.handle_seq
        self.open = True
        self.bus.log("open", h=self.handle)

    def set_nonblocking(self, v):
        return 0

    def close(self):
        if self.open:
            self.bus.log("close", h=self.handle)
        self.open = False

    def write(self, data):
        data = bytes(data)
        if not self.open:
            raise ValueError("not open")
        if len(data) != PKT + 1 or data[0] != 0:
            raise AssertionError("HID fake: unexpected report %r" % data[:8])
        pkt = data[1:]
        chan, tag, seq = struct.unpack(">HBH", pkt[:5])
        if chan != CHANNEL or tag != TAG:
            raise AssertionError("HID fake: bad framing")
        if seq == 0 and getattr(self.bus, "awaiting_answer", False):
            # a command written while the host is still waiting for the answer to the
            # previous one (only code running inside that wait - a signal handler - can do it)
            self.bus.log("command-written-inside-the-wait-for-an-answer")
            if getattr(self.bus, "nested_log", None):
                with open(self.bus.nested_log, "a") as f_:
                    f_.write("nested %s\n" % pkt[7:9].hex())
        if seq == 0:
            # a new command: anything left from an earlier exchange is stale - except
            # after a late answer (Fault "late"): input reports the host never read stay in
            # the HID queue, exactly as with hidapi, and are read before the new answer
            if getattr(self, "_ready_at", None) is not None and self._queue:
                # a delayed answer the host did not wait for: it is (or will be) on the
                # HID queue ahead of whatever answers this new command
                self._desync = True
                self._stale = list(getattr(self, "_stale", [])) + list(self._queue)
                self._queue = []
                self.bus.log("delayed-answer-abandoned-by-host")
            self._ready_at = None
            if getattr(self, "_desync", False):
                self._queue = list(self._queue) + list(getattr(self, "_stale", []))
                self._stale = []
            else:
                self._queue = []
            self._read_error = False
            self._lat_done = False
            self._rx = bytearray()
            self._rx_seq = 0
            self._rx_total = struct.unpack(">H", pkt[5:7])[0]
            body = pkt[7:]
            self._hold = False
            idx, fault = self.bus.begin()
            if fault is None and len(body) > 1:
                fault = self.bus.cmd_fault(body[1], body[2] if len(body) > 2 else None)
            slow = getattr(self.bus, "slow_cmds", None)
            if fault is None and slow and len(body) > 1 and (body[1] in slow or "*" in slow):
                # a slow device: every answer to that command takes that long
                fault = Fault("delay", n=slow.get(body[1], slow.get("*")))
            self._cur = (idx, fault)
            self._drop = False
            if fault is not None and fault.kind == "write_error":
                self.bus.log("apdu", i=idx, h=self.handle, apdu=None, data=None,
                             sw=None, fault=repr(fault))
                self._drop = True
                return -1
        else:
            if self._drop:
                return -1
            if seq != self._rx_seq + 1:
                raise AssertionError("HID fake: bad sequence")
            self._rx_seq = seq
            body = pkt[5:]
        need = self._rx_total - len(self._rx)
        self._rx += body[:need]
        if len(self._rx) == self._rx_total:
            idx, fault = self._cur
            apdu = bytes(self._rx)
            res = self.bus.process(apdu, idx, fault, self.handle)
            if res is None:
                if self.bus.last_drop == "read_error":
                    self._read_error = True
            else:
                d, sw = res
                framed = _frame_response(bytes(d) + struct.pack(">H", sw))
                if fault is not None and fault.kind == "delay":
                    # the answer takes fault.n seconds (virtual) to arrive: in time if the
                    # host waits that long, otherwise it is a late answer (still queued)
                    self._queue = framed
                    self._ready_at = self.bus.clock.time() + fault.n
                    self.bus.log("delayed-answer", seconds=fault.n)
                elif fault is not None and fault.kind == "late":
                    # the answer arrives after the host has given up on it
                    self._stale = list(getattr(self, "_stale", [])) + framed
                    self._desync = True
                    self._hold = True
                elif getattr(self, "_desync", False):
                    self._queue = list(self._queue) + framed
                else:
                    self._queue = framed
        return len(data)

    def read(self, n, timeout_ms=0):
        if self._read_error:
            self._read_error = False
            raise OSError("read error")
        lat = getattr(self.bus, "read_latency", 0)
        if lat and self._queue and not getattr(self, "_lat_done", False):
            # the answer is on its way for `lat` REAL seconds (a slow device, a process that
            # can be signalled meanwhile).  Whatever interrupts the wait, the answer has been
            # sent: it stays on the HID queue, unread, like any input report
            import time as _t
            self._lat_done = True
            try:
                self.bus.awaiting_answer = True
                try:
                    _t.sleep(lat)
                finally:
                    self.bus.awaiting_answer = False
            except BaseException:
                self._desync = True
                self._stale = list(getattr(self, "_stale", [])) + list(self._queue)
                self._queue = []
                self.bus.log("read-interrupted-answer-left-on-the-queue")
                raise
        if getattr(self, "_hold", False):
            return []        # nothing arrives before the host's time-out
        if getattr(self, "_ready_at", None) is not None:
            if self.bus.clock.time() < self._ready_at:
                return []    # not yet
            if not self._queue:
                self._ready_at = None
        if self._queue:
            return list(self._queue.pop(0))
        return []


class HidPatch:
    """context manager: patches the hid module and ledgerblue.comm.time"""

    def __init__(self, bus):
        self.bus = bus
        self._saved = None

    def _enumerate(self, vid=0, pid=0):
        # enumerate_skip: let that many enumerations succeed first (so that e.g. the second
        # connection attempt inside one bring-up is the one that finds no device)
        if getattr(self.bus, "enumerate_skip", 0) > 0 and self.bus.enumerate_fail > 0:
            self.bus.enumerate_skip -= 1
        elif self.bus.enumerate_fail > 0:
            self.bus.enumerate_fail -= 1
            self.bus.log("enumerate", found=False)
            return []
        self.bus.log("enumerate", found=True)
        return [{"vendor_id": 0x2C97, "product_id": 0x1011, "interface_number": 0,
                 "usage_page": 0xFFA0, "path": b"fake-ledger"}]

    def _device(self):
        return FakeHidDevice(self.bus)

    def _exit(self):
        self.bus.log("hidapi_exit")

    def __enter__(self):
        import hid
        import ledgerblue.comm as lc
        self._had_exit = hasattr(hid, "hidapi_exit")
        self._saved = (hid.enumerate, hid.device,
                       getattr(hid, "hidapi_exit", None), lc.time)
        hid.enumerate = self._enumerate
        hid.device = self._device
        if self._had_exit:
            hid.hidapi_exit = self._exit
        lc.time = self.bus.clock
        # bus.close_fault: the transport library's close() reports an error after closing
        # (ledgerblue's HID class happens to swallow those of the hid module, other
        # transports and versions do not; the middleware's disconnect() expects a
        # CommException from it).  None: close() as the library does it.
        self._close = lc.HIDDongleHIDAPI.close
        bus, orig = self.bus, self._close

        def close(dongle):
            orig(dongle)
            f = getattr(bus, "close_fault", None)
            if f is not None and not isinstance(f, BaseException):
                f = f()         # a callable deciding, at that moment, whether this close fails
            if f is not None:
                bus.log("close-raised")
                raise f
        lc.HIDDongleHIDAPI.close = close
        return self

    def __exit__(self, *a):
        import hid
        import ledgerblue.comm as lc
        hid.enumerate, hid.device, ex, lc.time = self._saved
        if self._had_exit:
            hid.hidapi_exit = ex
        lc.HIDDongleHIDAPI.close = self._close
        return False


# ---------------------------------------------------------------- TCP ---

class _FakeSocket:
    def __init__(self, bus):
        self.bus = bus
        self.handle = None
        self._tx = bytearray()
        self._rx = bytearray()
        self._dead = False
        # like a real socket, it starts with the process-wide default time-out
        import socket as _real
        self._timeout = _real.getdefaulttimeout()
        self._rx_delay = 0.0      # virtual seconds until the buffered answer "arrives"

    def connect(self, addr):
        if self.bus.connect_fail > 0:
            self.bus.connect_fail -= 1
            self.bus.log("connect_fail", addr=addr)
            raise ConnectionRefusedError(111, "Connection refused")
        self.bus.handle_seq += 1
        self.handle = self.bus.handle_seq
        self.bus.log("open", h=self.handle, addr=addr)

    def settimeout(self, t):
        self._timeout = t

    def send(self, b):
        if self._dead:
            raise BrokenPipeError(32, "Broken pipe")
        self._tx += bytes(b)
        while len(self._tx) >= 4:
            n = struct.unpack(">I", self._tx[:4])[0]
            if len(self._tx) < 4 + n:
                break
            apdu = bytes(self._tx[4:4 + n])
            del self._tx[:4 + n]
            idx, fault = self.bus.begin()
            if fault is None and len(apdu) > 1:
                fault = self.bus.cmd_fault(apdu[1], apdu[2] if len(apdu) > 2 else None)
            if fault is not None and getattr(self.bus, "tcp_faults_as_hid", False) and \
                    fault.kind in ("timeout", "read_error", "write_error"):
                # a transport that reports its failures the way the HID one does (the
                # exception shapes HSM2Dongle._send_command classifies): the request is
                # lost, or - processed=True - carried out with the answer lost
                from ledgerblue.commException import CommException
                if fault.processed and fault.kind != "write_error":
                    self.bus.process(apdu, idx, Fault(fault.kind, processed=True), self.handle)
                else:
                    self.bus.log("apdu", i=idx, h=self.handle, apdu=bytes(apdu), data=None,
                                 sw=None, fault=repr(fault))
                if fault.kind == "timeout":
                    raise CommException("Timeout", 0x6F00)
                if fault.kind == "read_error":
                    raise OSError("read error")
                raise BaseException("Error while writing")
            if fault is not None and fault.kind == "write_error":
                self.bus.log("apdu", i=idx, h=self.handle, apdu=None, data=None,
                             sw=None, fault=repr(fault))
                self._dead = True
                raise BrokenPipeError(32, "Broken pipe")
            res = self.bus.process(apdu, idx, fault, self.handle)
            if res is None:
                # peer closed: recv returns b"" from now on
                self._dead = True
            else:
                d, sw = res
                if not self._rx:
                    # an exchange hook may make this answer late (virtual time)
                    self._rx_delay = float(getattr(self.bus, "next_answer_delay", 0) or 0)
                    self.bus.next_answer_delay = 0
                    slow = getattr(self.bus, "slow_cmds", None)
                    if slow and len(apdu) > 1 and (apdu[1] in slow or "*" in slow):
                        # a slow device: every answer to that command takes that long
                        self._rx_delay = float(slow.get(apdu[1], slow.get("*")))
                self._rx += struct.pack(">I", len(d)) + bytes(d) + struct.pack(">H", sw)
        return len(b)

    sendall = send

    def recv(self, n):
        if self._rx_delay > 0:
            # a byte stream: an answer that arrives after the socket's time-out is still
            # delivered - to whoever reads next
            if self._timeout is not None and self._rx_delay > self._timeout:
                self._rx_delay -= self._timeout
                self.bus.log("recv_timeout", h=self.handle)
                raise TimeoutError("timed out")
            self._rx_delay = 0.0
        r = bytes(self._rx[:n])
        del self._rx[:n]
        return r

    def shutdown(self, how):
        pass

    def close(self):
        self.bus.log("close", h=self.handle)


class _FakeSocketModule:
    AF_INET = 2
    SOCK_STREAM = 1
    SHUT_RD = 0
    SHUT_WR = 1
    SHUT_RDWR = 2
    error = OSError

    def __init__(self, bus):
        self._bus = bus

    def socket(self, *a, **kw):
        return _FakeSocket(self._bus)


class TcpPatch:
    def __init__(self, bus):
        self.bus = bus

    def __enter__(self):
        import ledgerblue.commTCP as ct
        self._saved = ct.socket
        ct.socket = _FakeSocketModule(self.bus)
        self._close = ct.DongleServer.close
        bus, orig = self.bus, self._close

        def close(dongle):      # see HidPatch
            orig(dongle)
            f = getattr(bus, "close_fault", None)
            if f is not None and not isinstance(f, BaseException):
                f = f()         # a callable deciding, at that moment, whether this close fails
            if f is not None:
                bus.log("close-raised")
                raise f
        ct.DongleServer.close = close
        return self

    def __exit__(self, *a):
        import ledgerblue.commTCP as ct
        ct.socket = self._saved
        ct.DongleServer.close = self._close
        return False
