# Simulated powHSM device (DESIGN.md 2.3).  Written from the firmware sources
# (firmware/src/powhsm/src/{hsm,auth*,bc_advance,bc_ancestor,bc_state,heartbeat,
# attestation}.c, firmware/src/ledger/ui/src/*.c, firmware/src/sgx/src/trusted/
# system.c).  It follows the *framing* of each dialogue and records what it
# reassembles; it deliberately does not validate content.

import struct
import random

CLA = 0x80

MODE_BOOTLOADER = 0x02
MODE_SIGNER = 0x03
MODE_UI_HEARTBEAT = 0x04

# firmware pathAuth.c
AUTH_PATHS = ["m/44'/0'/0'/0/0", "m/44'/1'/0'/0/0"]
NOAUTH_PATHS = ["m/44'/137'/0'/0/0", "m/44'/137'/1'/0/0",
                "m/44'/1'/1'/0/0", "m/44'/1'/2'/0/0"]
ALL_PATHS = AUTH_PATHS + NOAUTH_PATHS

MAX_CHUNK = 80


def path_to_binary(path):
    parts = path[2:].split("/")
    out = bytes([len(parts)])
    for p in parts:
        if p.endswith("'"):
            v = int(p[:-1]) + 0x80000000
        else:
            v = int(p)
        out += struct.pack("<I", v)
    return out


AUTH_BIN = {path_to_binary(p): p for p in AUTH_PATHS}
NOAUTH_BIN = {path_to_binary(p): p for p in NOAUTH_PATHS}


class SW(Exception):
    def __init__(self, sw, data=b""):
        self.sw = sw
        self.data = data


def rlp_item_total_length(prefix):
    """total encoded length of the RLP item whose first bytes are `prefix`,
    or None when more bytes are needed"""
    if len(prefix) == 0:
        return None
    b = prefix[0]
    if b < 0x80:
        return 1
    if b <= 0xb7:
        return 1 + (b - 0x80)
    if b <= 0xbf:
        n = b - 0xb7
        if len(prefix) < 1 + n:
            return None
        return 1 + n + int.from_bytes(prefix[1:1 + n], "big")
    if b <= 0xf7:
        return 1 + (b - 0xc0)
    n = b - 0xf7
    if len(prefix) < 1 + n:
        return None
    return 1 + n + int.from_bytes(prefix[1:1 + n], "big")


class ChunkPolicy:
    """How many bytes the device asks for next.
    kind: 'fw' (min(remaining, cap)), 'const' (k, capped to remaining),
    'random' (1..255, capped to remaining), 'over' (asks k regardless of what
    remains), 'random_over' (1..255 regardless)."""

    def __init__(self, kind="fw", k=MAX_CHUNK, rng=None):
        self.kind = kind
        self.k = k
        self.rng = rng or random.Random(0)

    def next(self, remaining):
        """remaining: bytes still expected by framing, None if unknown"""
        if self.kind == "fw":
            want = self.k
        elif self.kind == "const":
            want = self.k
        elif self.kind == "random":
            want = self.rng.randint(1, 255)
        elif self.kind == "over":
            return self.k
        elif self.kind == "random_over":
            return self.rng.randint(1, 255)
        else:
            raise ValueError(self.kind)
        if remaining is not None and remaining > 0:
            want = min(want, remaining)
        return max(1, min(255, want))

    def describe(self):
        return "%s:%d" % (self.kind, self.k)


class _Chunks(list):
    nbytes = 0

    def append(self, c):
        self.nbytes += len(c)
        list.append(self, c)


class StreamRx:
    """One data stream the device reassembles chunk by chunk."""

    def __init__(self, name):
        self.name = name
        self.chunks = _Chunks()
        self.requested = []
        self.total = None   # framing-determined total length, once known
        self._joined = (0, b"")

    @property
    def data(self):
        # (joined once per growth: megabyte streams arrive in tens of thousands of chunks)
        if self._joined[0] != len(self.chunks):
            self._joined = (len(self.chunks), b"".join(self.chunks))
        return self._joined[1]

    def received(self):
        return self.chunks.nbytes

    def remaining(self):
        if self.total is None:
            return None
        return self.total - self.received()


class SimDevice:
    def __init__(self, **cfg):
        c = dict(
            platform="ledger",          # ledger | sgx | tcp
            mode=MODE_SIGNER,
            onboarded=True,
            onboard_sw=None,            # status word answered to IS_ONBOARD instead
            mode_sw=None,               # status word answered to GET_MODE instead
            ui_version=(5, 4, 1),
            signer_version=(5, 4, 1),
            retries=3,
            pin=b"1234567a",
            echo_ok=True,
            unlock_result=None,         # None: compare PINs; else forced bool
            newpin_sw=None,             # status word answered to CHANGE_PIN
            newpin_result=None,         # SGX: forced result byte
            pin_policy=True,            # device enforces the PIN policy
            post_exit_mode=None,        # mode after EXIT from bootloader (def. signer)
            exit_behaviour="read_error",   # what the link does on EXIT: read_error|ok|timeout
            hb_exit_mode=None,          # mode after EXIT from signer (def. ui heartbeat)
            hb_back_mode=None,          # mode after EXIT from ui heartbeat (def. signer)
            locked=False,               # sgx: locked => reports bootloader
            seed=None,
        )
        c.update(cfg)
        self.cfg = c
        self.platform = c["platform"]
        self.mode = c["mode"]
        self.onboarded = c["onboarded"]
        self.pin = c["pin"]
        self.retries = c["retries"]
        self.unlocked = (self.mode != MODE_BOOTLOADER)
        self.rng = c.get("rng") or random.Random(12345)
        self.pinbuf = bytearray(10)
        self.seedbuf = {}
        self.pending_link = None      # set by exit handlers: link drops after this APDU
        self.log = []                 # semantic events (strings / tuples)
        # signer data
        self.pubkeys = c.get("pubkeys") or {}
        self.state = c.get("state") or {}
        self.params = c.get("params")
        self.hb = c.get("hb") or {}
        self.uihb = c.get("uihb") or {}
        # policies
        self.chunk = c.get("chunk") or ChunkPolicy()
        self.sign_policy = c.get("sign_policy") or {}
        self.adv_policy = c.get("adv_policy") or {}
        self.signatures = c.get("signatures")   # iterator of DER sigs
        self.reset_sign()
        self.reset_adv()
        self.sign_records = []
        self.adv_records = []
        self.extra = c.get("extra") or {}      # extension handlers: cmd -> fn(dev, apdu)

    # ------------------------------------------------------------ utils --
    def note_fault(self, apdu, fault):
        # an injected failure resets the dialogue state like a firmware THROW
        self.reset_sign()
        self.reset_adv()

    def ev(self, *a):
        self.log.append(a)

    def version(self):
        return self.cfg["ui_version"] if self.mode in (MODE_BOOTLOADER, MODE_UI_HEARTBEAT) \
            else self.cfg["signer_version"]

    def reported_mode(self):
        if self.platform == "sgx":
            return MODE_BOOTLOADER if not self.unlocked else MODE_SIGNER
        return self.mode

    # --------------------------------------------------------- dispatch --
    def exchange(self, apdu):
        """returns (data, sw)"""
        try:
            if len(apdu) < 2:
                raise SW(0x6982)
            if apdu[0] != CLA:
                ext = self.extra.get(("cla", apdu[0]))
                if ext is not None:
                    return bytes(ext(self, apdu)), 0x9000
                raise SW(0x6E11)
            cmd = apdu[1]
            ext = self.extra.get(cmd)
            if ext is not None:
                r = ext(self, apdu)
                if r is not None:
                    return bytes(r), 0x9000
            data = self.dispatch(cmd, bytes(apdu))
            return bytes(data), 0x9000
        except SW as e:
            self.reset_sign()
            self.reset_adv()
            return bytes(e.data), e.sw

    def dispatch(self, cmd, apdu):
        m = self.reported_mode()
        if cmd == 0x43:
            if self.cfg["mode_sw"] is not None:
                raise SW(self.cfg["mode_sw"])
            return bytes([CLA, m & 0xff])
        if cmd == 0x06:
            if self.cfg["onboard_sw"] is not None:
                raise SW(self.cfg["onboard_sw"])
            if self.platform == "sgx":
                v = self.cfg["signer_version"] if self.unlocked else self.cfg["ui_version"]
            else:
                v = self.version()
            return bytes([CLA, 1 if self.onboarded else 0, v[0], v[1], v[2]])
        if self.platform == "sgx":
            r = self.sgx_system(cmd, apdu)
            if r is not None:
                return r
            if not self.unlocked:
                raise SW(0x6BF1)
            return self.signer(cmd, apdu)
        if m == MODE_BOOTLOADER:
            return self.ui(cmd, apdu)
        if m == MODE_SIGNER:
            return self.signer(cmd, apdu)
        if m == MODE_UI_HEARTBEAT:
            return self.ui_heartbeat_mode(cmd, apdu)
        raise SW(0x6D00)

    # --------------------------------------------------------------- UI --
    def ui(self, cmd, apdu):
        if cmd == 0x02:      # echo
            return echo_answer(apdu, self.cfg["echo_ok"])
        if cmd == 0x41:      # pin buffer
            if len(apdu) != 4:
                raise SW(0x6A01)
            idx = apdu[2]
            if idx <= 8:
                self.pinbuf[idx] = apdu[3]
                self.pinbuf[idx + 1] = 0
            self.ev("pin_byte", idx, apdu[3])
            return apdu[:3]
        if cmd == 0x45:
            return bytes([CLA, cmd, self.retries & 0xff]) + self.cfg.get("retries_tail", b"")
        if cmd == 0xFE:      # unlock
            candidate = bytes(self.pinbuf).split(b"\x00")[0]
            self.ev("unlock", candidate)
            forced = self.cfg["unlock_result"]
            ok = (candidate == self.pin) if forced is None else forced
            if ok:
                self.unlocked = True
                self.retries = 3
            else:
                self.retries = max(0, self.retries - 1)
            return bytes([CLA, cmd, 1 if ok else 0])
        if cmd == 0x08:      # new pin (length-prefixed buffer)
            if self.cfg["newpin_sw"] is not None:
                self.ev("newpin_refused", self.cfg["newpin_sw"])
                raise SW(self.cfg["newpin_sw"])
            buf = bytes(self.pinbuf)
            candidate = buf[1:].split(b"\x00")[0]
            if self.cfg["pin_policy"] and not pin_policy_ok(candidate):
                self.ev("newpin_refused", 0x69A0)
                raise SW(0x69A0)
            self.pin = candidate
            self.ev("newpin", candidate)
            self.pinbuf = bytearray(10)
            return bytes([CLA, 2, 1])
        if cmd == 0x44:      # seed byte
            if self.onboarded:
                raise SW(0x69A1)
            if len(apdu) != 4:
                raise SW(0x6A01)
            self.seedbuf[apdu[2]] = apdu[3]
            self.ev("seed_byte", apdu[2], apdu[3])
            return apdu[:3]
        if cmd == 0x07:      # wipe + onboard
            if self.onboarded:
                raise SW(0x69A1)
            buf = bytes(self.pinbuf)
            candidate = buf[1:].split(b"\x00")[0]
            seed = bytes(self.seedbuf.get(i, 0) for i in range(32))
            self.ev("wipe", seed, candidate)
            self.onboarded = True
            self.pin = candidate
            self.cfg["seed"] = seed
            self.pinbuf = bytearray(10)
            return bytes([CLA, 2, 0])
        if cmd in (0xFF, 0xFA):
            self.ev("exit_bootloader", cmd)
            nm = self.cfg["post_exit_mode"]
            if cmd == 0xFF:
                self.mode = MODE_SIGNER if nm is None else nm
            else:
                self.mode = MODE_BOOTLOADER if nm is None else nm
            self.unlocked = True if self.mode == MODE_SIGNER else self.unlocked
            self._drop_link()
            return bytes([CLA, cmd])
        raise SW(0x6D00)

    def ui_heartbeat_mode(self, cmd, apdu):
        if cmd == 0x60:
            return self.heartbeat(apdu, self.uihb, 32)
        if cmd == 0xFF:
            self.ev("exit_uihb")
            nm = self.cfg["hb_back_mode"]
            self.mode = MODE_SIGNER if nm is None else nm
            self._drop_link()
            return bytes([CLA, cmd])
        raise SW(0x6D00)

    def _drop_link(self):
        b = self.cfg["exit_behaviour"]
        if self.platform == "ledger" and b in ("read_error", "timeout"):
            self.pending_link = b

    # -------------------------------------------------------------- SGX --
    def sgx_system(self, cmd, apdu):
        if cmd == 0xA4:
            return echo_answer(apdu, self.cfg["echo_ok"])
        if cmd == 0xA0:
            if self.onboarded:
                raise SW(0x6BEF)
            if len(apdu) - 3 < 33:
                raise SW(0x6A87)
            seed = apdu[3:35]
            pw = apdu[35:]
            self.ev("sgx_onboard", seed, pw)
            self.onboarded = True
            self.pin = pw
            self.cfg["seed"] = seed
            return bytes([CLA, cmd, 1])
        if cmd in (0xA2, 0xA3, 0xA5) and not self.onboarded:
            raise SW(0x6BEE)
        if cmd == 0xA2:
            return bytes([CLA, cmd, self.retries & 0xff]) + self.cfg.get("retries_tail", b"")
        if cmd == 0xA3:
            candidate = apdu[3:]
            self.ev("sgx_unlock", candidate)
            if self.unlocked:
                return bytes([CLA, cmd, 1])
            forced = self.cfg["unlock_result"]
            ok = (candidate == self.pin) if forced is None else forced
            if ok:
                self.unlocked = True
                self.retries = 3
            else:
                self.retries = max(0, self.retries - 1)
            return bytes([CLA, cmd, 1 if ok else 0])
        if cmd == 0xA5:
            if not self.unlocked:
                raise SW(0x6BF1)
            if self.cfg["newpin_sw"] is not None:
                self.ev("newpin_refused", self.cfg["newpin_sw"])
                raise SW(self.cfg["newpin_sw"])
            forced = self.cfg["newpin_result"]
            if forced is not None and forced != 1:
                self.ev("newpin_refused", forced)
                return bytes([CLA, cmd, forced])
            candidate = apdu[3:]
            if len(candidate) < 1:
                raise SW(0x6A87)
            if self.cfg["pin_policy"] and not pin_policy_ok(candidate):
                self.ev("newpin_refused", 0x6BF2)
                raise SW(0x6BF2)
            self.pin = candidate
            self.ev("newpin", candidate)
            return bytes([CLA, cmd, 1])
        return None

    # ----------------------------------------------------------- signer --
    def signer(self, cmd, apdu):
        if cmd != 0x02:
            self.reset_sign()
        if cmd not in (0x10, 0x30, 0x20):
            self.reset_adv()
        if cmd == 0x04:
            if len(apdu) != 3 + 20:
                raise SW(0x6A87)
            pb = apdu[2:]
            self.ev("getpubkey", pb)
            if pb not in AUTH_BIN and pb not in NOAUTH_BIN:
                if not self.cfg.get("any_path"):
                    raise SW(0x6A8F)
            pk = self.pubkeys.get(pb)
            if pk is None:
                raise SW(0x6A99)
            return pk
        if cmd == 0x02:
            return self.sign(apdu)
        if cmd == 0x20:
            return self.get_state(apdu)
        if cmd == 0x21:
            if len(apdu) < 3 or apdu[2] != 0x01:
                raise SW(0x6B87)
            self.ev("reset_advance")
            return bytes([CLA, cmd, 0x02])
        if cmd == 0x10:
            return self.advance(apdu, True)
        if cmd == 0x30:
            return self.advance(apdu, False)
        if cmd == 0x11:
            p = self.params
            if p is None:
                p = bytes(32) + (1).to_bytes(36, "big") + bytes([3])
            return bytes([CLA, cmd, 0]) + p
        if cmd == 0x60:
            if self.platform == "sgx":
                raise SW(0x6D00)
            return self.heartbeat(apdu, self.hb, 16)
        if cmd == 0xFF:
            self.ev("exit_signer")
            if self.platform == "ledger":
                nm = self.cfg["hb_exit_mode"]
                self.mode = MODE_UI_HEARTBEAT if nm is None else nm
                self._drop_link()
            return bytes([CLA, cmd])
        raise SW(0x6D00)

    # heartbeat (signer and UI share the dialogue)
    def heartbeat(self, apdu, hb, udsize):
        if len(apdu) < 3:
            raise SW(0x6B10)
        op = apdu[2]
        if op == 0x01:
            if len(apdu) - 3 != udsize:
                raise SW(0x6B10)
            hb["ud"] = apdu[3:]
            hb["ready"] = True
            self.ev("hb_ud", apdu[3:])
            return bytes([CLA, 0x60, op])
        if op in (0x02, 0x03) and not hb.get("ready"):
            raise SW(0x6B10)
        if op == 0x02:
            sig = hb.get("signature", b"")
            if callable(sig):
                sig = sig()     # a fresh (well-formed) signature per heartbeat
            return bytes([CLA, 0x60, op]) + sig
        if op == 0x03:
            msg = hb.get("message", b"")
            if callable(msg):
                msg = msg(hb["ud"])
            return bytes([CLA, 0x60, op]) + msg
        if op == 0x04:
            return bytes([CLA, 0x60, op]) + hb.get("tweak", b"")
        if op == 0x05:
            return bytes([CLA, 0x60, op]) + hb.get("pubkey", b"")
        raise SW(0x6B10)

    # blockchain state
    def get_state(self, apdu):
        if len(apdu) < 3:
            raise SW(0x6B87)
        op = apdu[2]
        st = self.state
        if op == 0x01:
            if len(apdu) < 4:
                raise SW(0x6B87)
            hid = apdu[3]
            h = st.get("hashes", {}).get(hid)
            if h is None:
                raise SW(0x6B87)
            return bytes([CLA, 0x20, op, hid]) + h
        if op == 0x02:
            d = st.get("difficulty", 0)
            raw = d.to_bytes(36, "big").lstrip(b"\x00") if not isinstance(d, bytes) else d
            return bytes([CLA, 0x20, op]) + raw
        if op == 0x03:
            f = st.get("flags", (0, 0, 0))
            return bytes([CLA, 0x20, op]) + bytes(f)
        raise SW(0x6B87)

    # ------------------------------------------------------------- sign --
    def reset_sign(self):
        self.sg = None

    def next_signature(self):
        if self.signatures is not None:
            return next(self.signatures)
        return bytes.fromhex("3006020101020102")

    def sign(self, apdu):
        if len(apdu) < 3:
            raise SW(0x6A87)
        op = apdu[2] & 0xf
        data = apdu[3:]
        pol = self.sign_policy
        if op == 0x01:
            self.reset_sign()
            rec = {"path": None, "tail": None, "kind": None, "streams": {},
                   "order": [], "success": False, "signature": None,
                   "late_extra": 0, "stopped_early": None}
            self.sign_records.append(rec)
            if len(data) not in (21 + 4, 21 + 32):
                raise SW(0x6A87)
            pb = data[:21]
            rec["path"] = pb
            rec["tail"] = data[21:]
            requires_auth = pb in AUTH_BIN
            known = requires_auth or pb in NOAUTH_BIN
            if pol.get("any_path"):
                known = True
                requires_auth = (len(data) == 25)
            if not known:
                raise SW(0x6A8F)
            if requires_auth:
                if len(data) != 25:
                    raise SW(0x6A90)
                rec["kind"] = "auth"
                self.sg = {"rec": rec, "part": 0x02, "stream": self._new_stream(rec, "tx"),
                           "late": 0}
                req = self.chunk.next(None)
                self.sg["req"] = req
                self.sg["stream"].requested.append(req)
                return bytes([CLA, 0x02, 0x02, req])
            else:
                if len(data) != 53:
                    raise SW(0x6A91)
                rec["kind"] = "unauth"
                return self._sign_success(rec)
        if self.sg is None:
            raise SW(0x6A89)
        sg = self.sg
        rec = sg["rec"]
        if op != sg["part"]:
            raise SW(0x6A89)
        st = sg["stream"]
        st.chunks.append(bytes(data))
        # firmware checks it got what it asked for (except in the proof part);
        # the model only enforces "not more than asked"
        if len(data) > sg["req"]:
            raise SW(0x6A87)
        self._update_total(st)
        rem = st.remaining()
        if len(data) < sg["req"] and (rem is None or rem > 0):
            # firmware: APDU_DATA_SIZE(rx) != expected_bytes while more is due
            raise SW(0x6A87)
        # hostile stop rules
        early = pol.get("early")     # (part name, after n bytes)
        if early and early[0] == st.name and st.received() >= early[1] and \
                (rem is None or rem > 0):
            rec["stopped_early"] = (st.name, st.received())
            return self._sign_next_part(sg, rec)
        tail = pol.get("early_tail")   # (part name, k): stop when 0 < remaining <= k
        if tail and tail[0] == st.name and rem is not None and 0 < rem <= tail[1]:
            rec["stopped_early"] = (st.name, st.received())
            return self._sign_next_part(sg, rec)
        if rem is not None and rem <= 0:
            late = pol.get("late", {}).get(st.name, 0)
            if sg["late"] < late:
                sg["late"] += 1
                rec["late_extra"] += 1
                req = self.chunk.next(None)
                sg["req"] = req
                st.requested.append(req)
                return bytes([CLA, 0x02, sg["part"], req])
            return self._sign_next_part(sg, rec)
        req = self.chunk.next(rem)
        sg["req"] = req
        st.requested.append(req)
        return bytes([CLA, 0x02, sg["part"], req])

    def _new_stream(self, rec, name):
        st = StreamRx(name)
        rec["streams"][name] = st
        rec["order"].append(name)
        return st

    def _update_total(self, st):
        if st.total is not None:
            return
        d = st.data
        if st.name == "tx":
            if len(d) >= 7:
                plen = int.from_bytes(d[0:4], "little")
                edl = int.from_bytes(d[5:7], "little")
                st.total = plen + edl
        elif st.name == "receipt":
            st.total = rlp_item_total_length(d)
        elif st.name == "proof":
            if len(d) >= 1:
                n = d[0]
                off = 1
                for _ in range(n):
                    if off >= len(d):
                        return
                    off += 1 + d[off]
                st.total = off

    def _sign_next_part(self, sg, rec):
        nxt = {0x02: (0x04, "receipt"), 0x04: (0x08, "proof"), 0x08: (None, None)}[sg["part"]]
        if nxt[0] is None:
            self.sg = None
            return self._sign_success(rec)
        sg["part"] = nxt[0]
        sg["stream"] = self._new_stream(rec, nxt[1])
        sg["late"] = 0
        req = self.chunk.next(None)
        sg["req"] = req
        sg["stream"].requested.append(req)
        return bytes([CLA, 0x02, nxt[0], req])

    def _sign_success(self, rec):
        sig = self.next_signature()
        rec["success"] = True
        rec["signature"] = sig
        return bytes([CLA, 0x02, 0x81]) + sig

    # ---------------------------------------------- advance / ancestor --
    def reset_adv(self):
        self.ad = None

    def advance(self, apdu, is_advance):
        cmd = 0x10 if is_advance else 0x30
        OP_INIT, OP_META, OP_CHUNK = 0x02, 0x03, 0x04
        OP_PARTIAL = 0x05 if is_advance else None
        OP_SUCCESS = 0x06 if is_advance else 0x05
        OP_BLIST, OP_BMETA, OP_BCHUNK = 0x07, 0x08, 0x09
        pol = self.adv_policy
        if len(apdu) < 3:
            raise SW(0x6B87)
        op = apdu[2]
        data = apdu[3:]
        if op == OP_INIT:
            if len(data) != 4:
                raise SW(0x6B87)
            n = int.from_bytes(data, "big")
            rec = {"cmd": cmd, "count": n, "blocks": [], "result": None}
            self.adv_records.append(rec)
            if n == 0:
                raise SW(0x6B87)
            self.ad = {"rec": rec, "expect": OP_META, "cur": None, "bro": None,
                       "nblocks": 0, "cmd": cmd}
            return bytes([CLA, cmd, OP_META])
        ad = self.ad
        if ad is None or ad["cmd"] != cmd or op != ad["expect"]:
            raise SW(0x6B87)
        rec = ad["rec"]
        meta_len = 2 + 32 if is_advance else 2
        if op in (OP_META, OP_BMETA) and (op == OP_META or is_advance):
            if len(data) != meta_len:
                raise SW(0x6B87)
            hdr = {"meta": bytes(data), "stream": StreamRx("header"), "late": 0}
            if op == OP_META:
                blk = {"header": hdr, "brothers_asked": False, "brother_count": None,
                       "brothers": []}
                rec["blocks"].append(blk)
                ad["cur"] = blk
                ad["hdr"] = hdr
                ad["expect"] = OP_CHUNK
            else:
                ad["cur"]["brothers"].append(hdr)
                ad["hdr"] = hdr
                ad["expect"] = OP_BCHUNK
            req = self.chunk.next(None)
            ad["req"] = req
            hdr["stream"].requested.append(req)
            return bytes([CLA, cmd, ad["expect"], req])
        if op == OP_BLIST and is_advance:
            if len(data) != 1:
                raise SW(0x6B87)
            blk = ad["cur"]
            blk["brother_count"] = data[0]
            if data[0] == 0:
                return self._end_of_block(ad, rec, is_advance)
            if data[0] > 10 and not pol.get("any_brother_count"):
                raise SW(0x6b87 + 23)   # BROTHERS_TOO_MANY
            ad["bro_left"] = data[0]
            ad["expect"] = OP_BMETA
            return bytes([CLA, cmd, OP_BMETA])
        if op in (OP_CHUNK, OP_BCHUNK) and (op == OP_CHUNK or is_advance):
            hdr = ad["hdr"]
            st = hdr["stream"]
            if len(data) > ad["req"]:
                raise SW(0x6B87)
            st.chunks.append(bytes(data))
            if st.total is None:
                st.total = rlp_item_total_length(st.data)
            rem = st.remaining()
            if len(data) < ad["req"] and (rem is None or rem > 0):
                raise SW(0x6B87)
            is_block = (op == OP_CHUNK)
            stop_at = pol.get("header_stop")   # {block index: bytes} early header stop
            early = False
            if is_block and stop_at and (len(rec["blocks"]) - 1) in stop_at:
                if st.received() >= stop_at[len(rec["blocks"]) - 1] and \
                        (rem is None or rem > 0):
                    early = True
                    hdr["stopped_early"] = st.received()
            if early or (rem is not None and rem <= 0):
                late = pol.get("late", 0)
                if not early and hdr["late"] < late:
                    hdr["late"] += 1
                    req = self.chunk.next(None)
                    ad["req"] = req
                    st.requested.append(req)
                    return bytes([CLA, cmd, op, req])
                if is_block:
                    rej = (pol.get("reject_if_count") or {}).get(rec["count"])  # (k, sw)
                    if rej and len(rec["blocks"]) == rej[0]:
                        # the device refuses the k-th block once it has all of it (e.g.
                        # chaining mismatch); the whole operation is abandoned
                        self.ad = None
                        rec["result"] = "rejected"
                        raise SW(rej[1])
                    ask = pol.get("ask_brothers", True)
                    if callable(ask):
                        ask = ask(len(rec["blocks"]) - 1)
                    if is_advance and ask:
                        ad["cur"]["brothers_asked"] = True
                        ad["expect"] = OP_BLIST
                        return bytes([CLA, cmd, OP_BLIST])
                    return self._end_of_block(ad, rec, is_advance)
                else:
                    ad["bro_left"] -= 1
                    if ad["bro_left"] == 0:
                        return self._end_of_block(ad, rec, is_advance)
                    ad["expect"] = OP_BMETA
                    return bytes([CLA, cmd, OP_BMETA])
            req = self.chunk.next(rem)
            ad["req"] = req
            st.requested.append(req)
            return bytes([CLA, cmd, op, req])
        raise SW(0x6B87)

    def _end_of_block(self, ad, rec, is_advance):
        cmd = ad["cmd"]
        pol = self.adv_policy
        ad["nblocks"] += 1
        stop = pol.get("stop_after")    # (k blocks, 'partial'|'total')
        if stop and ad["nblocks"] == stop[0]:
            self.ad = None
            if stop[1] == "partial" and is_advance:
                rec["result"] = "partial"
                return bytes([CLA, cmd, 0x05])
            rec["result"] = "total"
            return bytes([CLA, cmd, 0x06 if is_advance else 0x05])
        if ad["nblocks"] == rec["count"]:
            self.ad = None
            fin = pol.get("final", "total")
            if fin == "partial" and is_advance:
                rec["result"] = "partial"
                return bytes([CLA, cmd, 0x05])
            rec["result"] = "total"
            return bytes([CLA, cmd, 0x06 if is_advance else 0x05])
        ad["expect"] = 0x03
        return bytes([CLA, cmd, 0x03])


ECHO_KINDS = ["last", "first", "cla", "cmd", "header-zero", "truncated", "extended", "empty",
              "error", "extended-sw", "padded", "twice"]


def echo_answer(apdu, kind):
    """True: the correct echo; False or 'last': last byte differs; other kinds of wrong
    echo: first payload byte, class byte, command byte, both header bytes zeroed, one byte
    short, one byte long, header only, error status"""
    if kind is True:
        return apdu
    if kind is False or kind == "last":
        return apdu[:-1] + bytes([apdu[-1] ^ 1])
    if kind == "first":
        return apdu[:2] + bytes([apdu[2] ^ 0x20]) + apdu[3:]
    if kind == "cla":
        return bytes([apdu[0] ^ 0x80]) + apdu[1:]
    if kind == "cmd":
        return apdu[:1] + bytes([apdu[1] ^ 1]) + apdu[2:]
    if kind == "header-zero":
        return b"\x00\x00" + apdu[2:]
    if kind == "truncated":
        return apdu[:-1]
    if kind == "extended":
        return apdu + b"\x00"
    if kind == "empty":
        return apdu[:2]
    if kind == "error":
        raise SW(0x6A87)
    if kind == "extended-sw":
        return apdu + b"\x90\x00"      # the right bytes, then what looks like a status word
    if kind == "padded":
        return apdu + b"\x00" * 80      # the right bytes at the front of a whole buffer
    if kind == "twice":
        return apdu + apdu[2:]
    raise ValueError(kind)


def pin_policy_ok(pin):
    if len(pin) != 8:
        return False
    alpha = False
    for c in pin:
        ch = chr(c)
        if not (ch.isascii() and ch.isalnum()):
            return False
        if ch.isalpha():
            alpha = True
    return alpha
