# Simulated *genuine* devices for the end-to-end attestation and admin properties
# (C15, C17, C18): a Ledger with issuer-certified device key, endorsement (scheme
# two) attestation key, UI and signer attestation dialogues, onboarding and signer
# authorization; and an SGX powHSM returning a quote envelope.
import hashlib

from .device import SimDevice, SW, MODE_BOOTLOADER, MODE_SIGNER, path_to_binary, ALL_PATHS
from ..gen import certv1 as g1, certv2 as g2

CLA = 0x80


def paged(data, page, size):
    """-> (more flag, chunk) for page-wise retrieval"""
    chunk = data[page * size:(page + 1) * size]
    more = 1 if (page + 1) * size < len(data) else 0
    return more, chunk


class GenuineLedger:
    def __init__(self, rng, onboarded=True, mode=MODE_BOOTLOADER, pin=b"abcd1234",
                 signer_framing="current", page_size=None, alter=None, **cfg):
        self.rng = rng
        self.root = g1.new_key(rng)           # the issuer (root of trust)
        self.device_key = g1.new_key(rng)
        self.att_key = None                   # set up by the endorsement dialogue
        self.cert_header = rng.randbytes(rng.choice([0, 4, 8, 20]))
        if self.cert_header and rng.random() < 0.3:
            # an opaque header that begins like the role byte put in front of it (0x02), like
            # the uncompressed-key marker that follows it (0x04), or with zeros
            self.cert_header = rng.choice([b"\x02", b"\x02\x02", b"\x04", b"\x00"]) + \
                self.cert_header[1:]
        self.ui_hash = rng.randbytes(32)
        self.signer_hash = rng.randbytes(32)
        self.auth_signer_hash = rng.randbytes(32)
        self.auth_signer_iter = rng.choice([0, 1, 300, 65535, 32767, 32768, rng.randrange(65536)])
        self.wallet = {p: g1.new_key(rng) for p in ALL_PATHS}
        self.best_block = rng.randbytes(32)
        self.last_tx = rng.randbytes(8)
        # (today's firmware reports 0; the field is an 8-byte big-endian number all the same)
        self.timestamp = rng.choice([bytes(8), bytes(8), rng.randbytes(8),
                                     (1759449600).to_bytes(8, "big"),
                                     (2**32 + rng.randrange(1000)).to_bytes(8, "big")])
        self.signer_framing = signer_framing
        self.page_size = page_size or rng.choice([30, 40, 60, 80, 255])
        self.alter = alter or {}              # single-point alterations of answers
        self._alt_cache = {}
        self.ui_ud = None
        self.signer_ud = None
        self.sigauth = None
        self.dev = SimDevice(platform="ledger", mode=mode, onboarded=onboarded, pin=pin,
                             pubkeys={path_to_binary(p): g1.pub65(k)
                                      for p, k in self.wallet.items()}, **cfg)
        d = self.dev
        d.extra[("cla", 0xE0)] = self.admin
        d.extra[0x50] = self.attestation
        d.extra[0x51] = self.signer_authorization
        self.sigauth_threshold = None
        self.sigauth_log = []

    # -------------------------------------------------------------- helpers --
    def setup_attestation_key(self):
        if self.att_key is None:
            self.att_key = g1.new_key(self.rng)
        return self.att_key

    def endorse(self, app_hash, message):
        sk = g1.tweaked_key(self.setup_attestation_key(), app_hash)
        return g1.sign(sk, message, self.rng)

    def ui_message(self):
        btc = g1.pub33(self.wallet["m/44'/0'/0'/0/0"])
        return (b"HSM:UI:5.4" + self.ui_ud + btc + self.auth_signer_hash +
                self.auth_signer_iter.to_bytes(2, "big"))

    def keys_hash(self):
        h = hashlib.sha256()
        for p in sorted(self.wallet):
            h.update(g1.pub65(self.wallet[p]))
        return h.digest()

    def signer_message(self):
        if self.signer_framing == "legacy":
            return b"HSM:SIGNER:5.4" + self.keys_hash()
        return (b"POWHSM:5.4::" + b"led" + self.signer_ud + self.keys_hash() +
                self.best_block + self.last_tx + self.timestamp)

    def _alt(self, what, value):
        # a single-point alteration: applied once per datum, so that page-wise
        # retrieval sees one consistent altered value
        fn = self.alter.get(what)
        if not fn:
            return value
        key = (what, bytes(value))
        if key not in self._alt_cache:
            self._alt_cache[key] = fn(value)
        return self._alt_cache[key]

    # ----------------------------------------------------------- dialogues --
    def attestation(self, d, apdu):
        if len(apdu) < 3:
            raise SW(0x6A01)
        op = apdu[2]
        if d.mode == MODE_BOOTLOADER:
            if op == 0x04:
                return bytes([CLA, 0x50, op]) + self._alt("ui_app_hash", self.ui_hash)
            if op == 0x01:
                if len(apdu) - 3 != 32:
                    raise SW(0x6A01)
                if not d.onboarded:
                    raise SW(0x6A02)
                self.ui_ud = apdu[3:]
                return bytes([CLA, 0x50, op])
            if self.ui_ud is None:
                raise SW(0x6A01)
            if op == 0x02:
                msg = self._alt("ui_message", self.ui_message())
                more, chunk = paged(msg, apdu[3] if len(apdu) > 3 else 0, self.page_size)
                return bytes([CLA, 0x50, op, more]) + chunk
            if op == 0x03:
                sig = self.endorse(self.ui_hash, self.ui_message())
                return bytes([CLA, 0x50, op]) + self._alt("ui_signature", sig)
            raise SW(0x6A01)
        if d.mode == MODE_SIGNER:
            if op == 0x01:
                if len(apdu) - 3 != 32:
                    raise SW(0x6B00)
                self.signer_ud = apdu[3:]
                sig = self.endorse(self.signer_hash, self.signer_message())
                return bytes([CLA, 0x50, op]) + self._alt("signer_signature", sig)
            if self.signer_ud is None:
                raise SW(0x6B00)
            if op in (0x02, 0x04):
                msg = self._alt("signer_message" if op == 2 else "signer_envelope",
                                self.signer_message())
                if self.signer_framing == "legacy":
                    return bytes([CLA, 0x50, op]) + msg
                more, chunk = paged(msg, apdu[3] if len(apdu) > 3 else 0, self.page_size)
                return bytes([CLA, 0x50, op, more]) + chunk
            if op == 0x03:
                return bytes([CLA, 0x50, op]) + self._alt("signer_app_hash", self.signer_hash)
            raise SW(0x6B00)
        raise SW(0x6D00)

    def admin(self, d, apdu):
        """dashboard commands (CLA 0xE0) used by admin/dongle_admin.py"""
        cmd = apdu[1]
        if cmd == 0x04:     # identify
            return b""
        if cmd == 0x50:     # nonce
            return bytes(4) + self.rng.randbytes(8)
        if cmd == 0x51:     # send key
            return b""
        if cmd == 0x52:     # get key
            if apdu[2] == 0x00:
                pub = g1.pub65(self.device_key)
                signed = bytes([0x02]) + self.cert_header + pub
                sig = self._alt("device_signature", g1.sign(self.root, signed, self.rng))
                pub = self._alt("device_pubkey", pub)
                return (bytes([len(self.cert_header)]) + self.cert_header +
                        bytes([len(pub)]) + pub + bytes([len(sig)]) + sig)
            return bytes([65]) + g1.pub65(g1.new_key(self.rng)) + bytes([0])
        if cmd == 0xC0:     # set up endorsement key
            self.att_key = g1.new_key(self.rng)
            pub = g1.pub65(self.att_key)
            sig = g1.sign(self.device_key, bytes([0xFF]) + pub, self.rng)
            return self._alt("endorsement_pubkey", pub) + self._alt("endorsement_signature", sig)
        if cmd == 0xC2:
            self.dev.ev("endorsement_ack", bytes(apdu[5:]))
            return b""
        raise SW(0x6D00)

    def signer_authorization(self, d, apdu):
        if d.mode != MODE_BOOTLOADER or len(apdu) < 3:
            raise SW(0x6D00)
        op = apdu[2]
        if op == 0x01:
            if len(apdu) != 3 + 34:
                raise SW(0x6A01)
            self.sigauth = {"hash": apdu[3:35], "iteration": int.from_bytes(apdu[35:37], "big"),
                            "sigs": []}
            self.sigauth_log.append(("sigver", bytes(apdu[3:])))
            return bytes([CLA, 0x51, op])
        if op == 0x02:
            if self.sigauth is None:
                raise SW(0x6A01)
            self.sigauth["sigs"].append(bytes(apdu[3:]))
            self.sigauth_log.append(("sign", bytes(apdu[3:])))
            n = len(self.sigauth["sigs"])
            done = self.sigauth_threshold is not None and n >= self.sigauth_threshold
            return bytes([CLA, 0x51, op, 0x02 if done else 0x01])
        raise SW(0x6A01)


class GenuineSGX:
    """SGX powHSM: unlock with password, then the quote envelope dialogue"""

    def __init__(self, rng, pin=b"abcd1234", depth=2, auth_len=None, page_size=None,
                 alter=None, onboarded=True, include_root=True, **cfg):
        self.rng = rng
        self.wallet = {p: g1.new_key(rng) for p in ALL_PATHS}
        self.best_block = rng.randbytes(32)
        self.last_tx = rng.randbytes(8)
        # (today's firmware reports 0; the field is an 8-byte big-endian number all the same)
        self.timestamp = rng.choice([bytes(8), bytes(8), rng.randbytes(8),
                                     (1759449600).to_bytes(8, "big"),
                                     (2**32 + rng.randrange(1000)).to_bytes(8, "big")])
        self.depth = depth
        self.auth_len = auth_len
        self.page_size = page_size or rng.choice([79, 79, 100, 200, 255])
        self.alter = alter or {}
        self._alt_cache = {}
        self.include_root = include_root
        self.material = None
        self.envelope = None
        self.message = None
        self.dev = SimDevice(platform="sgx", mode=MODE_SIGNER, onboarded=onboarded, pin=pin,
                             pubkeys={path_to_binary(p): g1.pub65(k)
                                      for p, k in self.wallet.items()}, **cfg)
        self.dev.unlocked = False
        self.dev.extra[0x50] = self.attestation

    def keys_hash(self):
        h = hashlib.sha256()
        for p in sorted(self.wallet):
            h.update(g1.pub65(self.wallet[p]))
        return h.digest()

    def _alt(self, what, value):
        # a single-point alteration: applied once per datum, so that page-wise
        # retrieval sees one consistent altered value
        fn = self.alter.get(what)
        if not fn:
            return value
        key = (what, bytes(value))
        if key not in self._alt_cache:
            self._alt_cache[key] = fn(value)
        return self._alt_cache[key]

    def attestation(self, d, apdu):
        if not d.unlocked:
            raise SW(0x6BF1)
        op = apdu[2]
        if op == 0x01:
            ud = apdu[3:]
            if len(ud) != 32:
                raise SW(0x6B00)
            self.message = (b"POWHSM:5.4::" + b"sgx" + ud + self.keys_hash() + self.best_block +
                            self.last_tx + self.timestamp)
            if self.rng.random() < 1 / 3:
                # one device in three holds a state whose message digest (what the quote
                # commits to) begins or ends with a zero byte
                import hashlib
                for _ in range(4000):
                    self.best_block = self.rng.randbytes(32)
                    self.message = (b"POWHSM:5.4::" + b"sgx" + ud + self.keys_hash() +
                                    self.best_block + self.last_tx + self.timestamp)
                    dg = hashlib.sha256(self.message).digest()
                    if dg[0] == 0 or dg[-1] == 0:
                        self.zero_edge_digest = True
                        break
            self.material = g2.build(self.rng, depth=self.depth, custom_data=self.message,
                                     auth_len=self.auth_len)
            self.envelope = self._alt("envelope", g2.envelope(self.material, self.rng,
                                                              include_root=self.include_root))
            # on SGX the OP_GET answer carries no separate signature
            return bytes([CLA, 0x50, op])
        if self.envelope is None:
            raise SW(0x6B00)
        if op in (0x02, 0x04):
            data = self._alt("message", self.message) if op == 2 else self.envelope
            more, chunk = paged(data, apdu[3] if len(apdu) > 3 else 0, self.page_size)
            return bytes([CLA, 0x50, op, more]) + chunk
        if op == 0x03:
            return bytes([CLA, 0x50, op]) + bytes(32)
        raise SW(0x6B00)
