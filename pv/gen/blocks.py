# RSK block header generator.  Every header is built from a field list, and every
# coinbase from a *full* coinbase transaction, so the expected metadata is known
# by construction (DESIGN.md C05).
import struct

from .requests import rlp_encode
from ..oracle.hashes import keccak256, sha256_midstate, sha256_full, sha256_from_midstate


def rlp_payload_len(items):
    return sum(len(rlp_encode(x)) for x in items)


def gen_coinbase(rng, small=False):
    """returns (compressed coinbase field, expected cb txn hash bytes)"""
    n = rng.choice([65, 66, 100, 127, 128, 129, 191, 192, 193, 300, rng.randint(65, 2000)])
    if small:
        n = rng.choice([64, 65, 70, 128, 130])
    t = rng.randbytes(n)
    max_split = (n // 64) * 64
    split = rng.choice([0, 64, max_split, rng.randrange(0, max_split + 1, 64)])
    if small:
        split = max_split
    comp = struct.pack(">Q", split) + sha256_midstate(t[:split]) + t[split:]
    h = sha256_full(sha256_full(t))[::-1]
    if not small and rng.random() < 0.08:
        # a compressed coinbase whose head stands for a lot of data: the count of bytes
        # already hashed is a 64-bit field (the chaining value is what it is - nobody can
        # tell which data led to it); the transaction's length enters its hash
        count = rng.choice([2**29 - 64, 2**29, 2**29 + 64, 2**31, 2**32 - 64, 2**32, 2**32 + 64,
                            2**40, 2**56, 2**60])
        mid = rng.randbytes(32)
        if rng.random() < 0.4:
            # ... or a chaining value that reads like something: SHA-256's initial state (with
            # a count that says otherwise), all zeros, all ones
            mid = rng.choice([bytes.fromhex("6a09e667bb67ae853c6ef372a54ff53a"
                                            "510e527f9b05688c1f83d9ab5be0cd19")] * 2 +
                             [bytes(32), b"\xff" * 32])
            count = rng.choice([64, 64, 128, 2 ** 20, count])
        tail = t[split:]
        comp = struct.pack(">Q", count) + mid + tail
        h = sha256_full(sha256_from_midstate(mid, count, tail))[::-1]
    return comp, h


def num(rng, maxbytes, allow_zero=True):
    n = rng.randint(0 if allow_zero else 1, maxbytes)
    if n == 0:
        return b""
    b = rng.randbytes(n)
    if b[0] == 0:
        b = bytes([1]) + b[1:]
    return b


BOUNDARY_LENGTHS = [54, 55, 56, 57, 255, 256, 257]


def gen_boundary_block(rng, nfields=None, which=None, target=None):
    """a header one of whose RLP list payloads (the part without the merge-mining
    fields, the ancestor-stripped form, or the whole header) has exactly a length
    at which the RLP list prefix changes form"""
    which0, target0 = which, target
    for _ in range(200):
        which = which0 or rng.choice(["no_mm", "no_mm", "stripped", "raw"])
        target = target0 or rng.choice(BOUNDARY_LENGTHS)
        b = gen_block(rng, nfields, tiny=True, small_tail=True)
        fields = list(b["fields"])
        nf = b["nfields"]

        def part(fs):
            if which == "no_mm":
                return fs[:-3] if nf in (19, 20) else fs[:-1]
            if which == "stripped":
                return fs[:-2] if nf in (19, 20) else fs
            return fs
        for L in range(0, target + 2):
            fields[6] = rng.randbytes(L)
            if L == 1 and fields[6][0] < 0x80:
                fields[6] = bytes([0x80 | fields[6][0]])
            if rlp_payload_len(part(fields)) == target:
                return _finish(fields, nf, b["cb_hash"])
    raise AssertionError("could not fit %s=%s" % (which0, target0))


def _finish(fields, nfields, cb_hash):
    raw = rlp_encode(fields)
    no_mm = fields[:-3] if nfields in (19, 20) else fields[:-1]
    hash_fields = fields[:-2] if nfields in (19, 20) else fields
    return {"raw": raw, "fields": fields, "nfields": nfields,
            "mm_payload_len": rlp_payload_len(no_mm), "cb_hash": cb_hash,
            "hash": keccak256(rlp_encode(hash_fields)),
            "stripped": rlp_encode(hash_fields)}


def gen_block(rng, nfields=None, tiny=False, small_tail=False, coinbase=None):
    """returns dict(raw, fields, mm_payload_len, cb_hash or None, hash)"""
    nfields = nfields or rng.choice([17, 18, 19, 19, 20, 20])
    if tiny:
        base = [rng.randbytes(rng.randint(0, 2)) for _ in range(16)]
    else:
        base = [rng.randbytes(32), rng.randbytes(32), rng.randbytes(20), rng.randbytes(32),
                rng.randbytes(32), rng.randbytes(32),
                rng.randbytes(rng.choice([256, 256, 0, 55, 56])),
                num(rng, 32, False), num(rng, 4), num(rng, 8), num(rng, 8), num(rng, 4),
                rng.randbytes(rng.choice([0, 1, 32, rng.randint(0, 40)])),
                num(rng, 8), num(rng, 8), num(rng, 1)]
    fields = list(base)
    if nfields in (18, 20):
        fields.append(rng.randbytes(rng.choice([20, 0, 20])))
    fields.append(rng.randbytes(80 if not tiny else rng.randint(0, 3)))
    cb_hash = None
    if nfields in (19, 20):
        fields.append(rng.randbytes(32 * rng.randint(0, 0 if small_tail else 6)))
        comp, cb_hash = gen_coinbase(rng, small_tail)
        if coinbase is not None:
            comp, cb_hash = coinbase, None
        fields.append(comp)
    assert len(fields) == nfields
    return _finish(fields, nfields, cb_hash)


def same_header_other_coinbase(rng, h):
    """the header h (19 / 20 fields) with everything the block hash covers unchanged, and
    another merge-mining merkle proof and coinbase transaction behind it (what a miner
    submits several times for one block): same block hash, another coinbase hash"""
    assert h["nfields"] in (19, 20)
    fields = list(h["fields"])
    comp, cb_hash = gen_coinbase(rng)
    while comp == fields[-1]:
        comp, cb_hash = gen_coinbase(rng)
    fields[-1] = comp
    if rng.random() < 0.5:
        fields[-2] = rng.randbytes(32 * rng.randint(0, 6))
    out = _finish(fields, h["nfields"], cb_hash)
    assert out["hash"] == h["hash"] and out["raw"] != h["raw"]
    return out


_FIXTURES = None


def brothers_sharing_hash_prefix(rng):
    """two distinct headers whose block hashes share their first four bytes (committed
    fixture, found by a birthday search: about 2^16 headers per pair), in random order"""
    global _FIXTURES
    import os
    import json
    if _FIXTURES is None:
        with open(os.path.join(os.path.dirname(__file__), "fixtures.json")) as f:
            _FIXTURES = json.load(f)["brothers_sharing_4_hash_bytes"]
    fx = rng.choice(_FIXTURES)
    pair = rng.choice(fx["extra_data_pairs"])
    out = []
    for v in pair:
        fields = [bytes.fromhex(x) for x in fx["fields"]]
        fields[12] = bytes.fromhex(v)
        out.append(_finish(fields, fx["nfields"], bytes.fromhex(fx["cb_hash"])))
    assert out[0]["hash"][:4] == out[1]["hash"][:4] and out[0]["hash"] != out[1]["hash"]
    rng.shuffle(out)
    return out
