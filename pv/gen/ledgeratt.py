# Genuine Ledger attestation material (certificate version 1 with the canonical
# chain, UI and signer messages) over operator keys the generator owns.
import json
import hashlib

from . import certv1 as g1
from .certv2 import powhsm_message

PATHS = ["m/44'/0'/0'/0/0", "m/44'/1'/0'/0/0", "m/44'/1'/1'/0/0", "m/44'/1'/2'/0/0",
         "m/44'/137'/0'/0/0", "m/44'/137'/1'/0/0"]
BTC_PATH = "m/44'/0'/0'/0/0"


def operator_keys(rng, paths=PATHS):
    return {p: g1.new_key(rng) for p in paths}


def keys_hash(pubs65_by_path):
    h = hashlib.sha256()
    for p in sorted(pubs65_by_path):
        h.update(pubs65_by_path[p])
    return h.digest()


def pubkeys_file(keys, form="uncompressed"):
    """form: uncompressed (04 x y), compressed (02/03 x), hybrid (06/07 x y: the old X9.62
    notation libsecp256k1 still reads), mixed (each key in a notation of its own)"""
    out = {}
    for i, (p, k) in enumerate(keys.items()):
        f = form if form != "mixed" else ("uncompressed", "compressed", "hybrid")[i % 3]
        u = g1.pub65(k)
        if f == "uncompressed":
            out[p] = u.hex()
        elif f == "compressed":
            out[p] = g1.pub33(k).hex()
        else:
            out[p] = (bytes([6 + (u[-1] & 1)]) + u[1:]).hex()
    return out


def ui_message(rng, btc_pub33, header=b"HSM:UI:5.4", signer_hash=None, iteration=None, ud=None):
    if ud is None:
        ud = rng.randbytes(32)
        if rng.random() < 0.3:
            # a UD value that reads on as text after the header ("5.4" + "7.1...")
            n = rng.randint(1, 6)
            ud = bytes(rng.choice(b"0123456789.:") for _ in range(n)) + ud[n:]
    signer_hash = signer_hash if signer_hash is not None else rng.randbytes(32)
    iteration = iteration if iteration is not None else rng.choice([0, 1, 255, 256, 65535,
                                                                    rng.randrange(65536)])
    msg = header + ud + btc_pub33 + signer_hash + iteration.to_bytes(2, "big")
    return msg, {"ud": ud, "pub": btc_pub33, "signer_hash": signer_hash,
                 "iteration": iteration}


def build(rng, keys=None, signer_form="current", ui_msg=None, signer_msg=None,
          ui_tweak=None, signer_tweak=None):
    """canonical chain device<root, attestation<device, ui/signer<attestation (tweaked)"""
    grind = keys is None and signer_form == "legacy" and rng.random() < 0.2
    keys = keys or operator_keys(rng)
    kh = keys_hash({p: g1.pub65(k) for p, k in keys.items()})
    if grind:
        # legacy signer message = header + keys hash: make the hash begin with an ASCII
        # digit, so that it reads on as text after "HSM:SIGNER:5.4"
        pubs = {p: g1.pub65(k) for p, k in keys.items()}
        for _ in range(200):
            if kh[0] in b"0123456789":
                break
            keys[PATHS[-1]] = g1.new_key(rng)
            pubs[PATHS[-1]] = g1.pub65(keys[PATHS[-1]])
            kh = keys_hash(pubs)
    root = g1.new_key(rng)
    dev = g1.new_key(rng)
    att = g1.new_key(rng)
    info = {"keys": keys, "keys_hash": kh, "root": root, "device": dev, "attestation": att}
    dev_msg = rng.randbytes(8) + g1.pub65(dev)
    att_msg = b"\xff" + g1.pub65(att)
    ui_hash = ui_tweak if ui_tweak is not None else rng.randbytes(32)
    signer_hash = signer_tweak if signer_tweak is not None else rng.randbytes(32)
    if ui_msg is None:
        ui_msg, info["ui_fields"] = ui_message(rng, g1.pub33(keys[BTC_PATH]))
    if signer_msg is None:
        if signer_form == "legacy":
            signer_msg = b"HSM:SIGNER:5.4" + kh
            info["signer_fields"] = None
        else:
            signer_msg, info["signer_fields"] = powhsm_message(rng, kh, platform=b"led")
    info.update(ui_hash=ui_hash, signer_hash=signer_hash, ui_msg=ui_msg, signer_msg=signer_msg)
    els = [
        {"name": "device", "message": dev_msg.hex(), "signed_by": "root",
         "signature": g1.sign(root, dev_msg, rng).hex()},
        {"name": "attestation", "message": att_msg.hex(), "signed_by": "device",
         "signature": g1.sign(dev, att_msg, rng).hex()},
        {"name": "ui", "message": ui_msg.hex(), "signed_by": "attestation",
         "tweak": ui_hash.hex(),
         "signature": g1.sign(g1.tweaked_key(att, ui_hash), ui_msg, rng).hex()},
        {"name": "signer", "message": signer_msg.hex(), "signed_by": "attestation",
         "tweak": signer_hash.hex(),
         "signature": g1.sign(g1.tweaked_key(att, signer_hash), signer_msg, rng).hex()},
    ]
    doc = {"version": 1, "targets": ["ui", "signer"], "elements": els}
    return doc, info


def resign(doc, info, name, msg, rng):
    """replace an element's message and sign it properly (genuine signer)"""
    for e in doc["elements"]:
        if e["name"] == name:
            e["message"] = msg.hex()
            sk = g1.tweaked_key(info["attestation"], bytes.fromhex(e["tweak"]))
            e["signature"] = g1.sign(sk, msg, rng).hex()


def dump(obj, path):
    with open(path, "w") as f:
        json.dump(obj, f)
