# Own Intel-HEX writer.  The generator keeps the list of data areas, so the
# expected application hash is known whatever record sizes / ordering were used.
import hashlib


def record(count_addr_type_data):
    b = bytes(count_addr_type_data)
    cks = (-sum(b)) & 0xff
    return ":" + (b + bytes([cks])).hex().upper()


def rec(addr16, rtype, data):
    return record([len(data), (addr16 >> 8) & 0xff, addr16 & 0xff, rtype] + list(data))


def gen_areas(rng, max_areas=8, multi_zone=True):
    """non-overlapping areas [(start, data)], possibly in several 64 KiB zones,
    with gaps, some adjacent to each other, some crossing a zone boundary"""
    n = rng.randint(1, max_areas)
    areas = []
    cursor = rng.choice([0, 0, 0x100, 0xc0d00000, 0xc0d0ff00 if multi_zone else 0x1000,
                         rng.randrange(0, 0xfff0) << (16 if multi_zone and rng.random() < 0.5
                                                      else 0)])
    # one image in six has its areas in two or three regions far from each other, on both
    # sides of 2^31 (and of 2^24, 2^20): a boot area low in memory next to code at
    # 0xC0D00000.  (Regions are more than a megabyte apart; a region spans less.)
    jumps = {}
    if multi_zone and n >= 2 and rng.random() < 1 / 6:
        bases = sorted(rng.sample([0, 0x00100000, 0x01000000, 0x7ff00000, 0x80000000,
                                   0x80100000, 0xc0d00000, 0xfff00000],
                                  rng.choice([2, 2, 3])))
        cursor = bases[0]
        at = sorted(rng.sample(range(1, n), min(len(bases) - 1, n - 1)))
        jumps = dict(zip(at, bases[1:]))
    for i in range(n):
        if i in jumps:
            cursor = jumps[i]
        gap = rng.choice([0, 0, 1, 16, 255, 4096, rng.randint(0, 70000 if multi_zone else 500)])
        start = cursor + gap
        ln = rng.choice([1, 2, 16, 255, 256, 1000, rng.randint(1, 3000)])
        if start + ln > 0xffffffff:
            break
        data = rng.randbytes(ln)
        k = rng.random()
        if k < 0.08:
            data = bytes(ln)                      # an area of zeros (bss-like, padding)
        elif k < 0.12:
            data = b"\xff" * ln                   # erased flash
        elif k < 0.16:
            data = bytes(ln - 1) + b"\x01"        # zeros but for one byte
        elif k < 0.2:
            data = (b"\x00" * (ln // 2) + data)[:ln]   # zeros then data
        areas.append((start, data))
        cursor = start + ln
    if areas and rng.random() < 0.2:
        # one image in five has a hash that begins or ends with a zero byte (or two): the
        # hash is 32 bytes whatever they are.  One byte pair of the last area is ground.
        start, data = areas[-1]
        for _ in range(70000):
            tail = rng.randbytes(min(3, len(data)))
            cand = areas[:-1] + [(start, data[:len(data) - len(tail)] + tail)]
            dg = expected_hash(cand)
            if dg[0] == 0 or dg[-1] == 0:
                return cand
    return areas


def write(rng, areas, path, shuffle=True, eol=None, with_start_record=None):
    """write the areas with random record lengths 1..255; areas in random file
    order when shuffle"""
    order = list(areas)
    if shuffle:
        rng.shuffle(order)
    eol = eol if eol is not None else rng.choice(["\n", "\r\n"])
    lines = []
    cur_zone = None
    for (start, data) in order:
        off = 0
        first = True
        while off < len(data):
            addr = start + off
            zone = addr >> 16
            if zone != cur_zone or (first and rng.random() < 0.5):
                # (a repeated zone record is legal; without one, areas written out of
                # address order are told apart by the address jump alone)
                lines.append(rec(0, 0x04, [(zone >> 8) & 0xff, zone & 0xff]))
                cur_zone = zone
            first = False
            n = min(rng.choice([1, 16, 32, 255, rng.randint(1, 255)]), len(data) - off,
                    0x10000 - (addr & 0xffff))
            lines.append(rec(addr & 0xffff, 0x00, data[off:off + n]))
            off += n
    if with_start_record if with_start_record is not None else rng.random() < 0.5:
        lines.insert(rng.randrange(len(lines) + 1) if lines else 0,
                     rec(0, 0x05, list(rng.randbytes(4))))
    lines.append(rec(0, 0x01, []))
    if rng.random() < 0.3:
        lines.insert(rng.randrange(len(lines)), "")     # blank lines are allowed
    with open(path, "w", newline="") as f:
        f.write(eol.join(lines) + eol)


def write_compact(rng, areas, path):
    """same image, areas in address order, one zone record per zone change only and
    maximal contiguous runs (a different record layout of the same image)"""
    lines = []
    cur_zone = None
    prev_end = None
    for (start, data) in sorted(areas):
        off = 0
        while off < len(data):
            addr = start + off
            zone = addr >> 16
            if zone != cur_zone:
                lines.append(rec(0, 0x04, [(zone >> 8) & 0xff, zone & 0xff]))
                cur_zone = zone
            n = min(rng.choice([8, 16, 64, 255]), len(data) - off, 0x10000 - (addr & 0xffff))
            lines.append(rec(addr & 0xffff, 0x00, data[off:off + n]))
            off += n
        prev_end = start + len(data)
    lines.append(rec(0, 0x01, []))
    with open(path, "w", newline="") as f:
        f.write("\n".join(lines) + "\n")


def expected_hash(areas):
    h = hashlib.sha256()
    for (start, data) in sorted(areas, key=lambda a: a[0]):
        h.update(data)
    return h.digest()
