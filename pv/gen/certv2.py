# Generator of version-2 (SGX) attestation material: X.509 chains, attestation key,
# QE report body, quote, envelope.  The generator owns every private key.
import base64
import hashlib
import struct
import datetime

from cryptography import x509
from . import keys
from cryptography.x509.oid import NameOID
from cryptography.hazmat.primitives import hashes, serialization
from cryptography.hazmat.primitives.asymmetric import ec
from cryptography.hazmat.primitives.asymmetric.utils import (decode_dss_signature,
                                                              encode_dss_signature,
                                                              Prehashed)

REPORT_BODY_LEN = 384
REPORT_DATA_OFF = 320
QUOTE_HEADER_LEN = 48
QUOTE_LEN = QUOTE_HEADER_LEN + REPORT_BODY_LEN
MRENCLAVE_OFF = 64
MRSIGNER_OFF = 128

NOW = datetime.datetime.now(datetime.timezone.utc)
DAY = datetime.timedelta(days=1)
# validity windows are laid around NOW + CLOCK_OFFSET (see pv/props/c07.py: cases run
# under a shifted clock)
CLOCK_OFFSET = datetime.timedelta(0)
SECONDS_AGO = [2]


def new_key(rng, curve=None):
    # private scalar from the seeded rng, so that cases replay
    curve = curve or ec.SECP256R1()
    bits = curve.key_size
    if curve.name == "secp256r1":
        # one key in eight has a coordinate that starts or ends like an encoding marker
        k = keys.maybe_special_key_r1(rng)
        if k is not None:
            return k
    while True:
        d = rng.getrandbits(bits)
        try:
            return ec.derive_private_key(d, curve) if d > 0 else None
        except ValueError:
            continue


def xy(pub):
    n = pub.public_numbers()
    sz = (pub.curve.key_size + 7) // 8
    return n.x.to_bytes(sz, "big") + n.y.to_bytes(sz, "big")


def name(cn):
    return x509.Name([x509.NameAttribute(NameOID.COMMON_NAME, cn)])


def make_cert(subject_cn, subject_pub, issuer_cn, issuer_key, window="valid", serial=1,
              ca=True, sig_hash=None):
    now = NOW + CLOCK_OFFSET
    if window == "valid":
        nb, na = now - 30 * DAY, now + 365 * DAY
    elif window == "expired":
        nb, na = now - 400 * DAY, now - 2 * DAY
    elif window == "not_yet":
        nb, na = now + 2 * DAY, now + 400 * DAY
    elif window == "expired_recently":
        # within any time-zone offset of "now" (but hours away from it)
        nb, na = now - 400 * DAY, now - 3 * DAY / 24
    elif window == "expired_seconds_ago":
        # inside any tolerance somebody may think harmless (expired is expired); the clock
        # read here is the real one, and time only moves on
        nb = now - 400 * DAY
        na = datetime.datetime.now(datetime.timezone.utc) + CLOCK_OFFSET - \
            datetime.timedelta(seconds=SECONDS_AGO[0])
    elif window == "valid_soon":
        nb, na = now + 3 * DAY / 24, now + 400 * DAY
    elif window == "forever":
        # no well-defined expiration (RFC 5280 4.1.2.5: 99991231235959Z), valid since the
        # earliest date the encoding has
        nb = datetime.datetime(1950, 1, 1, tzinfo=datetime.timezone.utc)
        na = datetime.datetime(9999, 12, 31, 23, 59, 59, tzinfo=datetime.timezone.utc)
    else:
        raise ValueError(window)
    b = (x509.CertificateBuilder().subject_name(name(subject_cn)).issuer_name(name(issuer_cn))
         .public_key(subject_pub).serial_number(serial).not_valid_before(nb)
         .not_valid_after(na))
    if ca is not None:
        # (ca=None: a certificate without the extension)
        b = b.add_extension(x509.BasicConstraints(ca=ca, path_length=None), critical=True)
    from cryptography.hazmat.primitives.asymmetric import ed25519, ed448
    if isinstance(issuer_key, (ed25519.Ed25519PrivateKey, ed448.Ed448PrivateKey)):
        return b.sign(issuer_key, None)       # (these algorithms take no separate hash)
    return b.sign(issuer_key, sig_hash or hashes.SHA256())


_OTHER_KEYS = {}


def other_algorithm_key(rng):
    """a signing key that is not an ECDSA P-256 one: Ed25519, Ed448, RSA, P-384, P-521,
    secp256k1 (an attacker's own key: generated once per process and kind)"""
    from cryptography.hazmat.primitives.asymmetric import ed25519, ed448, rsa
    kind = rng.choice(["ed25519", "ed25519", "ed448", "rsa", "p384", "p521", "secp256k1"])
    if kind not in _OTHER_KEYS:
        _OTHER_KEYS[kind] = {
            "ed25519": ed25519.Ed25519PrivateKey.generate,
            "ed448": ed448.Ed448PrivateKey.generate,
            "rsa": lambda: rsa.generate_private_key(public_exponent=65537, key_size=2048),
            "p384": lambda: ec.generate_private_key(ec.SECP384R1()),
            "p521": lambda: ec.generate_private_key(ec.SECP521R1()),
            "secp256k1": lambda: ec.generate_private_key(ec.SECP256K1())}[kind]()
    return kind, _OTHER_KEYS[kind]


def pem_body(cert):
    return base64.b64encode(cert.public_bytes(serialization.Encoding.DER)).decode()


def pem(cert):
    return cert.public_bytes(serialization.Encoding.PEM).decode()


def sign_der(key, data):
    return key.sign(data, ec.ECDSA(hashes.SHA256()))


def sign_raw64(key, data):
    r, s = decode_dss_signature(sign_der(key, data))
    return r.to_bytes(32, "big") + s.to_bytes(32, "big")


def report_body(rng, report_data32, tail=None):
    rb = bytearray(rng.randbytes(REPORT_BODY_LEN))
    rb[REPORT_DATA_OFF:REPORT_DATA_OFF + 32] = report_data32
    if tail is not None:
        rb[REPORT_DATA_OFF + 32:] = tail
    return bytes(rb)


def powhsm_message(rng, pubkeys_hash=None, version=b"5.4", platform=None, header=None):
    header = header if header is not None else b"POWHSM:" + version + b"::"
    platform = platform or rng.choice([b"sgx", b"led", b"x86"])
    fields = {
        "platform": platform, "ud_value": rng.randbytes(32),
        "public_keys_hash": pubkeys_hash if pubkeys_hash is not None else rng.randbytes(32),
        "best_block": rng.randbytes(32), "last_signed_tx": rng.randbytes(8),
        "timestamp": rng.choice([bytes(8), rng.randbytes(8)]),
    }
    order = ("platform", "ud_value", "public_keys_hash", "best_block", "last_signed_tx",
             "timestamp")
    msg = header + b"".join(fields[k] for k in order)
    if rng.random() < 1 / 6:
        # one message in six has a digest that begins or ends with a zero byte (what is
        # committed to is the digest: its zeros are data, not padding)
        for _ in range(4000):
            fields["best_block"] = rng.randbytes(32)
            msg = header + b"".join(fields[k] for k in order)
            dg = hashlib.sha256(msg).digest()
            if dg[0] == 0 or dg[-1] == 0:
                break
    return msg, fields


class Material:
    pass


def build(rng, depth=None, custom_data=None, auth_len=None, windows=None, leaf_curve=None):
    """genuine SGX attestation material.  depth = number of x509 elements between
    the root of trust and the attestation key (1..3)."""
    m = Material()
    # (the statement's chains are 1..3 certificates deep; one in sixteen is much deeper:
    # nothing in the format bounds the number of elements between a target and the root)
    depth = depth or (rng.choice([1, 2, 2, 3]) if rng.random() >= 1 / 16 else
                      rng.choice([6, 7, 8, 9, 12, 17]))
    if windows is None:
        # (one chain in six holds a certificate that never expires)
        windows = ["valid"] * depth
        if rng.random() < 1 / 6:
            windows[rng.randrange(depth)] = "forever"
    m.root_key = new_key(rng)
    m.root_cert = make_cert("root", m.root_key.public_key(), "root", m.root_key, serial=1)
    m.root_pem_shape = None
    if rng.random() < 0.12:
        # a root whose PEM body has no '=' padding and ends in a letter that also occurs in
        # the "-----END CERTIFICATE-----" line below it (the body ends where it ends)
        for serial in range(2, 400):
            c = make_cert("root", m.root_key.public_key(), "root", m.root_key, serial=serial)
            body = pem_body(c)
            if not body.endswith("=") and body[-1] in "ENDCRTIFA":
                m.root_cert = c
                m.root_pem_shape = "unpadded-ending-in-" + body[-1]
                break
    m.cert_keys = []
    m.certs = []
    issuer_key, issuer_cn = m.root_key, "root"
    # (one chain in eight holds a certificate whose issuer field does not spell its
    # certifier's subject name: who certifies whom is said by the certificate file's
    # `signed_by` and settled by the signature - names are labels)
    m.odd_issuer_name = rng.randrange(depth) if rng.random() < 1 / 8 else None
    m.odd_constraints = rng.choice([[False], [None], [False, True], [None, False],
                                    [True]]) if rng.random() < 1 / 8 else None
    # one chain in eight is signed with other hashes than SHA-256 (ecdsa-with-SHA384 /
    # SHA512 under P-256 keys), certificate by certificate: the hash is the certificate's
    m.sig_hashes = None
    if leaf_curve is None and rng.random() < 1 / 8:
        m.sig_hashes = [rng.choice([hashes.SHA384, hashes.SHA512, hashes.SHA256, hashes.SHA384])
                        for _ in range(depth)]
    for i in range(depth):
        curve = leaf_curve if (leaf_curve is not None and i == depth - 1) else None
        k = new_key(rng, curve)
        cn = "ca%d" % i
        if m.odd_issuer_name == i:
            issuer_cn = rng.choice(["Intel SGX Root CA", issuer_cn.upper(), issuer_cn + " ",
                                    "x", cn])
        ca_ = (i < depth - 1)
        if m.odd_constraints is not None:
            # (who may certify whom is said by the file's `signed_by` and settled by the
            # signatures; the basic-constraints extension - CA true / false / absent - is
            # nothing the statement mentions)
            ca_ = m.odd_constraints[i % len(m.odd_constraints)]
        c = make_cert(cn, k.public_key(), issuer_cn, issuer_key, window=windows[i],
                      serial=10 + i, ca=ca_,
                      sig_hash=(m.sig_hashes[i]() if m.sig_hashes else None))
        m.cert_keys.append(k)
        m.certs.append(c)
        issuer_key, issuer_cn = k, cn
    m.att_key = new_key(rng)
    m.auth_data = rng.randbytes(auth_len if auth_len is not None else
                                rng.choice([1, 2, 32, 33, 100, 1000, rng.randint(1, 1000)]))
    k = rng.random()
    if k < 0.25 and len(m.auth_data) >= 1:
        # opaque bytes: padding-like ends (zeros, blanks, newline, 0xff) are data too
        pad = rng.choice([b"\x00", b"\x00\x00\x00", b" ", b"\n", b"\xff", b"\x00" * 8])
        n = len(m.auth_data)
        m.auth_data = (m.auth_data + pad)[-n:] if k < 0.18 else (pad + m.auth_data)[:n]
    if len(m.auth_data) >= 160 and rng.random() < 0.35:
        # opaque bytes of little variety: one value repeated for hundreds of bytes, or a short
        # pattern (whatever cuts such data into pieces gets several identical pieces in a row)
        m.auth_data = (rng.choice([bytes(1), b"\xff", b"A", rng.randbytes(1), rng.randbytes(2),
                                   bytes(range(79))]) * 1000)[:len(m.auth_data)]
    att_xy = xy(m.att_key.public_key())
    if len(m.auth_data) >= 8 and rng.random() < 1 / 6:
        # ... and one commitment to the attestation key in six likewise
        for _ in range(4000):
            mid = len(m.auth_data) // 2
            m.auth_data = m.auth_data[:mid] + rng.randbytes(4) + m.auth_data[mid + 4:]
            dg = hashlib.sha256(att_xy + m.auth_data).digest()
            if dg[0] == 0 or dg[-1] == 0:
                break
    m.qe_report = report_body(rng, hashlib.sha256(att_xy + m.auth_data).digest())
    leaf_key = m.cert_keys[-1]
    m.qe_sig = sign_der(leaf_key, m.qe_report)
    if custom_data is None:
        custom_data, m.fields = powhsm_message(rng)
    m.custom_data = custom_data
    m.quote = rng.randbytes(QUOTE_HEADER_LEN) + report_body(
        rng, hashlib.sha256(custom_data).digest())
    m.quote_sig = sign_der(m.att_key, m.quote)
    return m


def cert_names(depth):
    # as gathered by admin/sgx_attestation.py for depth 2; generic names otherwise
    if depth == 2:
        return ["platform_ca", "quoting_enclave"]
    return ["cert%d" % i for i in range(depth)]


def to_doc(m, key_form="uncompressed"):
    names = cert_names(len(m.certs))
    els = []
    parent = "sgx_root"
    for n, c in zip(names, m.certs):
        els.append({"name": n, "type": "x509_pem", "message": pem_body(c), "signed_by": parent})
        parent = n
    pub = m.att_key.public_key()
    if key_form == "uncompressed":
        kb = b"\x04" + xy(pub)
    elif key_form == "raw":
        kb = xy(pub)
    else:
        kb = pub.public_bytes(serialization.Encoding.X962,
                              serialization.PublicFormat.CompressedPoint)
    els.append({"name": "attestation", "type": "sgx_attestation_key",
                "message": m.qe_report.hex(), "key": kb.hex(), "auth_data": m.auth_data.hex(),
                "signature": m.qe_sig.hex(), "signed_by": parent})
    els.append({"name": "quote", "type": "sgx_quote", "message": m.quote.hex(),
                "custom_data": m.custom_data.hex(), "signature": m.quote_sig.hex(),
                "signed_by": "attestation"})
    return {"version": 2, "targets": ["quote"], "elements": els}


def envelope(m, rng, sig_len=None, include_root=True):
    """binary quote envelope as the SGX powHSM returns it (sgx/envelope.py layout)"""
    r, s = decode_dss_signature(m.quote_sig)
    qr, qs = decode_dss_signature(m.qe_sig)
    auth = (r.to_bytes(32, "big") + s.to_bytes(32, "big") + xy(m.att_key.public_key()) +
            m.qe_report + qr.to_bytes(32, "big") + qs.to_bytes(32, "big"))
    certdata = b"".join(pem(c).encode() for c in reversed(m.certs))
    if include_root:
        certdata += pem(m.root_cert).encode()
    qead = struct.pack("<H", len(m.auth_data)) + m.auth_data
    qecd = struct.pack("<HI", 5, len(certdata)) + certdata
    siglen = len(auth) + len(qead) + len(qecd) if sig_len is None else sig_len
    return m.quote + struct.pack("<I", siglen) + auth + qead + qecd + m.custom_data


def rederive_sig(sig_der):
    """a different but equally valid DER encoding of the same signature does not
    exist for strict DER; returns (r, s)"""
    return decode_dss_signature(sig_der)


__all__ = ["build", "to_doc", "envelope", "Prehashed", "encode_dss_signature"]


def unknown_signature_oid(pem_body_b64):
    """the same certificate with its signature algorithm (both places) turned into an
    object identifier no library knows (ecdsa-with-SHA256 1.2.840.10045.4.3.2 -> ...3.9);
    it still parses, dates and names are readable"""
    try:
        der = base64.b64decode(pem_body_b64)
    except Exception:
        return None       # (an element mutated earlier: not a certificate any more)
    oid = bytes.fromhex("2a8648ce3d040302")
    if der.count(oid) < 2:
        return None
    return base64.b64encode(der.replace(oid, oid[:-1] + b"\x09")).decode()
