# Builders of well-formed client requests.
from ..simdev.device import AUTH_PATHS, NOAUTH_PATHS, ALL_PATHS  # noqa: F401


def rlp_encode(item):
    """own minimal RLP encoder (bytes / lists)"""
    if isinstance(item, (bytes, bytearray)):
        b = bytes(item)
        if len(b) == 1 and b[0] < 0x80:
            return b
        return _rlp_len(len(b), 0x80) + b
    payload = b"".join(rlp_encode(x) for x in item)
    return _rlp_len(len(payload), 0xc0) + payload


def _rlp_len(n, off):
    if n < 56:
        return bytes([off + n])
    bl = n.to_bytes((n.bit_length() + 7) // 8, "big")
    return bytes([off + 55 + len(bl)]) + bl


def gen_receipt(rng, size_class=None):
    """an RLP list of random items; total size classes around the short/long
    list forms"""
    size_class = size_class or rng.choice(["tiny", "short", "long", "big", "edge"])
    if size_class == "edge":
        # one RLP string whose length sits where the RLP prefix, a one-byte length or a
        # 255-byte chunk changes form
        n = rng.choice([54, 55, 56, 57, 252, 253, 254, 255, 256, 257, 509, 510, 511])
        return rlp_encode(rng.randbytes(n))
    if size_class == "tiny":
        items = [rng.randbytes(rng.randint(0, 5)) for _ in range(rng.randint(0, 3))]
    elif size_class == "short":
        items = [rng.randbytes(rng.randint(0, 12)) for _ in range(rng.randint(1, 4))]
    elif size_class == "long":
        items = [rng.randbytes(rng.randint(20, 100)), rng.randbytes(256),
                 [rng.randbytes(20), [rng.randbytes(32) for _ in range(rng.randint(1, 3))],
                  rng.randbytes(rng.randint(0, 200))]]
    else:
        items = [rng.randbytes(rng.randint(200, 700)) for _ in range(rng.randint(2, 5))]
    return rlp_encode(items)


def gen_proof(rng, max_nodes=6, max_len=120, boundary=False):
    if boundary:
        n = rng.choice([1, 255, rng.randint(200, 255)])
        return [rng.randbytes(rng.choice([1, 255, rng.randint(1, 255)])) for _ in range(n)]
    n = rng.randint(1, max_nodes)
    nodes = [rng.randbytes(rng.choice([1, 2, 32, 33, max_len, rng.randint(1, max_len)]))
             for _ in range(n)]
    if rng.random() < 0.12:
        # the same node more than once (next to each other or apart): a list is a list
        for _ in range(rng.randint(1, 2)):
            nodes.insert(rng.randrange(len(nodes) + 1), rng.choice(nodes))
    return nodes


def sign_auth_request(key_id, tx_raw, input_index, receipt, proof, segwit=None,
                      version=5):
    msg = {"tx": tx_raw.hex(), "input": input_index,
           "sighashComputationMode": "segwit" if segwit else "legacy"}
    if segwit:
        msg["witnessScript"] = segwit[0].hex()
        msg["outpointValue"] = segwit[1]
    return {"command": "sign", "version": version, "keyId": key_id,
            "auth": {"receipt": receipt.hex(),
                     "receipt_merkle_proof": [p.hex() for p in proof]},
            "message": msg}


def sign_hash_request(key_id, h, version=5):
    if version == 1:
        return {"command": "sign", "version": 1, "keyId": key_id, "message": h.hex()}
    return {"command": "sign", "version": version, "keyId": key_id,
            "message": {"hash": h.hex()}}


def reorder_members(rng, obj, how=None):
    """the same JSON value with the members of every object in another order (reversed,
    sorted by name, shuffled): objects are unordered, a request says the same whatever the
    order its members are written in"""
    how = how or rng.choice(["reversed", "sorted", "shuffled", "shuffled"])
    if isinstance(obj, dict):
        keys = list(obj)
        if how == "reversed":
            keys.reverse()
        elif how == "sorted":
            keys.sort()
        else:
            rng.shuffle(keys)
        return {k: reorder_members(rng, obj[k], how) for k in keys}
    if isinstance(obj, list):
        return [reorder_members(rng, x, how) for x in obj]
    return obj
