# Keys whose encoded coordinates begin or end with bytes that also occur as encoding
# markers (0x04 uncompressed, 0x02/0x03 compressed, 0x00 padding).  One key in 64 has
# such an X coordinate: code that strips or tests "the marker" by value rather than by
# position works for all the others.  The scalars are ground with the fast native
# libraries (libsecp256k1 / OpenSSL) from the case's own rng, so cases replay and no two
# keys of a run coincide; the callers build their own key objects from them.
import secp256k1
from cryptography.hazmat.primitives.asymmetric import ec

MARKERS = (0x00, 0x02, 0x03, 0x04)
KINDS = ("x-first", "x-first", "x-first", "y-first", "x-last")
K1_N = 0xFFFFFFFFFFFFFFFFFFFFFFFFFFFFFFFEBAAEDCE6AF48A03BBFD25E8CD0364141
SPECIAL_P = 1.0 / 8


def _fits(x, y, kind):
    if kind == "x-first":
        return x[0] in MARKERS
    if kind == "y-first":
        return y[0] in MARKERS
    return x[-1] in MARKERS


def special_scalar_k1(rng):
    kind = rng.choice(KINDS)
    while True:
        d = rng.randrange(1, K1_N)
        pub = secp256k1.PrivateKey(d.to_bytes(32, "big"), raw=True).pubkey.serialize(
            compressed=False)
        if _fits(pub[1:33], pub[33:], kind):
            return d


def special_key_r1(rng):
    kind = rng.choice(KINDS)
    curve = ec.SECP256R1()
    while True:
        d = rng.getrandbits(256)
        try:
            k = ec.derive_private_key(d, curve) if d > 0 else None
        except ValueError:
            k = None
        if k is None:
            continue
        n = k.public_key().public_numbers()
        if _fits(n.x.to_bytes(32, "big"), n.y.to_bytes(32, "big"), kind):
            return k


def maybe_special_scalar_k1(rng):
    """None most of the time"""
    if rng.random() < SPECIAL_P:
        return special_scalar_k1(rng)
    return None


def maybe_special_key_r1(rng):
    if rng.random() < SPECIAL_P:
        return special_key_r1(rng)
    return None
