# DER-ish signature shapes a device may return, with the expected r/s (hex of the
# INTEGER contents) computed by construction.


def make_sig(rng, shape=None):
    """returns (sig bytes, (r_hex, s_hex) or None when not a parseable signature)"""
    shape = shape or rng.choice(["normal", "normal", "short", "long", "x31", "rubbish",
                                 "min", "zero_r"])
    def derint():
        # as a device encodes a 256-bit number: 0x00-padded when the top bit is set
        v = rng.randbytes(32)
        k = rng.random()
        if k < 0.4:
            return b"\x00" + bytes([v[0] | 0x80]) + v[1:]
        if k < 0.5:
            return b"\x00" + v[1:]          # leading zero byte inside 32 bytes
        return bytes([v[0] & 0x7f]) + v[1:]
    if shape == "normal":
        r = derint()
        s = derint()
    elif shape == "short":
        r = rng.randbytes(rng.randint(1, 31))
        s = rng.randbytes(rng.randint(1, 31))
    elif shape == "long":
        r = rng.randbytes(33)
        s = rng.randbytes(33)
    elif shape == "min":
        r = rng.randbytes(1)
        s = rng.randbytes(1)
    elif shape == "zero_r":
        r = b""
        s = rng.randbytes(2)
    else:
        r = rng.randbytes(32)
        s = rng.randbytes(32)
    if shape in ("normal", "short", "long") and len(s) >= 2 and rng.random() < 0.1:
        # an s that ends like a status word (it is data all the same)
        s = s[:-2] + rng.choice([b"\x90\x00", b"\x90\x00", b"\x6a\x87", b"\x00\x00"])
    body = b"\x02" + bytes([len(r)]) + r + b"\x02" + bytes([len(s)]) + s
    first = 0x31 if shape == "x31" else 0x30
    sig = bytes([first, len(body)]) + body
    if shape == "rubbish":
        sig += rng.randbytes(rng.randint(1, 6))
    return sig, (r.hex(), s.hex())


def make_bad_sig(rng):
    kind = rng.choice(["empty", "tag", "trunc", "inttag", "lenover"])
    good, _ = make_sig(rng, "normal")
    if kind == "empty":
        return b""
    if kind == "tag":
        return bytes([rng.choice([0x00, 0x2f, 0x32, 0xff])]) + good[1:]
    if kind == "trunc":
        return good[:rng.randint(1, len(good) - 1)]
    if kind == "inttag":
        return good[:2] + b"\x03" + good[3:]
    return good[:1] + bytes([len(good) + 5]) + good[2:]


def parse_sig(sig):
    """independent reading of the format documented in ledger/signature.py:
    0x30|0x31 LEN 0x02 RLEN R 0x02 SLEN S [rubbish]; None if it does not fit"""
    if len(sig) < 2 or sig[0] not in (0x30, 0x31):
        return None
    if len(sig) - 2 < sig[1]:
        return None
    i = 2
    out = []
    for _ in range(2):
        if len(sig) < i + 2 or sig[i] != 0x02:
            return None
        ln = sig[i + 1]
        if len(sig) < i + 2 + ln:
            return None
        out.append(sig[i + 2:i + 2 + ln].hex())
        i += 2 + ln
    return tuple(out)
