# Generator of version-1 (Ledger) attestation certificates over freshly generated
# secp256k1 keys.  Signing is done with the pure-Python `ecdsa` package (the code
# under test verifies with libsecp256k1 bindings).
import hmac
import hashlib
import ecdsa
from . import keys

CURVE = ecdsa.SECP256k1
N = CURVE.order
NAMES = ["device", "attestation", "ui", "signer"]


def new_key(rng):
    # one key in eight has a coordinate that starts or ends like an encoding marker
    d = keys.maybe_special_scalar_k1(rng) or rng.randrange(1, N)
    return ecdsa.SigningKey.from_secret_exponent(d, curve=CURVE, hashfunc=hashlib.sha256)


def pub65(sk_or_vk):
    vk = sk_or_vk.get_verifying_key() if hasattr(sk_or_vk, "get_verifying_key") else sk_or_vk
    return vk.to_string("uncompressed")


def pub33(sk_or_vk):
    vk = sk_or_vk.get_verifying_key() if hasattr(sk_or_vk, "get_verifying_key") else sk_or_vk
    return vk.to_string("compressed")


def tweak_scalar(tweak_bytes, certifier_pub65):
    return int.from_bytes(hmac.new(tweak_bytes, certifier_pub65, hashlib.sha256).digest(),
                          "big")


def tweaked_key(sk, tweak_bytes):
    t = tweak_scalar(tweak_bytes, pub65(sk))
    d = (sk.privkey.secret_multiplier + t) % N
    if d == 0 or t >= N:
        return None
    return ecdsa.SigningKey.from_secret_exponent(d, curve=CURVE, hashfunc=hashlib.sha256)


def sign(sk, message, rng, high_s=False):
    k = rng.randrange(1, N)
    sig = sk.sign(message, hashfunc=hashlib.sha256, k=k,
                  sigencode=ecdsa.util.sigencode_der_canonize)
    if high_s:
        r, s = ecdsa.util.sigdecode_der(sig, N)
        sig = ecdsa.util.sigencode_der(r, N - s, N)
    return sig


def embed_key(name, key_bytes, rng):
    """a message for element `name` whose extracted value is key_bytes"""
    if name == "device":
        return rng.randbytes(rng.choice([0, 1, 8, 20, 40])) + key_bytes
    if name == "attestation":
        return rng.randbytes(1) + key_bytes
    return key_bytes


def gen_graph(rng):
    """present elements and their parents ('root' or another present name),
    acyclic.  Returns {name: parent}"""
    present = [n for n in NAMES if rng.random() < 0.8] or [rng.choice(NAMES)]
    rng.shuffle(present)
    parents = {}
    placed = []
    for n in present:
        # parent among already placed ones or root -> acyclic by construction
        if placed and rng.random() < 0.75:
            parents[n] = rng.choice(placed)
        else:
            parents[n] = "root"
        placed.append(n)
    return parents


def canonical_graph():
    return {"device": "root", "attestation": "device", "ui": "attestation",
            "signer": "attestation"}


def craft_signature(rng, msg):
    """(certifier's private scalar, DER signature) such that the signature over msg is a
    valid, strict, low-S one whose TOTAL encoded length is chosen: 64 bytes (the length of
    the other, 'compact' signature form), 65, 63, or anything from 9 up.  r comes from a
    random nonce; s is chosen with the byte length that gives the total; the key that
    makes (r, s) valid follows: d = (s*k - z) / r  (mod n)."""
    import secp256k1
    z = int.from_bytes(hashlib.sha256(msg).digest(), "big")
    while True:
        k = rng.randrange(1, N)
        pub = secp256k1.PrivateKey(k.to_bytes(32, "big"), raw=True).pubkey.serialize(
            compressed=False)
        r = int.from_bytes(pub[1:33], "big") % N
        if r == 0:
            continue
        rl = (r.bit_length() + 8) // 8            # DER integer content length
        total = rng.choice([64, 64, 64, 65, 63, 66, rng.randint(8 + rl, 72)])
        sl = total - 6 - rl
        if not 1 <= sl <= 32:
            continue
        # content length sl: top bit of the first content byte clear, first byte non-zero
        s_ = rng.randrange(1 << (8 * sl - 8), 1 << (8 * sl - 1)) if sl > 1 else \
            rng.randrange(1, 128)
        if s_ > N // 2:
            continue
        d = (s_ * k - z) * pow(r, -1, N) % N
        if d == 0:
            continue
        sig = ecdsa.util.sigencode_der(r, s_, N)
        assert len(sig) == total, (len(sig), total)
        return d, sig


def build(rng, parents=None, compressed_ok=True):
    """genuine certificate.  Returns (doc, info) where info holds the keys."""
    parents = parents or (canonical_graph() if rng.random() < 0.3 else gen_graph(rng))
    keys = {}
    msgs = {}
    crafted = {}          # element -> its crafted signature
    solved = {}           # certifier ("root" or a name) -> private scalar that was solved for
    children = {n: [c for c, p in parents.items() if p == n] for n in parents}
    order = []
    todo = [n for n, p in parents.items() if p == "root"]
    while todo:
        n = todo.pop(0)
        order.append(n)
        todo.extend(children[n])
    # keys and messages, children before parents: a child's signature may be crafted
    # (chosen length), which fixes its certifier's key
    for n in reversed(order):
        if n in solved:
            keys[n] = ecdsa.SigningKey.from_secret_exponent(solved[n], curve=CURVE,
                                                            hashfunc=hashlib.sha256)
        else:
            keys[n] = new_key(rng)
        if children[n] or rng.random() < 0.5:
            # (the device rule takes the last 65 bytes: only the long form fits it)
            kb = pub33(keys[n]) if (compressed_ok and n != "device" and
                                    rng.random() < 0.25) else pub65(keys[n])
            msgs[n] = embed_key(n, kb, rng)
        else:
            msgs[n] = rng.randbytes(rng.choice([1, 32, 33, 65, 90, 120]))
        if parents[n] not in solved and rng.random() < 0.12:
            solved[parents[n]], crafted[n] = craft_signature(rng, msgs[n])
    root = ecdsa.SigningKey.from_secret_exponent(solved["root"], curve=CURVE,
                                                 hashfunc=hashlib.sha256) \
        if "root" in solved else new_key(rng)
    elements = {}
    for n in order:
        p = parents[n]
        cert_sk = root if p == "root" else keys[p]
        msg = msgs[n]
        el = {"name": n, "message": msg.hex(), "signed_by": p}
        if n in crafted:
            el["signature"] = crafted[n].hex()
            elements[n] = el
            continue
        sk = cert_sk
        if rng.random() < 0.5:
            tw = rng.randbytes(rng.choice([32, 32, 1, 20, 64]))
            if rng.random() < 0.15:
                # a tweak of zero bytes (or of 0xff): it is the HMAC key, not the scalar -
                # the key it leads to is as different from the certifier's as any other
                tw = rng.choice([bytes(32), bytes(1), bytes(20), b"\xff" * 32, bytes(31) + b"\x01"])
            elif rng.random() < 0.12:
                # a tweak whose derived scalar HMAC(tweak, key) begins with a zero byte (one
                # in 256 does; drawn again until it does): 32 bytes like any other scalar
                for _ in range(3000):
                    tw = rng.randbytes(32)
                    if tweak_scalar(tw, pub65(cert_sk)) >> 248 == 0:
                        break
            tk = tweaked_key(cert_sk, tw)
            if tk is not None:
                el["tweak"] = tw.hex()
                sk = tk
        el["signature"] = sign(sk, msg, rng).hex()
        elements[n] = el
    targets = [n for n in order if rng.random() < 0.6] or [rng.choice(order)]
    rng.shuffle(targets)
    el_list = [elements[n] for n in order]
    rng.shuffle(el_list)
    doc = {"version": 1, "targets": targets, "elements": el_list}
    return doc, {"root": root, "keys": keys, "parents": parents, "order": order,
                 "crafted": {n: len(sg) for n, sg in crafted.items()}}
