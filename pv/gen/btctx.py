# Generators of Bitcoin transactions with script-sigs over every push encoding.
# Serialization is done here by hand (own writer), not by the shim.
from ..oracle.btc import enc_varint, minimal_push

OP_KINDS = ["direct", "pd1", "pd1_nonmin", "pd2", "pd2_nonmin", "pd4", "op0",
            "opn", "neg1", "nonpush", "empty_pd1"]


def gen_op(rng, kind=None, big=False):
    """returns (kind, raw bytes of one script operation)"""
    kind = kind or rng.choice(OP_KINDS)
    rb = rng.randbytes
    if kind == "direct":
        n = rng.choice([1, 2, 20, 32, 33, 71, 72, 73, 75, rng.randint(1, 75)])
        return kind, bytes([n]) + rb(n)
    if kind == "direct1":
        return "direct", b"\x01" + rb(1)
    if kind == "pd1":
        n = rng.choice([76, 77, 105, 255, rng.randint(76, 255)])
        return kind, b"\x4c" + bytes([n]) + rb(n)
    if kind == "pd1_nonmin":
        n = rng.randint(1, 75)
        return kind, b"\x4c" + bytes([n]) + rb(n)
    if kind == "empty_pd1":
        return kind, b"\x4c\x00"
    if kind == "pd2":
        n = rng.choice([256, 257, 520, rng.randint(256, 1200)])
        if big:
            n = rng.choice([n, 65535, rng.randint(4000, 65535)])
        return kind, b"\x4d" + n.to_bytes(2, "little") + rb(n)
    if kind == "pd2_nonmin":
        n = rng.randint(0, 255)
        return kind, b"\x4d" + n.to_bytes(2, "little") + rb(n)
    if kind == "pd4":
        n = rng.randint(0, 300)
        if big:
            n = rng.choice([n, 65536, 70000])
        return kind, b"\x4e" + n.to_bytes(4, "little") + rb(n)
    if kind == "op0":
        return kind, b"\x00"
    if kind == "opn":
        return kind, bytes([0x50 + rng.randint(1, 16)])
    if kind == "neg1":
        return kind, b"\x4f"
    if kind == "nonpush":
        return kind, bytes([rng.choice([0x50, 0x61, 0x75, 0x76, 0x87, 0xa9, 0xac, 0xae,
                                        0xab, 0xb1, 0xff, rng.randint(0x61, 0xff)])])
    raise ValueError(kind)


def gen_redeem_script(rng):
    """an m-of-n multisig-like script, as found last in a p2sh script-sig"""
    n = rng.randint(1, 15)
    m = rng.randint(1, n)
    s = bytes([0x50 + m])
    for _ in range(n):
        s += b"\x21" + bytes([rng.choice([2, 3])]) + rng.randbytes(32)
    s += bytes([0x50 + n]) + b"\xae"
    return s


def gen_scriptsig(rng, nops=None, big=False, last_kind=None):
    """returns (raw script, list of op raws, list of kinds)"""
    if nops is None and rng.random() < 0.1:
        # many operations: beyond the signatures of the largest standard multisig (15 + 2),
        # around the counts somebody may take for limits (16, 20, 201, 1000)
        nops = rng.choice([9, 15, 16, 17, 18, 19, 20, 21, 32, 33, 64, 100, 200, 201, 202, 255,
                           256, 257, 1000, 1001])
    nops = nops or rng.randint(1, 8)
    ops = []
    kinds = []
    for i in range(nops):
        last = (i == nops - 1)
        if last and last_kind is None and rng.random() < 0.5:
            ops.append(minimal_push(gen_redeem_script(rng)))
            kinds.append("redeem")
            continue
        k, raw = gen_op(rng, last_kind if last else None, big=big and rng.random() < 0.1)
        ops.append(raw)
        kinds.append(k)
    if nops >= 2 and rng.random() < 0.12:
        # the final operation also occurs earlier in the script, byte for byte (an
        # opcode or a one-byte push is then even the same object once decoded)
        if rng.random() < 0.5:
            k, raw = gen_op(rng, rng.choice(["opn", "nonpush", "neg1", "direct1"]))
            ops[-1], kinds[-1] = raw, k
        j = rng.randrange(nops - 1)
        ops[j], kinds[j] = ops[-1], kinds[-1]
    return b"".join(ops), ops, kinds


VARINT_EDGES = [252, 253, 254, 255, 256, 65535, 65536]


def push_of_raw_len(rng, rawlen):
    """(kind, raw) of a minimal data push whose encoding is exactly rawlen bytes
    (None when no minimal push has that length)"""
    if 2 <= rawlen <= 76:
        n = rawlen - 1
        d = rng.randbytes(n)
        if n == 1 and (d[0] <= 16 or d[0] == 0x81):
            d = b"\x42"
        return "direct", bytes([n]) + d
    if 78 <= rawlen <= 257:
        n = rawlen - 2
        return "pd1", b"\x4c" + bytes([n]) + rng.randbytes(n)
    if 259 <= rawlen <= 65538:
        n = rawlen - 3
        return "pd2", b"\x4d" + n.to_bytes(2, "little") + rng.randbytes(n)
    return None


def gen_boundary_scriptsig(rng, small=False):
    """a script-sig whose total length, or whose length once the non-final operations
    are replaced by one-byte placeholders, is exactly a value at which the length
    prefix (varint) changes form"""
    edges = VARINT_EDGES[:5] if small else VARINT_EDGES
    for _ in range(100):
        target = rng.choice(edges)
        if rng.random() < 0.5:
            # unsigned length = (#non-final ops) + len(final op)
            k = rng.randint(0, 4)
            fin = push_of_raw_len(rng, target - k)
            if fin is None:
                continue
            ops, kinds = [], []
            for _i in range(k):
                kd, raw = gen_op(rng, rng.choice(["direct", "pd1", "op0", "pd1_nonmin"]))
                ops.append(raw)
                kinds.append(kd)
            ops.append(fin[1])
            kinds.append(fin[0])
            return b"".join(ops), ops, kinds, "unsigned-len-%d" % target
        # total (signed) length
        k = rng.randint(1, 3)
        ops, kinds = [], []
        for _i in range(k):
            kd, raw = gen_op(rng, rng.choice(["direct", "pd1", "op0"]))
            ops.append(raw)
            kinds.append(kd)
        fk, fraw = gen_op(rng, rng.choice(["direct", "pd1"]))
        rest = target - sum(map(len, ops)) - len(fraw)
        fill = push_of_raw_len(rng, rest)
        if fill is None:
            continue
        ops.insert(rng.randrange(len(ops) + 1), fill[1])
        kinds.insert(0, fill[0])
        ops.append(fraw)
        kinds.append(fk)
        kinds = [classify_op(o) for o in ops]
        return b"".join(ops), ops, kinds, "signed-len-%d" % target
    sc, ops, kinds = gen_scriptsig(rng)
    return sc, ops, kinds, None


def classify_op(raw):
    o = raw[0]
    if o == 0:
        return "op0"
    if 1 <= o <= 75:
        return "direct"
    if o == 0x4c:
        return "pd1" if raw[1] > 75 else ("empty_pd1" if raw[1] == 0 else "pd1_nonmin")
    if o == 0x4d:
        return "pd2" if int.from_bytes(raw[1:3], "little") > 255 else "pd2_nonmin"
    if o == 0x4e:
        return "pd4"
    if o == 0x4f:
        return "neg1"
    if 0x51 <= o <= 0x60:
        return "opn"
    return "nonpush"


def ser_tx(version, ins, outs, locktime, wits=None):
    out = version.to_bytes(4, "little", signed=True)
    if wits is not None:
        out += b"\x00\x01"
    out += enc_varint(len(ins))
    for (txid, vout, script, seq) in ins:
        out += txid + vout.to_bytes(4, "little") + enc_varint(len(script)) + script + \
            seq.to_bytes(4, "little")
    out += enc_varint(len(outs))
    for (value, spk) in outs:
        out += value.to_bytes(8, "little") + enc_varint(len(spk)) + spk
    if wits is not None:
        for items in wits:
            out += enc_varint(len(items))
            for it in items:
                out += enc_varint(len(it)) + it
    out += locktime.to_bytes(4, "little")
    return out


def gen_tx(rng, max_in=4, max_out=4, big=False, witness=False, min_in=1, edges=True):
    """returns dict(raw, ins, outs, version, locktime, kinds, edges); edges: a tenth of the
    transactions carry a length or count sitting exactly on a varint boundary"""
    nin = rng.randint(min_in, max_in)
    nout = rng.randint(0, max_out)
    edge = []
    er = rng.random() if edges else 1.0
    if er < 0.008 and edges == "scripts":
        er = 0.05
    if er < 0.004:
        nin = rng.choice([252, 253, 254])
        edge.append("inputs-%d" % nin)
    elif er < 0.008:
        nout = rng.choice([252, 253, 254])
        edge.append("outputs-%d" % nout)
    ins = []
    kinds = []
    opsl = []
    for i_ in range(nin):
        if 0.008 <= er < 0.1 and i_ == (nin - 1) // 2:
            sc, ops, ks, lab = gen_boundary_scriptsig(rng, small=not big)
            if lab:
                edge.append(lab)
        else:
            sc, ops, ks = gen_scriptsig(rng, big=big, nops=rng.randint(1, 2) if nin > 50
                                        else None)
        txid_ = rng.randbytes(32)
        vout_ = rng.choice([0, 1, 0xffffffff, rng.getrandbits(32)])
        if rng.random() < 0.06:
            # outpoints that read like something special: all zeros (with index 0xffffffff
            # that is how a coinbase names its input), all ones, zeros but for one byte
            txid_ = rng.choice([bytes(32), bytes(32), b"\xff" * 32, bytes(31) + b"\x01"])
            vout_ = rng.choice([0xffffffff, 0xffffffff, 0, vout_])
        ins.append((txid_, vout_,
                    sc, rng.choice([0xffffffff, 0xfffffffe, 0, rng.getrandbits(32)])))
        kinds.append(ks)
        opsl.append(ops)
    outs = []
    for _ in range(nout):
        spk = rng.randbytes(rng.choice([0, 22, 23, 25, 34, rng.randint(0, 80)]))
        if 0.1 <= er < 0.11 and not edge:
            spk = rng.randbytes(rng.choice([252, 253, 254]))
            edge.append("spk-%d" % len(spk))
        outs.append((rng.choice([0, 1, 546, 2100000000000000, rng.getrandbits(50)]), spk))
    version = rng.choice([1, 2, 1, 2, rng.choice([0, 3, -1, 0x7fffffff])])
    locktime = rng.choice([0, 1, 499999999, 500000000, 0xffffffff, rng.getrandbits(32)])
    wits = None
    if witness:
        wits = [[rng.randbytes(rng.randint(0, 80)) for _ in range(rng.randint(0, 3))]
                for _ in ins]
        if all(len(w) == 0 for w in wits):
            wits[0] = [b"\x01"]
    raw = ser_tx(version, ins, outs, locktime, wits)
    return {"raw": raw, "ins": ins, "outs": outs, "version": version,
            "locktime": locktime, "kinds": kinds, "ops": opsl, "witness": witness,
            "edges": edge}


def resign_variant(rng, tx):
    """a transaction that differs from tx only in its non-final pushes (same
    number of operations per input, different 'signatures')"""
    ins = []
    for (txid, vout, script, seq), ops in zip(tx["ins"], tx["ops"]):
        new_ops = []
        for op in ops[:-1]:
            k, raw = gen_op(rng, rng.choice(["direct", "pd1", "op0", "pd1_nonmin"]))
            new_ops.append(raw)
        new_ops.append(ops[-1])
        ins.append((txid, vout, b"".join(new_ops), seq))
    raw = ser_tx(tx["version"], ins, tx["outs"], tx["locktime"], None)
    return raw


def near_variant(rng, tx):
    """a transaction that differs from tx in one small field only (last byte of the lock
    time, the version, one output's value, one input's sequence number or the last byte of
    its outpoint, one input's script): same beginning or same end, another transaction"""
    ins, outs = list(tx["ins"]), list(tx["outs"])
    version, locktime = tx["version"], tx["locktime"]
    how = rng.choice(["locktime", "locktime", "version", "value", "sequence", "outpoint",
                      "script", "script"])
    if how == "value" and not outs:
        how = "locktime"
    ops_l, kinds_l = list(tx["ops"]), list(tx["kinds"])
    if how == "locktime":
        locktime ^= rng.choice([1, 0x80, 0x01000000, 0x80000000])
    elif how == "version":
        version = 1 if version != 1 else 2
    elif how == "value":
        k = rng.randrange(len(outs))
        outs[k] = (outs[k][0] ^ rng.choice([1, 1 << 56]), outs[k][1])
    elif how == "sequence":
        k = rng.randrange(len(ins))
        ins[k] = ins[k][:3] + (ins[k][3] ^ 1,)
    elif how == "script":
        # the same outpoint spent with another script (other operations, another last one)
        k = rng.randrange(len(ins))
        sc, ops, ks = gen_scriptsig(rng)
        ins[k] = ins[k][:2] + (sc, ins[k][3])
        ops_l[k], kinds_l[k] = ops, ks
    else:
        k = rng.randrange(len(ins))
        t = bytearray(ins[k][0])
        t[rng.choice([0, -1])] ^= 1
        ins[k] = (bytes(t),) + ins[k][1:]
    out = dict(tx, ins=ins, outs=outs, version=version, locktime=locktime, ops=ops_l,
               kinds=kinds_l)
    out["raw"] = ser_tx(version, ins, outs, locktime, None)
    return out


def gen_sized_tx(rng, total_len=None, unsigned_len=None):
    """a transaction (one or more inputs: OP_0, a 72-byte signature push, a redeem-script
    push) whose serialised length - or whose length once the signatures are cleared - is
    exactly the given number of bytes: sizes just around 2^16, 2^24 ... are where a length
    field, a buffer or a made-up limit would show"""
    want = total_len if total_len is not None else unsigned_len
    nin = max(1, want // 40000) if want < 200000 else 1

    def build(ns):
        ins, kinds, opsl = [], [], []
        for n in ns:
            ops = [b"\x00", b"\x48" + bytes([0x30]) + rng.randbytes(71),
                   minimal_push(rng.randbytes(n))]
            ins.append((rng.randbytes(32), 0, b"".join(ops), 0xffffffff))
            kinds.append(["op0", "direct", "redeem"])
            opsl.append(ops)
        outs = [(1000, rng.randbytes(25))]
        raw = ser_tx(2, ins, outs, 0)
        ulen = len(ser_tx(2, [(a, b, b"\x00\x00" + ops[-1], d)
                              for (a, b, c, d), ops in zip(ins, opsl)], outs, 0))
        return raw, ins, outs, kinds, opsl, ulen
    ns = [want // nin] * nin
    for _ in range(12):
        raw, ins, outs, kinds, opsl, ulen = build(ns)
        have = len(raw) if total_len is not None else ulen
        if have == want:
            return {"raw": raw, "ins": ins, "outs": outs, "version": 2, "locktime": 0,
                    "kinds": kinds, "ops": opsl, "witness": False,
                    "edges": ["size-%d" % want], "unsigned_len": ulen}
        ns[-1] += want - have
        if ns[-1] < 80:
            return None
    return None
