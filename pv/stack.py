# Builds the real manager stacks from the repository, wired like mgr/runner.py
# does, over the fake transports.
import io
import json
import logging
import contextlib

from . import env
env.setup()

from .simdev.transport import Bus, HidPatch, TcpPatch, VirtualClock  # noqa: E402
from .simdev.device import SimDevice  # noqa: E402


class FixedPin:
    """pin object with the interface ledger.protocol uses (for checks that are
    not about the PIN file)."""

    def __init__(self, pin=b"1234567a"):
        self._pin = pin

    def get_pin(self):
        return self._pin

    def needs_change(self):
        return False


class _GoneClient(io.BytesIO):
    def write(self, data):
        raise ConnectionResetError(104, "Connection reset by peer")


class Stack:
    """platform: 'ledger' (HSM2Dongle over fake HID), 'sgx' (HSM2DongleSGX over
    fake socket), 'tcp' (HSM2DongleTCP over fake socket)."""
    _made = 0

    def __init__(self, device, version_one=False, pin=None, platform=None, iodebug=False,
                 loglevel=None):
        # loglevel: the manager always runs with logging configured (shipped logging.cfg:
        # everything down to DEBUG is formatted); "INFO" is a quieter operator's file.
        # Not given: every sixth manager of a process runs under WARNING and every sixth
        # under INFO (logging is process-wide: managers alive at that moment follow) -
        # what is logged is no part of what a manager does
        if loglevel is None:
            n = Stack._made
            Stack._made += 1
            loglevel = {3: "INFO", 5: "WARNING"}.get(n % 6, "DEBUG")
        env.logging_as_shipped(loglevel)
        # iodebug: the manager's -D / --iodebug option (low-level I/O traces; what the
        # transport prints goes to a sink)
        self.iodebug = iodebug
        self.device = device
        self.platform = platform or device.platform
        self.bus = Bus(device, VirtualClock())
        self.version_one = version_one
        self.pin = pin if pin is not None else FixedPin(device.pin)
        self._es = None
        self.protocol = None
        self.dongle = None

    def __enter__(self):
        from comm.platform import Platform
        import ledger.protocol as lp
        es = contextlib.ExitStack()
        self._es = es
        if self.platform == "ledger":
            es.enter_context(HidPatch(self.bus))
            from ledger.hsm2dongle import HSM2Dongle
            Platform.set(Platform.LEDGER)
            self.dongle = HSM2Dongle(self.iodebug)
        elif self.platform == "sgx":
            es.enter_context(TcpPatch(self.bus))
            from sgx.hsm2dongle import HSM2DongleSGX
            Platform.set(Platform.SGX)
            self.dongle = HSM2DongleSGX("simhost", 7777, self.iodebug)
        else:
            es.enter_context(TcpPatch(self.bus))
            from ledger.hsm2dongle_tcp import HSM2DongleTCP
            Platform.set(Platform.X86)
            self.dongle = HSM2DongleTCP("simhost", 8888, self.iodebug)
        # waiting for the app to open is pure delay
        self._saved_wait = lp.HSM2ProtocolLedger.OPEN_APP_WAIT
        lp.HSM2ProtocolLedger.OPEN_APP_WAIT = 0
        if self.version_one:
            from ledger.protocol_v1 import HSM1ProtocolLedger
            self.protocol = HSM1ProtocolLedger(self.pin, self.dongle)
        else:
            self.protocol = lp.HSM2ProtocolLedger(self.pin, self.dongle)
        if self.iodebug:
            es.enter_context(contextlib.redirect_stdout(io.StringIO()))
        return self

    def __exit__(self, *a):
        import ledger.protocol as lp
        lp.HSM2ProtocolLedger.OPEN_APP_WAIT = self._saved_wait
        self._es.close()
        return False

    # -- driving --------------------------------------------------------
    def initialize(self):
        return self.protocol.initialize_device()

    def handle_line(self, line, client_gone=False):
        """Feed one raw request line (bytes) through the real server-side
        handler.  Returns (output bytes, exception or None).  client_gone: the client
        has reset its connection by the time the reply is written."""
        from comm.server import _RequestHandler
        h = _RequestHandler(self.protocol, logging.getLogger("pv"))
        rf = io.BytesIO(line)
        wf = _GoneClient() if client_gone else io.BytesIO()
        exc = None
        try:
            h.handle("client", rf, wf)
        except BaseException as e:   # noqa: B902 - monitors must see everything
            if isinstance(e, (KeyboardInterrupt, SystemExit)):
                raise
            exc = e
        return wf.getvalue(), exc

    def request(self, obj, client_gone=False):
        out, exc = self.handle_line(json.dumps(obj).encode() + b"\n", client_gone)
        reply = None
        try:
            reply = json.loads(out.decode())
        except Exception:
            pass
        return reply, exc, out


def signer_device(**cfg):
    cfg.setdefault("mode", 0x03)
    return SimDevice(**cfg)
