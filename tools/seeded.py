#!/venv/bin/python
# Handling of seeded (deliberately property-breaking) changes kept under
# /verif/seeded/<name>/ : patch.diff, demo.py, meta.json.
#
#   tools/seeded.py import <name> <property> <worktree>   take a sub-agent's result
#   tools/seeded.py verify <name> [--tier quick] [--all-props]
#        applies the patch on a scratch worktree of /repo (never /repo itself), runs
#        the pinned test-suite, the demonstration with and without the change, and the
#        property's check against the changed tree; updates meta.json
#   tools/seeded.py table                                  summary of all seeded changes
import os
import re
import sys
import json
import shutil
import subprocess
import tempfile

VERIF = os.path.dirname(os.path.dirname(os.path.abspath(__file__)))
SEEDED = os.path.join(VERIF, "seeded")
PINNED = ["/venv/bin/python", "-m", "pytest", "-q", "-p", "no:cacheprovider", "--timeout=900",
          "--continue-on-collection-errors"]


def sh(cmd, cwd=None, env=None, timeout=1800):
    r = subprocess.run(cmd, cwd=cwd, env=env, capture_output=True, text=True, timeout=timeout)
    return r.returncode, r.stdout + r.stderr


def do_import(name, prop, wt):
    d = os.path.join(SEEDED, name)
    os.makedirs(d, exist_ok=True)
    rc, diff = sh(["git", "-C", wt, "diff", "--", "middleware"])
    if not diff.strip():
        print("no source change in", wt)
        return 1
    open(os.path.join(d, "patch.diff"), "w").write(diff)
    # kept as written; it is run from the root of a tree (it locates ./middleware
    # relative to itself or through the worktree path it was written in, which
    # `verify` rewrites)
    demo = open(os.path.join(wt, "seeded_demo.py")).read()
    open(os.path.join(d, "demo.py"), "w").write(demo)
    notes = ""
    np_ = os.path.join(wt, "SEEDED_NOTES.md")
    if os.path.exists(np_):
        notes = open(np_).read()
        open(os.path.join(d, "NOTES.md"), "w").write(notes.replace(wt, "/repo"))
    meta = {"name": name, "property": prop, "source": "independent sub-agent, given only the "
            "property text and a scratch worktree", "origin_worktree": wt,
            "how_to_run_demo": "copy demo.py to the root of a checkout of rsk-powhsm as "
            "seeded_demo.py (replacing the origin_worktree path inside it by that checkout if it "
            "occurs) and run it with /venv/bin/python: exit 1 with patch.diff applied, 0 without",
            "files": sorted(set(re.findall(
                r"^\+\+\+ b/(\S+)", diff, flags=re.M))), "needs_to_manifest": "",
            "verified": {}}
    mp = os.path.join(d, "meta.json")
    if os.path.exists(mp):
        old = json.load(open(mp))
        meta["needs_to_manifest"] = old.get("needs_to_manifest", "")
    json.dump(meta, open(mp, "w"), indent=1)
    print("imported", name, "files:", meta["files"])
    return 0


def scratch_tree():
    tmp = tempfile.mkdtemp(prefix="pv-seed-")
    os.rmdir(tmp)
    rc, out = sh(["git", "-C", "/repo", "worktree", "add", "--detach", tmp, "HEAD"])
    if rc != 0:
        raise RuntimeError(out)
    return tmp


def drop_tree(tmp):
    sh(["git", "-C", "/repo", "worktree", "remove", "--force", tmp])
    shutil.rmtree(tmp, ignore_errors=True)
    sh(["git", "-C", "/repo", "worktree", "prune"])


def do_sweep(name, seeds, tier="quick"):
    """checks only (no demo / pinned suite), over several VERIF_SEED values: how robustly
    is the change caught? Results go to meta.json 'seed_sweep'."""
    d = os.path.join(SEEDED, name)
    meta = json.load(open(os.path.join(d, "meta.json")))
    tmp = scratch_tree()
    out = {}
    try:
        rc, o = sh(["git", "-C", tmp, "apply", os.path.join(d, "patch.diff")])
        if rc != 0:
            print("patch does not apply:", o)
            return 1
        p = meta["property"]
        for sd in seeds:
            e2 = dict(os.environ, VERIF_REPO=tmp, VERIF_SEED=str(sd),
                      VERIF_SCRATCH_OUT=os.path.join(tmp, ".pv-out"))
            rc, o = sh([os.path.join(VERIF, "check"), p, "--tier", tier], env=e2, timeout=7200)
            out[str(sd)] = rc
    finally:
        drop_tree(tmp)
    meta.setdefault("verified", {})["seed_sweep_%s" % tier] = out
    json.dump(meta, open(os.path.join(d, "meta.json"), "w"), indent=1)
    print("%-14s %s exits by seed: %s" % (name, meta["property"], out))
    return 0


def do_verify(name, tier="quick", all_props=False, props=None):
    d = os.path.join(SEEDED, name)
    meta = json.load(open(os.path.join(d, "meta.json")))
    tmp = scratch_tree()
    res = {}
    try:
        envd = dict(os.environ, PYTHONDONTWRITEBYTECODE="1")
        demo_path = os.path.join(tmp, "seeded_demo.py")
        txt = open(os.path.join(d, "demo.py")).read()
        if meta.get("origin_worktree"):
            txt = txt.replace(meta["origin_worktree"], tmp)
        open(demo_path, "w").write(txt)
        rc0, out0 = sh(["/venv/bin/python", demo_path], env=envd, timeout=600)
        res["demo_without_change_exit"] = rc0
        rc, out = sh(["git", "-C", tmp, "apply", os.path.join(d, "patch.diff")])
        if rc != 0:
            print("patch does not apply:", out)
            return 1
        rc1, out1 = sh(["/venv/bin/python", demo_path], env=envd, timeout=600)
        res["demo_with_change_exit"] = rc1
        res["demo_with_change_tail"] = out1.strip().splitlines()[-3:]
        os.unlink(demo_path)
        rc, out = sh(PINNED, cwd=tmp, env=envd)
        m = re.search(r"(\d+) passed(?:, (\d+) errors)?", out)
        res["pinned_tests"] = m.group(0) if m else out[-200:]
        checks = {}
        todo = props or ([meta["property"]] if not all_props else
                         ["C%02d" % i for i in range(1, 20)])
        for p in todo:
            e2 = dict(os.environ, VERIF_REPO=tmp, VERIF_SCRATCH_OUT=os.path.join(tmp, ".pv-out"))
            rc, out = sh([os.path.join(VERIF, "check"), p, "--tier", tier], env=e2, timeout=7200)
            mech = [ln.strip()[len("mechanism: "):] for ln in out.splitlines()
                    if ln.strip().startswith("mechanism:")]
            checks[p] = {"exit": rc, "mechanisms": mech[:4]}
        res["checks_%s" % tier] = checks
    finally:
        drop_tree(tmp)
    ok = (res["demo_without_change_exit"] == 0 and res["demo_with_change_exit"] != 0 and
          str(res["pinned_tests"]).startswith("468 passed"))
    res["confirmed"] = ok
    caught = [p for p, c in res["checks_%s" % tier].items() if c["exit"] == 1]
    res["caught_by"] = caught
    meta["verified"].update(res)
    meta["what_i_ran"] = ("scratch worktree of /repo HEAD + patch.diff: demo.py without/with the "
                          "change, the pinned pytest command, ./check <property> --tier %s with "
                          "VERIF_REPO=<scratch>" % tier)
    json.dump(meta, open(os.path.join(d, "meta.json"), "w"), indent=1)
    print("%s: confirmed=%s pinned=%s demo(without/with)=%s/%s caught_by=%s" % (
        name, ok, res["pinned_tests"], res["demo_without_change_exit"],
        res["demo_with_change_exit"], caught))
    for p, c in res["checks_%s" % tier].items():
        print("   ", p, "exit", c["exit"], c["mechanisms"][:2])
    return 0


def table():
    for name in sorted(os.listdir(SEEDED)):
        mp = os.path.join(SEEDED, name, "meta.json")
        if not os.path.exists(mp):
            continue
        m = json.load(open(mp))
        v = m.get("verified", {})
        print("%-22s %-4s confirmed=%-5s caught_by=%s" % (name, m["property"], v.get("confirmed"),
                                                         v.get("caught_by")))


if __name__ == "__main__":
    a = sys.argv[1:]
    if a[0] == "import":
        sys.exit(do_import(a[1], a[2], a[3]))
    if a[0] == "verify":
        tier = a[a.index("--tier") + 1] if "--tier" in a else "quick"
        props = a[a.index("--props") + 1].split(",") if "--props" in a else None
        sys.exit(do_verify(a[1], tier, "--all-props" in a, props))
    if a[0] == "sweep":
        seeds = [int(x) for x in a[a.index("--seeds") + 1].split(",")] if "--seeds" in a \
            else [1, 2, 3, 4, 5]
        sys.exit(do_sweep(a[1], seeds))
    if a[0] == "sweepall":
        # every kept change, `jobs` at a time; prints only those not caught on every seed
        import concurrent.futures as cf
        seeds = a[a.index("--seeds") + 1] if "--seeds" in a else "1,2,3"
        jobs = int(a[a.index("--jobs") + 1]) if "--jobs" in a else 3
        names = sorted(n for n in os.listdir(SEEDED)
                       if os.path.exists(os.path.join(SEEDED, n, "meta.json")))

        def one(n):
            rc, out = sh([sys.executable, os.path.abspath(__file__), "sweep", n, "--seeds",
                          seeds], timeout=14400)
            return n, [ln for ln in out.splitlines() if "exits by seed" in ln]
        bad = 0
        with cf.ThreadPoolExecutor(jobs) as ex:
            for n, lines in ex.map(one, names):
                ln = lines[-1] if lines else n + ": no result"
                if ": 0" in ln or ": 2" in ln or not lines:
                    bad += 1
                    print("NOT CAUGHT ON EVERY SEED:", ln, flush=True)
        print("%d changes swept, %d not caught on every seed" % (len(names), bad))
        sys.exit(0)
    if a[0] == "table":
        table()
