#!/usr/bin/env python3
# Regenerates MANIFEST.json from the table below + properties.jsonl, so that the
# manifest is always schema-valid and every unclaimed property is listed under
# not_applicable with a reason.
import json
import os

HERE = os.path.dirname(os.path.dirname(os.path.abspath(__file__)))

# property id -> (level, technique, level text, level note, design ref)
CLAIMS = {}


def claim(pid, level, technique, text, note, ref):
    CLAIMS[pid] = (level, technique, text, note, ref)


TRUST_STACK = ("Trusted: the simulated device and fake HID/TCP transports in pv/simdev (written from "
               "the firmware sources), the bitcoin.core shim in pv/shims (python-bitcoinlib is "
               "absent), CPython 3.12 and ledgerblue 0.1.58 as installed. Held = on the executions "
               "observed in this run, not for all inputs.")

claim("C14", "exploration",
      "runtime monitor: independent parser/tokenizer oracle over generated transactions, "
      "pair and idempotence monitors, device-side reassembly check",
      "Runs the real comm.bitcoin.get_unsigned_tx (and the real server->protocol->APDU stack "
      "for a subset) on thousands of generated transactions per run and compares every output "
      "field by field with an independent byte-level oracle; checks signature-independence on "
      "generated pairs, idempotence byte for byte, and -102 + silent device on every malformed "
      "class. Exploration is the right level: the input space is unbounded and the property is "
      "a per-input input/output relation with a cheap exact oracle.",
      TRUST_STACK, "DESIGN.md 4 C14")

claim("C01", "exploration",
      "runtime monitor: device-side reassembly of every stream compared with an independent "
      "oracle over generated requests x chunk policies x hostile stop rules",
      "Runs generated sign requests through the real server->protocol->APDU->ledgerblue stack "
      "against a simulated device that records every chunk it is given; an oracle computed from "
      "the request alone (own path encoder, own tx tokenizer, own varint/LE encoders) decides "
      "whether each reassembled stream is exact and whether the reply's success and r/s agree "
      "with what the device reported. Exploration: inputs x device policies are unbounded; "
      "boundaries (255x255 proofs, 2^32-1 index, 2^64-1 outpoint, varint 252/253, PUSHDATA "
      "forms) are generated deliberately.",
      TRUST_STACK, "DESIGN.md 4 C01")

claim("C04", "fault_enumeration",
      "fault injection at every exchange index x status word / time-out / link error / bad "
      "opcode, with reply-code oracles parsed from docs/protocol.md and firmware headers",
      "Enumerates (request shape x exchange step x outcome) cells on fresh stacks: quick covers "
      "every status word named in the firmware headers plus range edges and seeded random "
      "ones, thorough all 65536 per step. Each cell's reply is checked against the documented "
      "code set, the success rule, the exact code of named causes (at steps where the firmware "
      "source can raise them) and the no-shutdown rule for the device error range.",
      TRUST_STACK + " One fault per request. The firmware-error -> documented-cause table is a "
      "reading of the enum comments.", "DESIGN.md 4 C04")

claim("C05", "exploration",
      "runtime monitor: blocks, metadata and brother lists reassembled by the simulated device "
      "compared with values known by construction (own RLP, Keccak-256, SHA-256 midstate)",
      "Generated advanceBlockchain/updateAncestorBlock requests are relayed by the real stack to "
      "a device that records count, per-block metadata, header bytes and brothers; expected "
      "values come from the generator's field lists and full coinbase transactions, hashed with "
      "independent implementations. Device policies vary chunk sizes, brother requests, early/"
      "partial stops.",
      TRUST_STACK, "DESIGN.md 4 C05")

claim("C13", "exploration",
      "runtime monitor: field-by-field comparison of replies with random simulated device state, "
      "selectors parsed from firmware headers; mode-transition scenarios for uiHeartbeat",
      "Random device states are queried through the real stack (HID, SGX and TCP variants) and "
      "every documented reply field is compared with the datum the device holds for the "
      "firmware selector of that field; uiHeartbeat is run over normal and abnormal app-switch "
      "transitions and must end in signer mode or answer -905.",
      TRUST_STACK, "DESIGN.md 4 C13")

claim("C09", "exploration",
      "configuration enumeration of simulated device states through the real initialize_device "
      "/ TCPServer.run, APDU-log monitor vs a reference decision function",
      "Enumerates device configurations (quick: seeded sample + full version grids; thorough: "
      "full product of the reduced grid) on all three platforms, counts PIN/unlock APDUs on the "
      "transport log and compares 'unlock sent' and 'served' with a 20-line reference written "
      "from the property statement; a sample runs through the real TCPServer on a socket.",
      TRUST_STACK, "DESIGN.md 4 C09")

claim("C10", "fault_enumeration",
      "history monitor over device + file events on one logical clock; fault injection at every "
      "change-phase exchange, file-system failures, real process crashes in child processes; "
      "scripted-entropy and contract checks on generate_pin",
      "Every change-phase exchange index x outcome, every file operation failure and every "
      "crash boundary is enumerated for Ledger and SGX and followed by restarts; invariants "
      "I1-I5 of DESIGN.md are checked on the recorded history. The ack-to-durable-file window "
      "is a recorded known finding (7 mechanisms); any other loss of the PIN is a violation.",
      TRUST_STACK + " Crash points are event boundaries visible to the harness.",
      "DESIGN.md 4 C10")

claim("C11", "fault_enumeration",
      "link-fault injection at every exchange index + transport-event order monitor on the "
      "follow-up request (close, enumerate/open, bring-up, command)",
      "For every command shape and exchange index a write error, read error or time-out is "
      "injected over the fake HID; the faulted reply and the ordered transport events of the "
      "follow-up request(s) are checked, with the reconnection failing 0..3 times, the device "
      "found rebooted, and a second fault during the repair.",
      TRUST_STACK, "DESIGN.md 4 C11")

claim("C02", "exploration",
      "runtime monitor: set-valued reference classifier transcribed from docs/protocol*.md vs "
      "the real handler's verdict over a request grid; APDU-log emptiness for refused requests",
      "Sends a grid of tens of thousands of JSON requests (every field x ~30 deviation values, "
      "structural variants, all pairs for sign, random multi-deviations, both modes) through the "
      "real handler to a manager whose simulated device accepts everything and checks that the "
      "verdict lies in the set the documents allow and that refused requests never touched the "
      "device. Three late-validation cases are recorded known findings.",
      TRUST_STACK + " The classifier is a reading of the documents; ambiguous inputs are only "
      "required not to crash.", "DESIGN.md 4 C02")

claim("C03", "exploration",
      "hostile-input workload (raw bytes, JSON-grammar, structure-aware conversions, shuffled "
      "sequences, live sockets) with a one-line/int-errorcode/no-exception oracle and a "
      "sys.monitoring step budget",
      "Feeds tens of thousands of hostile request lines per run through the real handler over "
      "one manager lifetime with production-like logging, plus a live TCPServer with a probe "
      "after every line; any exception leaving the handler, any reply that is not exactly one "
      "JSON object line with an int errorcode, or a step-budget overrun is a violation, keyed "
      "by exception type and innermost repository frame.",
      TRUST_STACK + " Device keeps to its protocol. Lines up to 1 MiB (quick) / 16 MiB.",
      "DESIGN.md 4 C03")

claim("C12", "exploration",
      "history checker over client call/return, handle_request begin/end and APDU events from a "
      "live multi-client run with injected device delays; in-flight counter under the bus lock",
      "Real sockets, real TCPServer thread, 2..16 client threads and random 0..2 ms delays inside "
      "every device exchange; the recorded history must show non-overlapping request intervals "
      "with contiguous APDU blocks, an in-flight counter of at most 1, and replies carrying the "
      "per-exchange random data of their own request only. Evidence reports the pending-overlap "
      "pairs and distinct service orders actually observed.",
      TRUST_STACK + " Schedules are whatever the OS produces under the injected delays.",
      "DESIGN.md 4 C12")

TRUST_CERT = ("Trusted: the certificate generators (pv/gen/certv1.py, certv2.py) and the independent "
              "verifiers (pv/oracle/certv1.py, certv2.py); third-party crypto used crosswise "
              "(ecdsa, cryptography/OpenSSL, libsecp256k1). Held = on the certificates generated "
              "in this run.")

claim("C06", "exploration",
      "runtime monitor: independent verifier (own secp256k1 arithmetic + OpenSSL ECDSA) vs the "
      "real loader/validator over generated certificates and single-point corruptions",
      "Thousands of genuine version-1 certificates over random element graphs and every class of "
      "single-point corruption are loaded and validated by the real code; the result map "
      "(validity, value, tweak, first failing element) is compared with an independent "
      "verifier, one-directionally where libsecp256k1 is stricter (high-S, lax DER); pairing "
      "runs check that a target's verdict ignores elements off its path.",
      TRUST_CERT, "DESIGN.md 4 C06")

claim("C07", "exploration",
      "runtime monitor: crosswise-library verifier with numeric struct offsets vs the real "
      "version-2 validator over generated X.509 chains / quotes and corruptions",
      "Fresh P-256 X.509 chains (depth 1..3, valid/expired/future), attestation keys, QE report "
      "bodies and quotes are generated with all private keys in hand; genuine material must be "
      "accepted with exactly the signed custom message and quote fields, and 30 corruption "
      "classes (byte flips anywhere, 31-of-32-byte bindings, re-parenting, foreign keys and "
      "curves, attacker branch under a non-X.509 element, wrong root) must be refused naming "
      "the first failing element.",
      TRUST_CERT + " X.509 parsing is shared with the code (cryptography).", "DESIGN.md 4 C07")

claim("C16", "exploration",
      "hostile-document workload under a sys.monitoring step budget with an independent graph "
      "walk, per-target verdict and save/load round-trip monitors",
      "Mutated genuine certificates (so that valid chains exist) and synthetic documents are "
      "loaded under a logical step budget; loaded certificates must have a finite cycle-free "
      "path per target by an independent walk, validate without raising with a verdict per "
      "target, and keep verdicts and values across save/load.",
      TRUST_CERT, "DESIGN.md 4 C16")

TRUST_ADM = ("Trusted: the genuine-device models (pv/simdev/genuine.py: endorsement scheme two, UI / "
             "signer attestation dialogues, dashboard key dialogue, quote envelope), the fake "
             "transports, scripted operator input, and the crypto libraries used crosswise as "
             "oracles. Held = on the executions of this run.")

claim("C08", "exploration",
      "runtime monitor: by-construction oracle (genuine vs 50 variant classes of triples) on the "
      "real verify_attestation commands, plus stdout-value comparison",
      "For Ledger and SGX the real do_verify_attestation is run on genuine (attestation file, "
      "public-keys file, root) triples over fresh keys and on variants that each break exactly "
      "one conjunct of the statement (keys, path names, message lengths, headers, targets, UI "
      "key, root, chain); it must return normally exactly for the genuine ones, and every value "
      "it prints is compared with what the generator put at the documented offset.",
      TRUST_ADM, "DESIGN.md 4 C08")

claim("C15", "exploration",
      "end-to-end runs of the real gathering and verifying commands against simulated genuine "
      "devices, with single-point alterations injected into the devices' answers",
      "The real do_onboard / do_attestation / do_get_pubkeys / do_verify_attestation (Ledger) and "
      "sgx do_attestation / do_get_pubkeys / do_verify_attestation are chained on the files they "
      "write, over fresh keys, page sizes, framings and envelope shapes; genuine runs must verify "
      "and print the device's values, and each of ~30 single-point alterations (device answers, "
      "files between steps, root) must make some step raise.",
      TRUST_ADM, "DESIGN.md 4 C15")

claim("C17", "exploration",
      "runtime monitor: independent Keccak/EIP-191 computation, OpenSSL verification of produced "
      "signatures, round-trip and refusal checks, APDU-log oracle for the authorize dialogue",
      "SignerVersion / signapp (in-process) / SignerAuthorization / do_authorize_signer are run "
      "over random hashes, boundary and malformed iterations, 0..10 signatures and device "
      "thresholds; text, wrapping and digest are recomputed independently, produced signatures "
      "verified with another library, and the exact APDU sequence seen by the simulated UI is "
      "compared with the documented one.",
      TRUST_ADM, "DESIGN.md 4 C17")

claim("C18", "exploration",
      "configuration grid over device state x operator input through the real admin commands; "
      "APDU-log, os.urandom and file monitors vs precondition predicates (both directions)",
      "Every cell of command x mode x onboarded x echo x platform x PIN kind/source x any-pin x "
      "operator answer x flags (thorough: all ~12k, quick: all carried-out cells + a seeded "
      "sample) runs on a fresh simulated device; destructive / PIN APDUs must appear only "
      "under the statement's preconditions and must appear when they hold, the seed must be a "
      "fresh os.urandom output, PINs policy-compliant unless any-pin, key files exact.",
      TRUST_ADM, "DESIGN.md 4 C18")

claim("C19", "exploration",
      "runtime monitor: own Intel-HEX writer with by-construction hash oracle; OpenSSL "
      "verification of produced signatures; audit-hook file monitor and key-capture wrapper",
      "Images are written from generated area lists in two different record layouts; the real "
      "compute_app_hash / `signapp hash` must give SHA-256 over the areas in address order for "
      "both. signonetime.main() runs in-process: signatures verified with another library "
      "against the written public key, sys.addaudithook lists every file opened for writing, the "
      "generated key (captured by wrapping SigningKey.generate) must appear in no written file "
      "and differ between runs.",
      TRUST_ADM, "DESIGN.md 4 C19")


def main():
    props = [json.loads(l) for l in open(os.path.join(HERE, "properties.jsonl"))]
    checks = []
    na = []
    for p in props:
        pid = p["id"]
        if pid in CLAIMS:
            level, tech, text, note, ref = CLAIMS[pid]
            checks.append({
                "property_id": pid,
                "quick_cmd": "./check %s --tier quick" % pid,
                "thorough_cmd": "./check %s --tier thorough" % pid,
                "evidence_file": "/verif/evidence/%s.json" % pid,
                "replay_cmd_template": "./check %s --replay {path}" % pid,
                "engine": "pv",
                "level_claimed": {"category": level, "text": text, "design_ref": ref},
                "level_note": note,
                "technique": tech,
            })
        else:
            na.append({"property_id": pid,
                       "reason": "check not built yet in this round; runtime monitoring applies "
                                 "(see DESIGN.md section 4), nothing is claimed until the monitor "
                                 "exists and has been validated"})
    m = {
        "version": 1,
        "setup_cmd": "sh tools/setup.sh",
        "hooks": {
            "guard": "RSK_POWHSM_VERIF",
            "enable": "no source hooks are needed: every observation point is a process "
                      "boundary or a module attribute patched from the harness (DESIGN.md 3.6)",
            "baseline_off_cmd": "cd /repo && /venv/bin/python -m pytest -ra -q -p no:cacheprovider "
                                "--timeout=900 --continue-on-collection-errors",
            "source_commits": [],
            "add_only": True,
        },
        "engines": [{
            "name": "pv",
            "path": "/verif/pv",
            "serves_properties": sorted(CLAIMS),
            "kind_free_text": "runtime monitoring harness: real middleware modules from /repo "
                              "driven over fake HID/TCP transports against a simulated device; "
                              "monitors/oracles over recorded events; sharded over subprocesses",
        }],
        "checks": checks,
        "not_applicable": na,
        "notes": "All checks are runtime monitors over executions of the real code (DESIGN.md). "
                 "Exit 0 held / 1 VIOLATION / 2 INCONCLUSIVE. known_findings.json lists genuine "
                 "defects recorded rather than repaired.",
    }
    with open(os.path.join(HERE, "MANIFEST.json"), "w") as f:
        json.dump(m, f, indent=1)
    print("MANIFEST.json: %d checks, %d not_applicable" % (len(checks), len(na)))


if __name__ == "__main__":
    main()
