#!/usr/bin/env python3
# validate MANIFEST.json and evidence/*.json against the schemas (run with python3-vt)
import json, sys, glob, os
import jsonschema
here = os.path.dirname(os.path.dirname(os.path.abspath(__file__)))
ok = True
m = json.load(open(os.path.join(here, "MANIFEST.json")))
try:
    jsonschema.validate(m, json.load(open("/root/.vp/MANIFEST.schema.json")))
    print("MANIFEST ok: %d checks, %d n/a" % (len(m["checks"]), len(m.get("not_applicable", []))))
except Exception as e:
    ok = False
    print("MANIFEST INVALID:", e)
es = json.load(open("/root/.vp/EVIDENCE.schema.json"))
for f in sorted(glob.glob(os.path.join(here, "evidence", "*.json"))):
    try:
        jsonschema.validate(json.load(open(f)), es)
        print("ok", os.path.basename(f))
    except Exception as e:
        ok = False
        print("INVALID", f, str(e)[:300])
sys.exit(0 if ok else 1)
