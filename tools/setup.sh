#!/bin/sh
# MANIFEST.setup_cmd: offline. Installs the runtime-contract libraries beside the
# repository's interpreter (optional: the checks fall back to plain wrappers) and
# verifies that the repository's modules import over the bitcoin.core shim.
cd "$(dirname "$0")/.." || exit 1
export PIP_NO_INDEX=1 PYTHONDONTWRITEBYTECODE=1
if [ ! -d .deps/icontract ]; then
  /venv/bin/pip install --quiet --no-index --find-links /opt/veriftools/wheels \
      --target .deps icontract deal >/dev/null 2>&1 || echo "setup: icontract/deal not installed (fallback wrappers will be used)"
fi
/venv/bin/python - <<'PY' || exit 1
import sys
sys.path.insert(0, ".")
from pv import env
env.setup()
import ledger.protocol, ledger.hsm2dongle, comm.server, admin.certificate  # noqa
print("setup: repository modules import over the shim: ok")
PY
exit 0
