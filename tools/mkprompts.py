#!/venv/bin/python
# Writes the instructions for one round of independent fault seeders (sub-agents that see
# only the text of a property and their own scratch worktree, nothing of /verif):
#   tools/mkprompts.py <round> <outdir>      -> <outdir>/prompt_Cxx.txt, worktree /tmp/w<round>-Cxx
# The "already taken" list is built from the kept changes' meta.json (place + trigger only).
import os
import sys
import json
import glob

VERIF = os.path.dirname(os.path.dirname(os.path.abspath(__file__)))

VARIES = (
    "boundary lengths and counts of every encoding (RLP, varint, DER, chunk sizes), repeated and "
    "re-ordered requests, the same data sent again in another role, histories of state-changing "
    "operations, pending reconnections and faults (write/read error, time-out, late answer) at every "
    "exchange, flapping links and long outages, device answers of every well-formed shape (short "
    "signatures, data that looks like status words or padding), every status word at every step, "
    "early/partial/total success at any block, shifted clocks, time zones, python -O, unicode "
    "look-alike characters and blanks inside hex strings, duplicate/extra targets and repeated "
    "validation of certificate objects, operator input scripts with several refused attempts, file "
    "and directory names with blanks and glob/shell/format metacharacters, repeated tool runs in the "
    "same directory, Ledger/SGX/TCP transports, concurrent and slow clients over IPv4 and IPv6 "
    "loopback, the tools' own command lines (argument parsers, defaults, dispatch tables) and the "
    "manager scripts' own option parsing (-X, PIN file), the --iodebug option, logging configured "
    "exactly as the shipped logging.cfg (DEBUG), request lines of tens of MiB, every JSON nesting "
    "depth, strings built to make regular expressions backtrack, hostile compressed-coinbase fields, "
    "all-zero / 0xff data areas, elements replaced inside certificate objects between validations, "
    "certificates embedding their own root, certifier keys with extra bytes, keys whose coordinates "
    "begin with 0x04/0x02/0x03/0x00, roots of trust fetched from URLs that change content, "
    "certificate files just below round sizes (1 KiB..4 MiB), devices that come back in another mode "
    "after a heartbeat, background activity up to 20 s after a failed or partial operation, the "
    "manager started through its real entry point in its own process with clients that hang up / "
    "reset / send half a line (also exactly when a PIN change or a stop is due), another command "
    "served first by the same manager, devices that over-ask for data many times, a failed exchange "
    "in the middle of a dialogue followed by the next request, a transport whose close() raises, "
    "twelve kinds of wrong echo, in-place output files, blank entries in lists, upper-case and "
    "blank-separated hex, requests refused at every stage followed by a good request on the same "
    "manager, fields of other commands added to a request, multi-byte characters across every "
    "byte offset of long lines, well-formed device answers carrying another opcode of the command "
    "at every step, signatures of every total DER length (incl. exactly 64 bytes), the clock moving "
    "between two validations in one process, certificates issued with Ed25519/RSA/P-384 keys, PIN "
    "files that are symbolic links, a link failure right after a time-out, a fatal request while "
    "other clients are queued, slow (not late) devices answering after 1..9 s, a second operator "
    "grabbing the device while the first is at a prompt, long option names and -v/--verbose, "
    "transactions of exactly chosen sizes (around 2^16, 2^17, 2^24 bytes), hashes/digests with "
    "leading or trailing zero bytes, compressed coinbases claiming up to 2^60 hashed bytes, "
    "certificates valid until year 9999, PIN paths through symlinked directories, scratch files on "
    "another file system than the temp directory, link failures by power cycle, quiet periods of "
    "up to a day (the clock the middleware reads is jumped) followed by version requests, "
    "non-finite JSON numbers, other spellings of signatures, another device found after a "
    "re-connection in the middle of a tool run, both heartbeat kinds on one manager, status words "
    "and faults inside the bring-up of a reconnection, legacy (--version-one) mode in every "
    "scenario, the manager and tools run as an unprivileged user, block operations cut short "
    "before a sign, PINs with repeated characters, string values with their first or last "
    "characters repeated, JSON members the formats do not define, certificates with unknown "
    "signature algorithm identifiers, elements extended without re-signing, non-zero timestamps, "
    "file names that read like data (64 hex digits, numbers), regenerated authorization files, "
    "process-wide socket defaults, coinbase byte counts overflowing 64 bits, JSON members under "
    "near-miss names, every generic check also on the SGX and TCPSigner platforms, the same "
    "refusal ten times in a row, state queries before block operations, all-zero tweaks and "
    "untweaked-key signatures, several targets with failing branches in any order, version "
    "numbers with two- and three-digit components, every command as the one that runs into a "
    "reconnection, requests ending in a manager stop after others were served, SIGTERM while an "
    "exchange is in flight, device chunk requests of every size in every relay, certificate "
    "headers that begin like the bytes around them, more than ten signatures, image paths "
    "through symlinked directories, several onboardings in one process, clients that half-close "
    "or hang up while queued or while being served, brothers whose hashes share a prefix, the same "
    "header twice in one request, optional members that are null / empty / zero, certificates whose "
    "issuer names are not their certifiers' names, members naming a part of a signed message, a "
    "device whose signer does not come up after the unlock of a reconnection, file names as long "
    "as the file system allows, directories the manager's user cannot write to, heartbeat values "
    "that are successive counters, tool runs that are turned down when their output file already "
    "exists, objects used on after they refused an input, device queries failing with a status "
    "word at every admin-tool step, images that are links to one another, repeated targets, "
    "certificate chains ending in keys of other curves, failed or successful heartbeats before "
    "any other request, transactions that are near copies of the previous one, devices of every "
    "network (mainnet / testnet / regtest), devices that answer after minutes over the TCP "
    "transports, devices that cut block headers short, the same manager serving ancestor updates "
    "and advances in any order, one certificate object validated with several roots, PEM bodies "
    "of every ending, the operator's process environment (COLUMNS, LINES, TERM, LANG, LC_ALL, "
    "HOME), the PIN file handled by somebody else while the manager runs, quiet periods before "
    "a link failure (monotonic clock too), legacy-mode managers under concurrency, a device "
    "stuck in the bootloader after a heartbeat, signer iterations over the whole 16-bit range, "
    "NaN / Infinity as names, private keys given with 0x prefixes or with zero digits at an "
    "end, empty strings as option values, one-time keys with zero-leading coordinates, "
    "repeated entries in every list (proof nodes, brothers, blocks, targets, signatures, "
    "images), JSON objects that repeat a member name, documents handed over as the same dict "
    "several times, images read through pipes, names that spell a reserved name in another "
    "case, late answers at the first exchanges of every admin command, attestation keys off "
    "the curve with constructed signatures, hashes equal only in their first or last bytes, "
    "compact sizes written the long way, a second attestation from a complete attestation "
    "file, the SGX platform under concurrency with the manager's own timers sped up, a device "
    "refusal right before a link failure, faults at every exchange of a repair through the "
    "bootloader, headers of 64 KiB / 1 MiB / 16 MiB, the Ethereum app of `signapp eth` honest "
    "and dishonest, every command once on every platform, version bytes of 128 and more, "
    "status words over every transport, RLP strings where lists are expected, repairs on SGX "
    "that go through the unlock dialogue with error statuses at its exchanges, names that are "
    "substrings / case variants of reserved names, certificates with CA=FALSE or no basic "
    "constraints, operator key files in hybrid notation, TCP peers that close after taking a "
    "command, two PIN retries left, SIGTERM with clients queued, devices answering a query "
    "with another item's well-formed answer, special-looking outpoints, data of little variety "
    "(repeated bytes, identical areas, identical pages), targets and names of mixed JSON types, "
    "hashes with tabs and newlines, output files written over longer stale ones, input "
    "sequence numbers, key id elements of thousands of digits, unknown opcodes whose bits "
    "resemble a success opcode, midstates equal to SHA-256's initial state, certifier keys "
    "sharing an x coordinate, chains of up to 17 certificates, extra keys under other spellings "
    "of a path, heartbeats after which the device is locked in the bootloader (unsafe device, "
    "PIN change pending), silences of a day inside an outage, managers that served thousands of "
    "requests, devices off the bus for several attempts, -u together with a PIN, secrets in "
    "environment variables (PIN, PASSWORD), directories named ~, last pushes over 520 bytes, "
    "0x / 0X prefixes on every hex field (each on a fresh manager), requests of 10 001 and "
    "65 535 blocks, tweaks whose derived scalar begins with zero bytes, certificate keys of "
    "another curve sharing coordinates with a P-256 key, the same key asked before and after "
    "a heartbeat that found another device, UI exit exchanges ending in errors / time-outs / "
    "answers, authorizations saved twice and to other paths, PINs with the characters "
    "between Z and a, devices asking for a mebibyte one byte at a time (2^20 exchanges), "
    "logging configured at INFO / WARNING / CRITICAL, two managers on different devices in "
    "one process, headers sharing a block hash but not a coinbase, certificate elements "
    "re-parented inside an object, X25519 / X448 certificate keys, altered size fields of "
    "SGX envelopes, firmware images with areas on both sides of 2^31, late answers inside "
    "the PIN change dialogue, the same PIN / hash / path used twice in one process under "
    "different options, members of JSON objects in any order, X.509 chains signed with SHA-384 / "
    "SHA-512, device answers with bytes beyond those the middleware reads, script-sigs of up "
    "to 1001 operations, 66..257 clients queued behind a slow request, the current PIN given "
    "again as the new one, firmware status words inside the bring-up of a repair, "
    "certificates that expired seconds ago")

IDEAS = (
    "a code path only reached through a rarely used command-line option, environment variable or "
    "configuration value; behaviour that depends on dict/list ordering or on sorting keys; "
    "integer/bytes conversions with sign or endianness edge cases; off-by-one in paging/offset "
    "arithmetic for multi-page messages; a default argument or class attribute shared between "
    "instances (mutable default); exception types raised by helpers the caller does not expect; "
    "resource handling (file left open/truncated, partial write, wrong mode, permissions); equality vs "
    "identity; string vs bytes; locale/encoding of files; an early return that skips cleanup (e.g. "
    "leaving the device in another mode); a condition that only matters on the second device/instance "
    "created in the same process; numeric limits (counters that wrap, values >= 2^31 / 2^32 / 2^63); "
    "interaction of two options or of two consecutive different commands; behaviour after exactly N "
    "repetitions; the legacy (version 1) protocol mode; the less used platform (SGX / TCPSigner)")


def main():
    rnd, outdir = sys.argv[1], sys.argv[2]
    os.makedirs(outdir, exist_ok=True)
    props = [json.loads(ln) for ln in open(os.path.join(VERIF, "properties.jsonl"))]
    taken = {}
    for mp in sorted(glob.glob(os.path.join(VERIF, "seeded", "*", "meta.json"))):
        m = json.load(open(mp))
        if m.get("needs_to_manifest"):
            taken.setdefault(m["property"], []).append(
                " - in %s; trigger: %s" % (", ".join(m["files"]), m["needs_to_manifest"]))
    for p in props:
        pid = p["id"]
        wt = "/tmp/w%s-%s" % (rnd, pid)
        files = ", ".join(p["anchors"]["files"])
        txt = TEMPLATE.format(wt=wt, pid=pid, title=p["title"], statement=p["statement"],
                              quant=p["quantifier"]["text"], files=files,
                              taken="\n".join(taken.get(pid, [" (none)"])), varies=VARIES,
                              ideas=IDEAS)
        open(os.path.join(outdir, "prompt_%s.txt" % pid), "w").write(txt)
    print("wrote", len(props), "prompts to", outdir)


TEMPLATE = """You are helping evaluate a verification harness by acting as an independent "fault seeder" for the open-source project rsksmart/rsk-powhsm (Python middleware for the powHSM hardware security module). You work ONLY inside your own scratch git worktree of the repository at: {wt}   (the Python code is under {wt}/middleware). Do not touch /repo or /verif, and do not read anything under /verif.

THE PROPERTY you must break (semantic property the real code is supposed to satisfy):
-----
ID: {pid}
TITLE: {title}

STATEMENT: {statement}

QUANTIFIED OVER: {quant}

RELEVANT SOURCE FILES: {files}
-----

ALREADY TAKEN (other seeders have already produced changes with the following triggers for this property; yours must be in a DIFFERENT place and use a DIFFERENT mechanism and trigger):
{taken}

Think like an adversarial reviewer of a test harness. The harness that will be evaluated drives the real middleware against simulated devices and already varies, among other things: {varies}. Find something it plausibly still does NOT exercise. Ideas (not exhaustive): {ideas}.

YOUR TASK: make ONE small, realistic source change (a plausible developer mistake, an "improvement" with an unintended consequence, or a subtle refactoring slip, typically 1-10 changed lines, in one or two cooperating places) under {wt}/middleware (NOT in tests) that BREAKS this property, such that:
 1. the code still imports/compiles;
 2. the project's existing test suite still passes exactly as before. Run it like this and compare with the unmodified tree (expected: "468 passed, 25 errors" - the 25 collection errors are pre-existing because the python package `bitcoin.core` (python-bitcoinlib) is not installed in this sandbox and cannot be installed; there is no network):
      cd {wt} && /venv/bin/python -m pytest -q -p no:cacheprovider --timeout=900 --continue-on-collection-errors 2>&1 | tail -3
 3. the break needs something SPECIFIC to manifest - a particular input shape or boundary value, a particular device behaviour/chunk size/status word, a multi-step sequence of operations, a fault at a particular point, a particular interleaving or timing, state carried over from an earlier request, or two cooperating sites that each look fine alone. Earlier seeders already covered the obvious places; look at code paths they did NOT touch (other files among the relevant ones, helper modules these files call, the less common platform/mode/branch). Prefer subtle, deep triggers (second-order effects, state left behind by a previous operation, rarely-taken branches, boundary values of lengths and counters, error paths) over shallow ones. Do NOT produce a change that any ordinary use of the feature would expose immediately (e.g. do not simply always return an error, do not break the happy path of the most common request).
 4. it is a genuine, UNAMBIGUOUS violation of the property as stated (observable at the level the statement talks about - where the statement refers to the protocol documents under {wt}/docs, the documents must clearly disallow the new behaviour), not merely a style change or a behaviour the statement leaves open; and it must be able to manifest with the real third-party libraries installed in /venv (ledgerblue, hid, secp256k1, cryptography, requests): a trigger that only a mock which misbehaves in ways those libraries cannot would produce does not count.

DELIVERABLES (all inside {wt}, leave the source change UNCOMMITTED in the working tree):
 a. the modified source file(s) under {wt}/middleware;
 b. a demonstration program {wt}/seeded_demo.py that can be run as `/venv/bin/python {wt}/seeded_demo.py` , exits with status 1 (printing what went wrong) when run against the modified tree and exits 0 when run against the unmodified tree. To check the latter: `cd {wt} && git diff -- middleware > my.patch && git apply -R my.patch && /venv/bin/python seeded_demo.py; echo $?; git apply my.patch` . NEVER use `git stash` (the stash is shared between worktrees and other seeders are working concurrently). The demo must exercise the REAL middleware code from {wt}/middleware (put that directory on sys.path). Because `bitcoin.core` is missing, any module that imports `comm.bitcoin` (e.g. ledger.hsm2dongle, ledger.protocol, admin.*) cannot be imported unless your demo first installs a small stand-in for the `bitcoin` / `bitcoin.core` modules into sys.modules (only what your demo's code path needs); hardware is not available either, so replace the dongle / transport with mocks or fakes in your demo (e.g. patch `ledger.hsm2dongle.getDongle` or give HSM2Dongle a fake `.dongle` object with an `exchange(apdu, timeout)` method that returns the response bytes or raises ledgerblue.commException.CommException(msg, sw)). Keep the demo self-contained (standard library + packages already in /venv).
 c. a short {wt}/SEEDED_NOTES.md: which file/lines you changed, why it breaks the property, exactly what is needed for it to manifest, and why the existing tests do not notice.

Work autonomously; read the relevant source files first (listed with the property), think about what realistic mistakes would violate the statement only in specific circumstances, pick one, implement it, verify 1-4 yourself, and finish with a brief report (what you changed, what triggers it, results of the test suite and of the demo on both trees). Do not ask questions.
"""

if __name__ == "__main__":
    main()
